// ---- spliced by /verif (contracts/c16_keys) : contracts on the real key-state futures -----------------
//
// `KeysState<K>` / `OneRttKeysState` are only touched under the `Mutex` of `ArcKeys` / `ArcZeroRttKeys` /
// `ArcOneRttKeys`; a schedule of the waiter (poll) and the notifiers (set, invalid) is a sequence of these
// operations.  Each gets a contract from an ARBITRARY pre-state; the invariant "the task that sleeps on
// the keys is the one whose waker is stored" is established by a Pending poll and forces a wake-up in
// `set` and in `invalid` -- an induction over all schedules (single waiting task: the code's own
// `unreachable!` makes a second waiting task a caller obligation, stated below).
#[cfg(kani)]
mod verif_c16_keys {
    use std::{future::Future, pin::Pin, task::Context};

    use super::*;

    //@include ../c16_sendwaker/counting_waker.rs

    /// 0 Pending(None) 1 Pending(a) 2 Pending(b) 3 Ready 4 Invalid
    fn shape(st: &KeysState<u8>, a: &Task, b: &Task) -> u8 {
        match st {
            KeysState::Pending(None) => 0,
            KeysState::Pending(Some(w)) if a.is(w) => 1,
            KeysState::Pending(Some(w)) if b.is(w) => 2,
            KeysState::Pending(Some(_)) => 9,
            KeysState::Ready(_) => 3,
            KeysState::Invalid => 4,
        }
    }

    fn any_keys_state(a: &Task, b: &Task) -> KeysState<u8> {
        match kani::any::<u8>() % 5 {
            0 => KeysState::Pending(None),
            1 => KeysState::Pending(Some(a.waker())),
            2 => KeysState::Pending(Some(b.waker())),
            3 => KeysState::Ready(kani::any()),
            _ => KeysState::Invalid,
        }
    }

    /// contract of `<KeysState<K> as Future>::poll`, polled by task a, from any state except
    /// "another task's waker is stored" (caller obligation, see `poll_from_second_task_panics`).
    #[kani::proof]
    fn poll_contract() {
        let (a, b) = (Task::new(), Task::new());
        let mut st = any_keys_state(&a, &b);
        let old = shape(&st, &a, &b);
        kani::assume(old != 2); // caller obligation: at most one task waits for the keys
        let old_key = if let KeysState::Ready(k) = &st { Some(*k) } else { None };
        let w = a.waker();
        let mut cx = Context::from_waker(&w);

        let r = Pin::new(&mut st).poll(&mut cx);

        match old {
            0 | 1 => {
                assert!(r.is_pending(), "C16.keys.poll.pending_while_keys_unset");
                assert!(shape(&st, &a, &b) == 1, "C16.keys.poll.pending_stores_callers_waker");
            }
            3 => {
                assert!(r == core::task::Poll::Ready(old_key), "C16.keys.poll.ready_with_the_keys");
                assert!(shape(&st, &a, &b) == 3, "C16.keys.poll.ready_keeps_state");
            }
            _ => {
                assert!(r == core::task::Poll::Ready(None), "C16.keys.poll.invalid_yields_none");
                assert!(shape(&st, &a, &b) == 4, "C16.keys.poll.invalid_keeps_state");
            }
        }
        assert!(a.wakes() == 0 && b.wakes() == 0, "C16.keys.poll.wakes_nobody");
        assert!(a.live() == 1 + (shape(&st, &a, &b) == 1) as u32, "C16.keys.poll.sup.no_handle_leak");
        kani::cover!(old == 0, "C16.keys.poll.reach_first_registration");
        kani::cover!(old == 1, "C16.keys.poll.reach_repoll");
        kani::cover!(old == 3, "C16.keys.poll.reach_ready");
        kani::cover!(old == 4, "C16.keys.poll.reach_invalid");
    }

    /// the excluded region of `poll_contract` is exactly the code's own `unreachable!` arm: a second task
    /// polling while another task's waker is stored panics.  (caller obligation, made explicit)
    #[kani::proof]
    #[kani::should_panic]
    fn poll_from_second_task_panics() {
        let (a, b) = (Task::new(), Task::new());
        let mut st: KeysState<u8> = KeysState::Pending(Some(b.waker()));
        let w = a.waker();
        let mut cx = Context::from_waker(&w);
        let _ = Pin::new(&mut st).poll(&mut cx);
    }

    /// contract of `set(k)`: precondition state is Pending (set once, never after invalidation -- the
    /// other two arms are `unreachable!`); afterwards Ready(k) and the stored waker was woken exactly once.
    #[kani::proof]
    fn set_contract() {
        let (a, b) = (Task::new(), Task::new());
        let mut st = any_keys_state(&a, &b);
        let old = shape(&st, &a, &b);
        kani::assume(old <= 2); // caller obligation: keys are set at most once and not after invalid()
        let k: u8 = kani::any();

        st.set(k);

        assert!(matches!(st, KeysState::Ready(x) if x == k), "C16.keys.set.state_becomes_ready_with_keys");
        assert!(a.wakes() == (old == 1) as u32 && b.wakes() == (old == 2) as u32, "C16.keys.set.wakes_stored_waker_once");
        assert!(a.live() == 0 && b.live() == 0, "C16.keys.set.sup.waker_consumed");
        kani::cover!(old == 0, "C16.keys.set.reach_no_sleeper");
        kani::cover!(old == 1, "C16.keys.set.reach_wakes_sleeper");
    }

    #[kani::proof]
    #[kani::should_panic]
    fn set_twice_panics() {
        let mut st: KeysState<u8> = KeysState::Ready(kani::any());
        st.set(kani::any());
    }

    #[kani::proof]
    #[kani::should_panic]
    fn set_after_invalid_panics() {
        let mut st: KeysState<u8> = KeysState::Invalid;
        st.set(kani::any());
    }

    /// contract of `invalid()` (the "close" of a key slot), total: afterwards Invalid, returns the keys iff
    /// they were set, and a stored waker is woken exactly once -- closing wakes the sleeper.
    #[kani::proof]
    fn invalid_contract() {
        let (a, b) = (Task::new(), Task::new());
        let mut st = any_keys_state(&a, &b);
        let old = shape(&st, &a, &b);
        let old_key = if let KeysState::Ready(k) = &st { Some(*k) } else { None };

        let r = st.invalid();

        assert!(shape(&st, &a, &b) == 4, "C16.keys.invalid.state_becomes_invalid");
        assert!(r == old_key, "C16.keys.invalid.returns_keys_iff_ready");
        assert!(a.wakes() == (old == 1) as u32 && b.wakes() == (old == 2) as u32, "C16.keys.invalid.wakes_stored_waker_once");
        assert!(a.live() == 0 && b.live() == 0, "C16.keys.invalid.sup.waker_consumed");
        kani::cover!(old == 1, "C16.keys.invalid.reach_wakes_sleeper");
        kani::cover!(old == 3, "C16.keys.invalid.reach_retires_keys");
        kani::cover!(old == 4, "C16.keys.invalid.reach_idempotent");
    }

    /// no lost wake-up, inductive form.  Invariant while task a sleeps: state == Pending(Some(a)).
    /// Established by any Pending poll (poll_contract); from it every notifier wakes a and a's next poll
    /// observes the outcome; `get` (the only other operation) changes nothing.
    #[kani::proof]
    fn lemma_no_lost_wakeup() {
        let a = Task::new();
        let w = a.waker();
        let mut cx = Context::from_waker(&w);
        let mut st: KeysState<u8> = KeysState::Pending(Some(a.waker())); // the invariant state
        match kani::any::<u8>() % 3 {
            0 => {
                let k: u8 = kani::any();
                st.set(k);
                assert!(a.wakes() == 1, "C16.keys.no_lost_wakeup.set_wakes_sleeper");
                let r = Pin::new(&mut st).poll(&mut cx);
                assert!(r == core::task::Poll::Ready(Some(k)), "C16.keys.no_lost_wakeup.woken_task_gets_keys");
            }
            1 => {
                let _ = st.invalid();
                assert!(a.wakes() == 1, "C16.keys.no_lost_wakeup.invalid_wakes_sleeper");
                let r = Pin::new(&mut st).poll(&mut cx);
                assert!(r == core::task::Poll::Ready(None), "C16.keys.no_lost_wakeup.woken_task_sees_invalidation");
            }
            _ => {
                assert!(st.get().is_none(), "C16.keys.no_lost_wakeup.sup.get_none_while_pending");
                assert!(matches!(&st, KeysState::Pending(Some(x)) if a.is(x)) && a.wakes() == 0, "C16.keys.inv.preserved_by_get");
            }
        }
    }

    /// check-then-register window: keys set / invalidated BEFORE the first poll are observed by that poll.
    #[kani::proof]
    fn lemma_set_before_poll_is_observed() {
        let a = Task::new();
        let w = a.waker();
        let mut cx = Context::from_waker(&w);
        let mut st: KeysState<u8> = KeysState::Pending(None);
        let k: u8 = kani::any();
        if kani::any() {
            st.set(k);
            assert!(Pin::new(&mut st).poll(&mut cx) == core::task::Poll::Ready(Some(k)), "C16.keys.no_lost_wakeup.set_before_poll_observed");
        } else {
            let _ = st.invalid();
            assert!(Pin::new(&mut st).poll(&mut cx) == core::task::Poll::Ready(None), "C16.keys.no_lost_wakeup.invalid_before_poll_observed");
        }
    }

    /// the `GetRemoteKeys` future (what `ArcKeys::get_remote_keys` / `ArcZeroRttKeys::get_decrypt_keys`
    /// return): polls the slot under its Mutex.  Instantiated at K = u8 on a stack Mutex (cheap).
    #[kani::proof]
    #[kani::unwind(2)]
    fn get_remote_keys_future_contract() {
        let a = Task::new();
        let w = a.waker();
        let mut cx = Context::from_waker(&w);
        let m: Mutex<KeysState<u8>> = Mutex::new(KeysState::Pending(None));
        let mut fut = GetRemoteKeys(&m);
        assert!(Pin::new(&mut fut).poll(&mut cx).is_pending(), "C16.keys.future.pending_before_keys");
        assert!(matches!(&*m.lock().unwrap(), KeysState::Pending(Some(x)) if a.is(x)), "C16.keys.future.pending_stores_callers_waker");
        let k: u8 = kani::any();
        if kani::any() {
            m.lock().unwrap().set(k);
            assert!(a.wakes() == 1, "C16.keys.future.set_wakes_sleeper");
            assert!(Pin::new(&mut fut).poll(&mut cx) == core::task::Poll::Ready(Some(k)), "C16.keys.future.woken_task_gets_keys");
        } else {
            let _ = m.lock().unwrap().invalid();
            assert!(a.wakes() == 1, "C16.keys.future.invalid_wakes_sleeper");
            assert!(Pin::new(&mut fut).poll(&mut cx) == core::task::Poll::Ready(None), "C16.keys.future.woken_task_sees_invalidation");
        }
    }

    // ---- the shared wrappers, on the real key types (dummy key objects) -------------------------------

    struct DummyKey(usize);
    impl HeaderProtectionKey for DummyKey {
        fn encrypt_in_place(&self, _: &[u8], _: &mut u8, _: &mut [u8]) -> Result<(), rustls::Error> {
            Ok(())
        }
        fn decrypt_in_place(&self, _: &[u8], _: &mut u8, _: &mut [u8]) -> Result<(), rustls::Error> {
            Ok(())
        }
        fn sample_len(&self) -> usize {
            self.0
        }
    }
    impl PacketKey for DummyKey {
        fn encrypt_in_place(&self, _: u64, _: &[u8], _: &mut [u8]) -> Result<rustls::quic::Tag, rustls::Error> {
            Err(rustls::Error::EncryptError)
        }
        fn decrypt_in_place<'a>(&self, _: u64, _: &[u8], _: &'a mut [u8]) -> Result<&'a [u8], rustls::Error> {
            Err(rustls::Error::DecryptError)
        }
        fn tag_len(&self) -> usize {
            self.0
        }
        fn confidentiality_limit(&self) -> u64 {
            0
        }
        fn integrity_limit(&self) -> u64 {
            0
        }
    }
    fn dummy_dir(id: usize) -> DirectionalKeys {
        DirectionalKeys { header: Arc::new(DummyKey(id)), packet: Arc::new(DummyKey(id)) }
    }

    /// `ArcKeys`: get_remote_keys() future + set_keys / invalid through the Mutex.
    #[kani::proof]
    #[kani::unwind(2)]
    fn arc_keys_contract() {
        let a = Task::new();
        let w = a.waker();
        let mut cx = Context::from_waker(&w);
        let keys = ArcKeys::new_pending();
        let notifier = keys.clone();
        let id: usize = kani::any();

        let mut fut = keys.get_remote_keys();
        assert!(Pin::new(&mut fut).poll(&mut cx).is_pending(), "C16.keys.arc.pending_before_keys");
        assert!(keys.get_local_keys().is_none(), "C16.keys.arc.sup.no_local_keys_before_set");
        if kani::any() {
            notifier.set_keys(Keys { local: dummy_dir(id), remote: dummy_dir(id) });
            assert!(a.wakes() == 1, "C16.keys.arc.set_keys_wakes_sleeper");
            match Pin::new(&mut fut).poll(&mut cx) {
                core::task::Poll::Ready(Some(k)) => assert!(k.remote.packet.tag_len() == id, "C16.keys.arc.woken_task_gets_the_keys"),
                _ => assert!(false, "C16.keys.arc.woken_task_gets_the_keys"),
            }
            kani::cover!(true, "C16.keys.arc.reach_set");
        } else {
            assert!(notifier.invalid().is_none(), "C16.keys.arc.sup.invalid_returns_none_when_unset");
            assert!(a.wakes() == 1, "C16.keys.arc.invalid_wakes_sleeper");
            assert!(matches!(Pin::new(&mut fut).poll(&mut cx), core::task::Poll::Ready(None)), "C16.keys.arc.woken_task_sees_invalidation");
            kani::cover!(true, "C16.keys.arc.reach_invalid");
        }
    }

    /// `ArcZeroRttKeys` (server side waits, client side never does).
    #[kani::proof]
    #[kani::unwind(2)]
    fn arc_zero_rtt_keys_contract() {
        let a = Task::new();
        let w = a.waker();
        let mut cx = Context::from_waker(&w);
        let keys = ArcZeroRttKeys::new_pending(Role::Server);
        assert!(ArcZeroRttKeys::new_pending(Role::Client).get_decrypt_keys().is_none(), "C16.keys.zero_rtt.sup.client_never_waits");
        let mut fut = keys.get_decrypt_keys().unwrap();
        assert!(Pin::new(&mut fut).poll(&mut cx).is_pending(), "C16.keys.zero_rtt.pending_before_keys");
        if kani::any() {
            keys.set_keys(dummy_dir(7));
            assert!(a.wakes() == 1, "C16.keys.zero_rtt.set_keys_wakes_sleeper");
            assert!(matches!(Pin::new(&mut fut).poll(&mut cx), core::task::Poll::Ready(Some(_))), "C16.keys.zero_rtt.woken_task_gets_the_keys");
        } else {
            let _ = keys.invalid();
            assert!(a.wakes() == 1, "C16.keys.zero_rtt.invalid_wakes_sleeper");
            assert!(matches!(Pin::new(&mut fut).poll(&mut cx), core::task::Poll::Ready(None)), "C16.keys.zero_rtt.woken_task_sees_invalidation");
        }
    }

    /// `ArcOneRttKeys`: poll registers, `invalid` wakes.  (`set_keys` needs `rustls::quic::Secrets`, which
    /// has no public constructor -- unverified, see unit.json.)
    #[kani::proof]
    #[kani::unwind(2)]
    fn arc_one_rtt_keys_contract() {
        let a = Task::new();
        let w = a.waker();
        let mut cx = Context::from_waker(&w);
        let keys = ArcOneRttKeys::new_pending();
        let mut fut = keys.get_remote_keys();
        assert!(Pin::new(&mut fut).poll(&mut cx).is_pending(), "C16.keys.one_rtt.pending_before_keys");
        assert!(a.wakes() == 0 && a.live() == 2, "C16.keys.one_rtt.pending_stores_callers_waker");
        assert!(keys.invalid().is_none(), "C16.keys.one_rtt.sup.invalid_returns_none_when_unset");
        assert!(a.wakes() == 1, "C16.keys.one_rtt.invalid_wakes_sleeper");
        assert!(matches!(Pin::new(&mut fut).poll(&mut cx), core::task::Poll::Ready(None)), "C16.keys.one_rtt.woken_task_sees_invalidation");
        assert!(a.live() == 1, "C16.keys.one_rtt.sup.no_handle_leak");
    }

    /// the same slot, the remaining read-only operations and a spurious re-poll (thorough tier: every
    /// Mutex round trip costs CBMC ~30 s here because of the `dyn` key objects' drop glue candidates).
    #[kani::proof]
    #[kani::unwind(2)]
    fn arc_one_rtt_keys_repoll() {
        let a = Task::new();
        let w = a.waker();
        let mut cx = Context::from_waker(&w);
        let keys = ArcOneRttKeys::new_pending();
        let mut fut = keys.get_remote_keys();
        assert!(Pin::new(&mut fut).poll(&mut cx).is_pending(), "C16.keys.one_rtt.pending_before_keys");
        assert!(matches!(&*keys.lock_guard(), OneRttKeysState::Pending(Some(x)) if a.is(x)), "C16.keys.one_rtt.pending_stores_callers_waker");
        assert!(Pin::new(&mut fut).poll(&mut cx).is_pending(), "C16.keys.one_rtt.repoll_pending");
        assert!(matches!(&*keys.lock_guard(), OneRttKeysState::Pending(Some(x)) if a.is(x)), "C16.keys.one_rtt.repoll_keeps_callers_waker");
        assert!(a.wakes() == 0, "C16.keys.one_rtt.poll_wakes_nobody");
        assert!(keys.get_local_keys().is_none() && keys.remote_keys().is_none(), "C16.keys.one_rtt.sup.no_keys_before_set");
    }

    /// caller obligations of `ArcOneRttKeys` made explicit: `invalid()` on an already invalid slot hits
    /// `unreachable!()` (so it must be called at most once), and a second waiting task hits `unreachable!`.
    #[kani::proof]
    #[kani::unwind(2)]
    #[kani::should_panic]
    fn one_rtt_invalid_twice_panics() {
        let keys = ArcOneRttKeys::new_pending();
        let _ = keys.invalid();
        let _ = keys.invalid();
    }

    #[kani::proof]
    #[kani::unwind(2)]
    #[kani::should_panic]
    fn one_rtt_second_task_panics() {
        let (a, b) = (Task::new(), Task::new());
        let (wa, wb) = (a.waker(), b.waker());
        let keys = ArcOneRttKeys::new_pending();
        let mut fut = keys.get_remote_keys();
        let _ = Pin::new(&mut fut).poll(&mut Context::from_waker(&wa));
        let _ = Pin::new(&mut fut).poll(&mut Context::from_waker(&wb));
    }
}
