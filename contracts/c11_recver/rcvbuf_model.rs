// ---- spliced by /verif (contracts/c11_recver) : Kani model of RecvBuf used as stubs by the recver contracts ----
// Every function below REPLACES the VecDeque-based original in the c11_recver harnesses (CBMC runs out of memory
// on VecDeque<Segment>). Each one states exactly the part of the original's contract the receiver logic relies on;
// `stub_recv` is the cross-tool assumption "proved in the Verus unit c08_rcvbuf".
#[cfg(kani)]
pub(crate) mod verif_rcvbuf_model {
    use super::*;

    /// a RecvBuf in an arbitrary abstract state (segments are never looked at by the stubs)
    pub(crate) fn buf_with(nread: u64, largest_offset: u64) -> RecvBuf {
        RecvBuf { nread, largest_offset, segments: VecDeque::new() }
    }

    /// contract of `RecvBuf::recv(offset, data)`:
    ///   data empty            => nothing changes, returns 0
    ///   otherwise             => largest_offset' = max(largest_offset, offset + len), nread unchanged,
    ///                            returns largest_offset' - largest_offset
    pub(crate) fn stub_recv(b: &mut RecvBuf, offset: u64, data: Bytes) -> u64 {
        let len = data.len() as u64;
        core::mem::forget(data);
        if len == 0 {
            return 0;
        }
        let old = b.largest_offset;
        let end = offset + len;
        if end > old {
            b.largest_offset = end;
        }
        b.largest_offset - old
    }

    /// `is_readable`: unknown (depends on the segment layout) - any answer
    pub(crate) fn stub_is_readable(_b: &RecvBuf) -> bool {
        kani::any()
    }

    /// `available`: some contiguous amount that was really received: nread + available <= largest_offset
    pub(crate) fn stub_available(b: &RecvBuf) -> u64 {
        let a: u64 = kani::any();
        kani::assume(a <= b.largest_offset - b.nread);
        a
    }

    /// `try_read`: hands some received bytes to the application: nread grows, never beyond largest_offset
    pub(crate) fn stub_try_read(b: &mut RecvBuf, _dst: &mut impl BufMut) -> usize {
        let n: u64 = kani::any();
        kani::assume(n <= b.largest_offset - b.nread);
        b.nread += n;
        n as usize
    }

    pub(crate) static VERIF_ZEROS: [u8; 65_535] = [0; 65_535];

    /// a frame body of arbitrary length up to the largest UDP payload (content irrelevant to the contracts)
    pub(crate) fn any_body() -> Bytes {
        let n: usize = kani::any();
        kani::assume(n <= VERIF_ZEROS.len());
        Bytes::from_static(&VERIF_ZEROS[..n])
    }

    /// `try_next`: pops one contiguous chunk: nread grows by its length, never beyond largest_offset
    pub(crate) fn stub_try_next(b: &mut RecvBuf) -> Option<Bytes> {
        let d = any_body();
        kani::assume(d.len() as u64 <= b.largest_offset - b.nread && !d.is_empty());
        b.nread += d.len() as u64;
        Some(d)
    }
}
