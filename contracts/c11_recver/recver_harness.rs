// ---- spliced by /verif (contracts/c11_recver) : contracts on the real receive-side stream state machine ----
#[cfg(kani)]
mod verif_c11_recver {
    use core::cell::Cell;

    use qbase::frame::{FrameType, StreamFrame};

    use super::*;
    use crate::recv::{
        incoming::Incoming,
        rcvbuf::verif_rcvbuf_model::{any_body, buf_with},
    };

    //@include ../_shared/kani_stubs.rs

    /// stub for `format!` (only builds the human readable reason of an error; not under contract)
    fn stub_format(_args: core::fmt::Arguments<'_>) -> String {
        String::new()
    }

    /// frame sink for the generic `TX`: counts frames and keeps the last MAX_STREAM_DATA value
    #[derive(Debug, Default, Clone)]
    struct Sink {
        n_max: Cell<u32>,
        last_max: Cell<u64>,
        last_sid: Cell<u64>,
        n_stop: Cell<u32>,
    }

    impl SendFrame<MaxStreamDataFrame> for Sink {
        fn send_frame<I: IntoIterator<Item = MaxStreamDataFrame>>(&self, iter: I) {
            let mut it = iter.into_iter();
            if let Some(f) = it.next() {
                self.n_max.set(self.n_max.get() + 1);
                self.last_max.set(f.max_stream_data());
                self.last_sid.set(f.stream_id().into());
            }
            assert!(it.next().is_none(), "C11.recver.sup.sink_gets_one_frame_per_call");
        }
    }

    impl SendFrame<StopSendingFrame> for Sink {
        fn send_frame<I: IntoIterator<Item = StopSendingFrame>>(&self, iter: I) {
            let mut it = iter.into_iter();
            if it.next().is_some() {
                self.n_stop.set(self.n_stop.get() + 1);
            }
        }
    }

    fn any_sid() -> StreamId {
        let raw: u64 = kani::any();
        kani::assume(raw <= VARINT_MAX);
        StreamId::from(VarInt::from_u64(raw).unwrap())
    }

    fn any_waker() -> Option<Waker> {
        if kani::any() { Some(Waker::noop().clone()) } else { None }
    }

    /// a STREAM frame as the parser delivers it: offset is a varint, `len` is the length of the body handed over
    /// together with it, FIN arbitrary
    fn any_stream_frame(sid: StreamId) -> (StreamFrame, Bytes) {
        let body = any_body();
        let offset: u64 = kani::any();
        kani::assume(offset <= VARINT_MAX);
        let mut f = StreamFrame::new(sid, offset, body.len());
        f.set_eos_flag(kani::any());
        (f, body)
    }

    /// an arbitrary `Recv` state. Type invariant (from the code that maintains the fields):
    ///   nread <= rcvbuf.largest_offset <= largest <= max_stream_data <= 2^62-1
    /// (`largest` also counts empty frames, rcvbuf.largest_offset only real data; both only grow under the
    ///  `data_end <= max_stream_data` guard of `Recv::recv`; max_stream_data is only raised, capped at VARINT_MAX)
    fn any_recv() -> Recv<Sink> {
        any_recv_w(any_waker())
    }

    /// same, with a given reader waker (the Incoming-level harnesses use `None`: every `Waker::wake` is an indirect
    /// call that CBMC resolves against all candidate functions, which makes those harnesses 10x slower; wake-ups
    /// are liveness and are exercised by the function-level harnesses)
    fn any_recv_w(read_waker: Option<Waker>) -> Recv<Sink> {
        let nread: u64 = kani::any();
        let buf_largest: u64 = kani::any();
        let largest: u64 = kani::any();
        let max_stream_data: u64 = kani::any();
        kani::assume(nread <= buf_largest && buf_largest <= largest && largest <= max_stream_data && max_stream_data <= VARINT_MAX);
        Recv {
            stream_id: any_sid(),
            rcvbuf: buf_with(nread, buf_largest),
            read_waker,
            stop_state: if kani::any() { Some(kani::any()) } else { None },
            broker: Sink::default(),
            largest,
            max_stream_data,
        }
    }

    /// an arbitrary `SizeKnown` state; invariant nread <= rcvbuf.largest_offset <= final_size <= 2^62-1 + 65535
    fn any_size_known() -> SizeKnown<Sink> {
        any_size_known_w(any_waker())
    }

    fn any_size_known_w(read_waker: Option<Waker>) -> SizeKnown<Sink> {
        let nread: u64 = kani::any();
        let buf_largest: u64 = kani::any();
        let final_size: u64 = kani::any();
        kani::assume(nread <= buf_largest && buf_largest <= final_size && final_size <= VARINT_MAX + 65_535);
        SizeKnown {
            stream_id: any_sid(),
            rcvbuf: buf_with(nread, buf_largest),
            read_waker,
            stop_state: if kani::any() { Some(kani::any()) } else { None },
            broker: Sink::default(),
            final_size,
        }
    }

    /// contract of `Recv::recv` (STREAM frame without FIN while the size is unknown)
    #[kani::proof]
    #[kani::unwind(2)]
    #[kani::stub(qevent::telemetry::macro_support::build_and_emit_event, noop_emit)]
    #[kani::stub(std::fmt::format, stub_format)]
    #[kani::stub(crate::recv::rcvbuf::RecvBuf::recv, crate::recv::rcvbuf::verif_rcvbuf_model::stub_recv)]
    #[kani::stub(crate::recv::rcvbuf::RecvBuf::is_readable, crate::recv::rcvbuf::verif_rcvbuf_model::stub_is_readable)]
    fn recv_contract() {
        let mut r = any_recv();
        let (f, body) = any_stream_frame(r.stream_id);
        let (nread0, bl0, l0, m0) = (r.rcvbuf.nread(), r.rcvbuf.largest_offset(), r.largest, r.max_stream_data);
        let len = body.len() as u64;
        let end = f.offset() + len;
        let res = r.recv(f, body);
        assert!(r.max_stream_data == m0 && r.rcvbuf.nread() == nread0, "C11.recver.recv.limit_and_read_position_unchanged");
        match res {
            Err(e) => {
                assert!(end > m0, "C11.recver.recv.err_only_beyond_stream_limit");
                assert!(e.kind() == ErrorKind::FlowControl, "C11.recver.recv.beyond_stream_limit_is_flow_control_error");
                assert!(e.frame_type() == qbase::error::ErrorFrameType::from(f.frame_type()), "C11.recver.recv.error_names_frame_type");
                assert!(r.rcvbuf.largest_offset() == bl0 && r.largest == l0, "C11.recver.recv.refused_data_not_buffered");
            }
            Ok(fresh) => {
                assert!(end <= m0, "C11.recver.recv.accepts_only_within_stream_limit");
                assert!(r.rcvbuf.largest_offset() <= m0 && r.largest <= m0, "C11.recver.recv.buffered_data_within_stream_limit");
                // amount reported upwards (charged to the connection window) == growth of the highest data offset
                assert!(fresh as u64 == r.rcvbuf.largest_offset() - bl0, "C11.recver.recv.fresh_is_growth_of_largest_offset");
                // (fresh may exceed the frame length: a frame beyond a gap consumes the gap's credit as well -
                //  flow control is accounted by highest offset, RFC 9000 4.1)
                assert!(bl0 + fresh as u64 <= m0, "C11.recver.recv.total_charged_within_stream_limit");
                assert!(r.largest == if end > l0 { end } else { l0 }, "C11.recver.recv.largest_tracks_highest_end");
                assert!(r.rcvbuf.largest_offset() <= r.largest, "C11.recver.recv.sup.invariant_buf_largest_le_largest");
                kani::cover!(fresh > 0, "C11.recver.recv.reach_fresh");
                kani::cover!(fresh == 0 && len > 0, "C11.recver.recv.reach_retransmission");
            }
        }
        kani::cover!(end > m0, "C11.recver.recv.reach_violation");
        kani::cover!(end == m0, "C11.recver.recv.reach_exactly_at_limit");
        core::mem::forget(r);
    }

    /// FIN path at function level: `Incoming::recv_data` handles a FIN-bearing frame in state Recv by calling exactly
    /// `Recv::determin_size(&frame)` and then `SizeKnown::recv(frame, body)` on its result (incoming.rs, branch
    /// `Recver::Recv(r) if stream_frame.is_fin()`); this harness runs the two real functions in that order.
    /// OUTSIDE the bad region `offset+len > max_stream_data` (pinned in `fin_path_flow_control_finding`).
    #[kani::proof]
    #[kani::unwind(2)]
    #[kani::stub(qevent::telemetry::macro_support::build_and_emit_event, noop_emit)]
    #[kani::stub(std::fmt::format, stub_format)]
    #[kani::stub(crate::recv::rcvbuf::RecvBuf::recv, crate::recv::rcvbuf::verif_rcvbuf_model::stub_recv)]
    #[kani::stub(crate::recv::rcvbuf::RecvBuf::is_readable, crate::recv::rcvbuf::verif_rcvbuf_model::stub_is_readable)]
    fn fin_path_contract() {
        let mut r = any_recv();
        let (mut f, body) = any_stream_frame(r.stream_id);
        f.set_eos_flag(true);
        let (nread0, bl0, m0, sid0, stop0) = (r.rcvbuf.nread(), r.rcvbuf.largest_offset(), r.max_stream_data, r.stream_id, r.stop_state);
        let end = f.offset() + body.len() as u64;
        kani::assume(end <= m0); // KNOWN bad region excluded, see fin_path_flow_control_finding
        match r.determin_size(&f) {
            Err(e) => {
                assert!(end < bl0, "C12.recver.determin_size.err_only_when_final_below_received");
                assert!(e.kind() == ErrorKind::FinalSize, "C12.recver.determin_size.final_below_received_is_final_size_error");
                assert!(e.frame_type() == qbase::error::ErrorFrameType::from(f.frame_type()), "C12.recver.determin_size.error_names_frame_type");
                assert!(r.rcvbuf.largest_offset() == bl0 && r.rcvbuf.nread() == nread0, "C12.recver.determin_size.refused_fin_changes_nothing");
            }
            Ok(mut sk) => {
                assert!(end >= bl0, "C12.recver.determin_size.accepts_only_final_size_covering_received_data");
                assert!(sk.final_size == end, "C12.recver.determin_size.final_size_is_end_of_fin_frame");
                assert!(sk.stream_id == sid0 && sk.stop_state == stop0 && sk.rcvbuf.largest_offset() == bl0 && sk.rcvbuf.nread() == nread0,
                        "C12.recver.determin_size.carries_stream_state_over");
                let res = sk.recv(f, body);
                match res {
                    Ok(fresh) => {
                        assert!(sk.rcvbuf.largest_offset() <= sk.final_size && sk.final_size <= m0,
                                "C11.recver.fin_path.buffered_data_and_final_size_within_stream_limit");
                        assert!(fresh as u64 == sk.rcvbuf.largest_offset() - bl0, "C11.recver.fin_path.fresh_is_growth_of_largest_offset");
                    }
                    Err(_) => assert!(false, "C12.recver.fin_path.first_fin_is_consistent_with_itself"),
                }
                kani::cover!(end > bl0, "C12.recver.fin_path.reach_fin_with_new_data");
                kani::cover!(end == bl0, "C12.recver.fin_path.reach_fin_at_received_end");
                core::mem::forget(sk);
            }
        }
        kani::cover!(end < bl0, "C12.recver.fin_path.reach_final_below_received");
        core::mem::forget(r);
    }

    /// FINDING (confined): a STREAM frame carrying FIN whose end lies beyond the advertised MAX_STREAM_DATA.
    /// RFC 9000 4.1: the receiver MUST close the connection with FLOW_CONTROL_ERROR. Neither `determin_size` nor
    /// `SizeKnown::recv` looks at `max_stream_data`, so the frame is accepted and its bytes are buffered.
    #[kani::proof]
    #[kani::unwind(2)]
    #[kani::stub(qevent::telemetry::macro_support::build_and_emit_event, noop_emit)]
    #[kani::stub(std::fmt::format, stub_format)]
    #[kani::stub(crate::recv::rcvbuf::RecvBuf::recv, crate::recv::rcvbuf::verif_rcvbuf_model::stub_recv)]
    #[kani::stub(crate::recv::rcvbuf::RecvBuf::is_readable, crate::recv::rcvbuf::verif_rcvbuf_model::stub_is_readable)]
    fn fin_path_flow_control_finding() {
        let mut r = any_recv();
        let (mut f, body) = any_stream_frame(r.stream_id);
        f.set_eos_flag(true);
        let m0 = r.max_stream_data;
        let end = f.offset() + body.len() as u64;
        kani::assume(end > m0);
        let refused = match r.determin_size(&f) {
            Err(e) => e.kind() == ErrorKind::FlowControl,
            Ok(mut sk) => {
                let res = sk.recv(f, body);
                let x = matches!(&res, Err(e) if e.kind() == ErrorKind::FlowControl);
                core::mem::forget(res);
                core::mem::forget(sk);
                x
            }
        };
        core::mem::forget(r);
        assert!(refused, "C11.recver.fin_path.respects_stream_limit");
    }

    /// the protocol-side handle plus a second handle to look at the state afterwards
    fn incoming_in_state(st: Recver<Sink>) -> (Incoming<Sink>, ArcRecver<Sink>) {
        let arc = ArcRecver(Arc::new(Mutex::new(Ok(st))));
        (Incoming::new(arc.clone()), arc)
    }

    /// `Incoming::recv_data` in state Recv, every STREAM frame (with and without FIN), OUTSIDE the bad region
    /// `FIN && offset+len > max_stream_data` (pinned in `fin_path_flow_control_finding`).
    /// Carries the C11 clause "beyond the stream limit => FLOW_CONTROL_ERROR on every path" and the C12 clause
    /// "final size below data already received => FINAL_SIZE_ERROR".
    #[kani::proof]
    #[kani::unwind(2)]
    #[kani::stub(qevent::telemetry::macro_support::build_and_emit_event, noop_emit)]
    #[kani::stub(std::fmt::format, stub_format)]
    #[kani::stub(crate::recv::rcvbuf::RecvBuf::recv, crate::recv::rcvbuf::verif_rcvbuf_model::stub_recv)]
    #[kani::stub(crate::recv::rcvbuf::RecvBuf::is_readable, crate::recv::rcvbuf::verif_rcvbuf_model::stub_is_readable)]
    #[kani::stub(crate::recv::rcvbuf::RecvBuf::available, crate::recv::rcvbuf::verif_rcvbuf_model::stub_available)]
    fn incoming_recv_data_in_recv_state_contract() {
        let r = any_recv_w(None);
        let (f, body) = any_stream_frame(r.stream_id);
        let (bl0, m0) = (r.rcvbuf.largest_offset(), r.max_stream_data);
        let end = f.offset() + body.len() as u64;
        let fin = f.is_fin();
        kani::assume(!(fin && end > m0)); // KNOWN bad region, see fin_path_flow_control_finding
        let (inc, arc) = incoming_in_state(Recver::Recv(r));
        let res = inc.recv_data(f, body);
        let g = arc.recver();
        match res {
            Err(e) => {
                if end > m0 {
                    assert!(e.kind() == ErrorKind::FlowControl, "C11.recver.recv_data.beyond_stream_limit_is_flow_control_error");
                } else {
                    assert!(fin && end < bl0, "C12.recver.recv_data.err_only_for_limit_or_final_size");
                    assert!(e.kind() == ErrorKind::FinalSize, "C12.recver.determin_size.final_below_received_is_final_size_error");
                }
                assert!(e.frame_type() == qbase::error::ErrorFrameType::from(f.frame_type()), "C12.recver.recv_data.error_names_frame_type");
            }
            Ok((into_rcvd, fresh)) => {
                assert!(end <= m0, "C11.recver.recv_data.accepts_only_within_stream_limit");
                assert!(!fin || end >= bl0, "C12.recver.determin_size.accepts_only_final_size_covering_received_data");
                match g.as_ref().ok().unwrap() {
                    Recver::Recv(r1) => {
                        assert!(!fin && !into_rcvd, "C12.recver.recv_data.without_fin_size_stays_unknown");
                        assert!(r1.rcvbuf.largest_offset() <= m0 && fresh as u64 == r1.rcvbuf.largest_offset() - bl0,
                                "C11.recver.recv_data.buffered_within_limit_and_fresh_is_growth");
                    }
                    Recver::SizeKnown(s) => {
                        assert!(fin && !into_rcvd, "C12.recver.recv_data.fin_fixes_the_size");
                        assert!(s.final_size == end, "C12.recver.determin_size.final_size_is_end_of_fin_frame");
                        assert!(s.rcvbuf.largest_offset() <= s.final_size && fresh as u64 == s.rcvbuf.largest_offset() - bl0,
                                "C12.recver.recv_data.buffered_within_final_size_and_fresh_is_growth");
                    }
                    Recver::DataRcvd(_) => {
                        assert!(fin && into_rcvd, "C12.recver.recv_data.all_received_only_after_fin");
                    }
                    _ => assert!(false, "C12.recver.recv_data.no_other_state_reachable_from_recv"),
                }
                kani::cover!(fin && !into_rcvd, "C12.recver.recv_data.reach_size_known");
                kani::cover!(fin && into_rcvd, "C12.recver.recv_data.reach_data_rcvd");
            }
        }
        kani::cover!(fin && end < bl0, "C12.recver.recv_data.reach_final_below_received");
        kani::cover!(!fin && end > m0, "C11.recver.recv_data.reach_violation");
        drop(g);
        core::mem::forget(inc);
        core::mem::forget(arc);
    }

    /// the same FINDING through the real dispatcher `Incoming::recv_data` (thorough tier: Arc<Mutex<..>> round trips make
    /// it slow). FINDING (confined): a STREAM frame carrying FIN whose end lies beyond the advertised MAX_STREAM_DATA.
    /// RFC 9000 4.1: the receiver MUST close the connection with FLOW_CONTROL_ERROR. The FIN path
    /// (`determin_size` -> `SizeKnown::recv`) never looks at `max_stream_data`.
    #[kani::proof]
    #[kani::unwind(2)]
    #[kani::stub(qevent::telemetry::macro_support::build_and_emit_event, noop_emit)]
    #[kani::stub(std::fmt::format, stub_format)]
    #[kani::stub(crate::recv::rcvbuf::RecvBuf::recv, crate::recv::rcvbuf::verif_rcvbuf_model::stub_recv)]
    #[kani::stub(crate::recv::rcvbuf::RecvBuf::is_readable, crate::recv::rcvbuf::verif_rcvbuf_model::stub_is_readable)]
    #[kani::stub(crate::recv::rcvbuf::RecvBuf::available, crate::recv::rcvbuf::verif_rcvbuf_model::stub_available)]
    fn incoming_fin_path_flow_control_finding() {
        let r = any_recv_w(None);
        let (mut f, body) = any_stream_frame(r.stream_id);
        f.set_eos_flag(true);
        let m0 = r.max_stream_data;
        let end = f.offset() + body.len() as u64;
        kani::assume(end > m0);
        let (inc, arc) = incoming_in_state(Recver::Recv(r));
        let res = inc.recv_data(f, body);
        core::mem::forget(arc);
        let ok = matches!(&res, Err(e) if e.kind() == ErrorKind::FlowControl);
        core::mem::forget(res);
        core::mem::forget(inc);
        assert!(ok, "C11.recver.recv_data.fin_respects_stream_limit");
    }

    /// contract of `SizeKnown::recv` (C12 final-size rules once the size is known)
    #[kani::proof]
    #[kani::unwind(2)]
    #[kani::stub(qevent::telemetry::macro_support::build_and_emit_event, noop_emit)]
    #[kani::stub(std::fmt::format, stub_format)]
    #[kani::stub(crate::recv::rcvbuf::RecvBuf::recv, crate::recv::rcvbuf::verif_rcvbuf_model::stub_recv)]
    #[kani::stub(crate::recv::rcvbuf::RecvBuf::is_readable, crate::recv::rcvbuf::verif_rcvbuf_model::stub_is_readable)]
    fn size_known_recv_contract() {
        let mut s = any_size_known();
        let (f, body) = any_stream_frame(s.stream_id);
        let (nread0, bl0, fs0) = (s.rcvbuf.nread(), s.rcvbuf.largest_offset(), s.final_size);
        let end = f.offset() + body.len() as u64;
        let fin = f.is_fin();
        let res = s.recv(f, body);
        assert!(s.final_size == fs0 && s.rcvbuf.nread() == nread0, "C12.recver.size_known.recv.final_size_never_changes");
        let bad = end > fs0 || (fin && end != fs0);
        assert!(res.is_err() == bad, "C12.recver.size_known.recv.err_iff_final_size_contradicted");
        match res {
            Err(e) => {
                assert!(e.kind() == ErrorKind::FinalSize, "C12.recver.size_known.recv.contradiction_is_final_size_error");
                assert!(e.frame_type() == qbase::error::ErrorFrameType::from(f.frame_type()), "C12.recver.size_known.recv.error_names_frame_type");
                assert!(s.rcvbuf.largest_offset() == bl0, "C12.recver.size_known.recv.refused_data_not_buffered");
            }
            Ok(fresh) => {
                assert!(s.rcvbuf.largest_offset() <= fs0, "C12.recver.size_known.recv.no_data_beyond_final_size");
                assert!(fresh as u64 == s.rcvbuf.largest_offset() - bl0, "C11.recver.size_known.recv.fresh_is_growth_of_largest_offset");
            }
        }
        kani::cover!(end > fs0, "C12.recver.size_known.recv.reach_beyond_final");
        kani::cover!(fin && end < fs0, "C12.recver.size_known.recv.reach_fin_changes_final");
        kani::cover!(fin && end == fs0, "C12.recver.size_known.recv.reach_repeated_fin");
        core::mem::forget(s);
    }

    fn any_reset(sid: StreamId) -> ResetStreamFrame {
        let code: u64 = kani::any();
        let fs: u64 = kani::any();
        kani::assume(code <= VARINT_MAX && fs <= VARINT_MAX);
        ResetStreamFrame::new(sid, VarInt::from_u64(code).unwrap(), VarInt::from_u64(fs).unwrap())
    }

    /// contract of `Recv::recv_reset` (RESET_STREAM while the size is unknown), OUTSIDE the bad region
    /// final_size > max_stream_data (pinned in `reset_beyond_stream_limit_finding`)
    #[kani::proof]
    #[kani::unwind(2)]
    #[kani::stub(qevent::telemetry::macro_support::build_and_emit_event, noop_emit)]
    #[kani::stub(std::fmt::format, stub_format)]
    fn recv_reset_contract() {
        let mut r = any_recv();
        let f = any_reset(r.stream_id);
        let (bl0, l0, m0) = (r.rcvbuf.largest_offset(), r.largest, r.max_stream_data);
        let fs = f.final_size();
        kani::assume(fs <= m0); // bad region excluded
        let res = r.recv_reset(&f);
        assert!(res.is_err() == (fs < l0), "C12.recver.recv_reset.err_iff_final_below_largest_received");
        match res {
            Err(e) => {
                assert!(e.kind() == ErrorKind::FinalSize, "C12.recver.recv_reset.final_below_received_is_final_size_error");
                assert!(e.frame_type() == qbase::error::ErrorFrameType::from(FrameType::ResetStream), "C12.recver.recv_reset.error_names_frame_type");
            }
            Ok(credit) => {
                // the not yet charged part of the final size is what is reported for the connection window
                assert!(credit as u64 == fs - l0, "C11.recver.recv_reset.credit_is_final_minus_largest");
                assert!(bl0 + credit as u64 <= fs, "C11.recver.recv_reset.stream_never_charged_beyond_final_size");
                assert!(r.read_waker.is_none(), "C12.recver.recv_reset.sup.reader_woken");
                kani::cover!(credit > 0, "C11.recver.recv_reset.reach_credit");
            }
        }
        assert!(r.largest == l0 && r.max_stream_data == m0, "C12.recver.recv_reset.counters_unchanged");
        kani::cover!(fs < l0, "C12.recver.recv_reset.reach_violation");
        core::mem::forget(r);
    }

    /// FINDING (confined): RESET_STREAM whose final size lies beyond the advertised MAX_STREAM_DATA is accepted
    /// (RFC 9000 4.5: the final size is the flow-control credit consumed by the stream; 4.1: exceeding the stream
    /// limit MUST be answered with FLOW_CONTROL_ERROR). Only the connection-level check can still catch it.
    #[kani::proof]
    #[kani::unwind(2)]
    #[kani::stub(qevent::telemetry::macro_support::build_and_emit_event, noop_emit)]
    #[kani::stub(std::fmt::format, stub_format)]
    fn reset_beyond_stream_limit_finding() {
        let mut r = any_recv();
        let f = any_reset(r.stream_id);
        kani::assume(f.final_size() > r.max_stream_data);
        let res = r.recv_reset(&f);
        let ok = matches!(&res, Err(e) if e.kind() == ErrorKind::FlowControl);
        core::mem::forget(res);
        core::mem::forget(r);
        assert!(ok, "C11.recver.recv_reset.final_size_respects_stream_limit");
    }

    /// contract of `SizeKnown::recv_reset`
    #[kani::proof]
    #[kani::unwind(2)]
    #[kani::stub(qevent::telemetry::macro_support::build_and_emit_event, noop_emit)]
    #[kani::stub(std::fmt::format, stub_format)]
    fn size_known_recv_reset_contract() {
        let mut s = any_size_known();
        let f = any_reset(s.stream_id);
        let fs0 = s.final_size;
        let res = s.recv_reset(&f);
        assert!(res.is_err() == (f.final_size() != fs0), "C12.recver.size_known.recv_reset.err_iff_final_size_differs");
        if let Err(e) = res {
            assert!(e.kind() == ErrorKind::FinalSize, "C12.recver.size_known.recv_reset.change_is_final_size_error");
        }
        assert!(s.final_size == fs0, "C12.recver.size_known.recv_reset.final_size_never_changes");
        kani::cover!(f.final_size() == fs0, "C12.recver.size_known.recv_reset.reach_same");
        core::mem::forget(s);
    }

    /// `Incoming::recv_reset` in both receiving states: dispatches to the two functions above and moves to
    /// ResetRcvd only on success
    #[kani::proof]
    #[kani::unwind(2)]
    #[kani::stub(qevent::telemetry::macro_support::build_and_emit_event, noop_emit)]
    #[kani::stub(std::fmt::format, stub_format)]
    fn incoming_recv_reset_contract() {
        let known: bool = kani::any();
        let (st, sid, lower_bound, expect_eq) = if known {
            let s = any_size_known_w(None);
            let (sid, fs) = (s.stream_id, s.final_size);
            (Recver::SizeKnown(s), sid, fs, true)
        } else {
            let r = any_recv_w(None);
            // bad region of Recv::recv_reset (final size beyond the stream limit) is pinned separately
            let (sid, l) = (r.stream_id, r.largest);
            (Recver::Recv(r), sid, l, false)
        };
        let (inc, arc) = incoming_in_state(st);
        let f = any_reset(sid);
        let fs = f.final_size();
        let res = inc.recv_reset(f);
        let g = arc.recver();
        let contradicts = if expect_eq { fs != lower_bound } else { fs < lower_bound };
        assert!(res.is_err() == contradicts, "C12.recver.incoming.recv_reset.err_iff_final_size_contradicted");
        match res {
            Err(e) => {
                assert!(e.kind() == ErrorKind::FinalSize, "C12.recver.incoming.recv_reset.contradiction_is_final_size_error");
                assert!(!matches!(g.as_ref().ok().unwrap(), Recver::ResetRcvd(_)), "C12.recver.incoming.recv_reset.refused_reset_not_applied");
            }
            Ok(credit) => {
                let entered = match g.as_ref().ok().unwrap() {
                    Recver::ResetRcvd(x) => x.clone() == f,
                    _ => false,
                };
                assert!(entered, "C12.recver.incoming.recv_reset.enters_reset_rcvd");
                assert!(credit as u64 == if known { 0 } else { fs - lower_bound }, "C11.recver.incoming.recv_reset.credit_is_uncharged_part_of_final_size");
            }
        }
        kani::cover!(known && !contradicts, "C12.recver.incoming.recv_reset.reach_known_ok");
        kani::cover!(!known && contradicts, "C12.recver.incoming.recv_reset.reach_unknown_violation");
        drop(g);
        core::mem::forget(inc);
        core::mem::forget(arc);
    }

    /// window update on read: `Recv::poll_read` / `Recv::poll_next` (C11: the advertised stream limit never
    /// decreases; the MAX_STREAM_DATA frame carries exactly the new limit)
    #[kani::proof]
    #[kani::unwind(2)]
    #[kani::stub(qevent::telemetry::macro_support::build_and_emit_event, noop_emit)]
    #[kani::stub(crate::recv::rcvbuf::RecvBuf::is_readable, crate::recv::rcvbuf::verif_rcvbuf_model::stub_is_readable)]
    #[kani::stub(crate::recv::rcvbuf::RecvBuf::try_read, crate::recv::rcvbuf::verif_rcvbuf_model::stub_try_read)]
    #[kani::stub(crate::recv::rcvbuf::RecvBuf::try_next, crate::recv::rcvbuf::verif_rcvbuf_model::stub_try_next)]
    fn read_side_window_update_contract() {
        let mut r = any_recv();
        let (m0, l0, bl0) = (r.max_stream_data, r.largest, r.rcvbuf.largest_offset());
        let sid_raw: u64 = r.stream_id.into();
        let mut cx = Context::from_waker(Waker::noop());
        let ready = if kani::any() {
            let mut store = [0u8; 8];
            let mut dst = &mut store[..];
            r.poll_read(&mut cx, &mut dst).is_ready()
        } else {
            match r.poll_next(&mut cx) {
                Poll::Ready(b) => {
                    core::mem::forget(b);
                    true
                }
                Poll::Pending => false,
            }
        };
        let n = r.broker.n_max.get();
        assert!(r.max_stream_data >= m0, "C11.recver.read.advertised_stream_limit_never_decreases");
        assert!(r.max_stream_data <= VARINT_MAX, "C11.recver.read.limit_fits_varint");
        assert!(n <= 1 && (n == 1) == (r.max_stream_data != m0), "C11.recver.read.max_stream_data_frame_iff_limit_raised");
        assert!(n == 0 || (r.broker.last_max.get() == r.max_stream_data && r.broker.last_sid.get() == sid_raw),
                "C11.recver.read.max_stream_data_frame_carries_new_limit_and_stream");
        assert!(r.largest == l0 && r.rcvbuf.largest_offset() == bl0, "C11.recver.read.received_counters_unchanged");
        assert!(ready || (n == 0 && r.read_waker.is_some()), "C11.recver.read.sup.pending_registers_waker_only");
        kani::cover!(n == 1, "C11.recver.read.reach_window_update");
        kani::cover!(ready && n == 0, "C11.recver.read.reach_no_update");
        core::mem::forget(r);
    }

    /// `Recv::new` / `Recver::new` / `ArcRecver::new`: the initial stream limit is the buffer size passed in
    #[kani::proof]
    #[kani::unwind(2)]
    fn new_contract() {
        let sid = any_sid();
        let w: u64 = kani::any();
        let a = ArcRecver::new(sid, w, Sink::default());
        {
            let g = a.recver();
            match g.as_ref().ok().unwrap() {
                Recver::Recv(r) => {
                    assert!(r.max_stream_data == w, "C11.recver.new.initial_limit_is_given_window");
                    assert!(r.largest == 0 && r.rcvbuf.largest_offset() == 0 && r.rcvbuf.nread() == 0 && r.stream_id() == sid,
                            "C11.recver.new.nothing_received");
                }
                _ => assert!(false, "C11.recver.new.starts_in_recv_state"),
            }
        }
        core::mem::forget(a);
    }

    // ---- C16: a STREAM frame that makes buffered data readable wakes the sleeping reader -----------------------------
    /// readability of the buffer after the frame has been stored: one arbitrary but FIXED answer per execution (it
    /// depends on the segment layout, which the RecvBuf model abstracts)
    static mut VP_READABLE_AFTER: bool = false;
    fn stub_is_readable_fixed(_b: &crate::recv::rcvbuf::RecvBuf) -> bool {
        unsafe { VP_READABLE_AFTER }
    }

    /// `Recv::recv` / `SizeKnown::recv`: whenever an accepted frame leaves the buffer readable -- whether or not it moved
    /// the highest offset (a retransmission that fills a hole has fresh == 0) -- a registered reader is woken
    /// (its waker is taken); while nothing is readable the waker stays registered.
    #[kani::proof]
    #[kani::unwind(2)]
    #[kani::stub(qevent::telemetry::macro_support::build_and_emit_event, noop_emit)]
    #[kani::stub(std::fmt::format, stub_format)]
    #[kani::stub(crate::recv::rcvbuf::RecvBuf::recv, crate::recv::rcvbuf::verif_rcvbuf_model::stub_recv)]
    #[kani::stub(crate::recv::rcvbuf::RecvBuf::is_readable, stub_is_readable_fixed)]
    fn recv_wakes_sleeping_reader_contract() {
        let readable: bool = kani::any();
        unsafe { VP_READABLE_AFTER = readable };
        let mut r = any_recv_w(Some(Waker::noop().clone()));
        let (f, body) = any_stream_frame(r.stream_id);
        let res = r.recv(f, body);
        if let Ok(fresh) = res {
            assert!(!readable || r.read_waker.is_none(), "C16.recver.recv.readable_data_wakes_the_sleeping_reader");
            assert!(readable || r.read_waker.is_some(), "C16.recver.recv.sup.waker_stays_registered_while_nothing_is_readable");
            kani::cover!(readable && fresh == 0, "C16.recver.recv.reach_hole_filled_without_new_highest_offset");
            kani::cover!(readable && fresh > 0, "C16.recver.recv.reach_readable_fresh");
        }
        core::mem::forget(r);
    }
}
