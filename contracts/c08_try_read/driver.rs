// ---- spliced by /verif (contracts/c08_try_read): paired native search for a failing input -------------
// Used ONLY after a proof obligation of the Verus unit has failed, to look for a concrete input on the real
// code; it never contributes a pass. Exhaustive small scope: one 6-byte source, every fragment that is a slice
// of it (28, including empty ones), interleaved with try_read into a sink of capacity 0..=6 (a `&mut [u8]`) or an
// unbounded sink (`Vec<u8>`), every operation sequence up to length 3.
#[cfg(test)]
mod verif_drv_c08_try_read {
    use std::collections::BTreeMap;

    use super::*;

    #[derive(Clone, Copy, Debug)]
    enum Op {
        Recv(u64, u64),
        /// try_read into a `&mut [u8]` of this capacity
        Read(usize),
        /// try_read into a Vec<u8> that already holds two bytes
        ReadVec,
    }

    fn view(b: &RecvBuf) -> BTreeMap<u64, u8> {
        let mut m = BTreeMap::new();
        for s in b.segments.iter() {
            for (i, x) in s.data.iter().enumerate() {
                m.insert(s.offset + i as u64, *x);
            }
        }
        m
    }

    fn run(ops: &[Op], src: &[u8]) -> Result<(), String> {
        let mut buf = RecvBuf::default();
        let mut model: BTreeMap<u64, u8> = BTreeMap::new();
        let mut read: Vec<u8> = vec![];
        for (step, op) in ops.iter().enumerate() {
            let nread0 = buf.nread;
            let largest0 = buf.largest_offset;
            match *op {
                Op::Recv(off, len) => {
                    let data = Bytes::copy_from_slice(&src[off as usize..(off + len) as usize]);
                    buf.recv(off, data);
                    for p in off.max(nread0)..off + len {
                        model.entry(p).or_insert(src[p as usize]);
                    }
                }
                Op::Read(_) | Op::ReadVec => {
                    // what the contract says must come out: the buffered bytes at nread0, nread0+1, .. up to the first
                    // gap or the capacity of the sink
                    let cap = match *op {
                        Op::Read(c) => c,
                        _ => usize::MAX,
                    };
                    let mut want = vec![];
                    while want.len() < cap {
                        match model.get(&(nread0 + want.len() as u64)) {
                            Some(x) => want.push(*x),
                            None => break,
                        }
                    }
                    let (r, got): (usize, Vec<u8>) = match *op {
                        Op::Read(c) => {
                            let mut storage = [0xEEu8; 8];
                            let r = {
                                let mut sink = &mut storage[..c];
                                let r = buf.try_read(&mut sink);
                                if c - sink.len() != r {
                                    return Err(format!("step {step}: try_read returned {r} but {} bytes were put", c - sink.len()));
                                }
                                r
                            };
                            if storage[c..].iter().any(|x| *x != 0xEE) {
                                return Err(format!("step {step}: try_read wrote beyond the sink"));
                            }
                            (r, storage[..r].to_vec())
                        }
                        _ => {
                            let mut sink = vec![0xAAu8, 0xBB];
                            let r = buf.try_read(&mut sink);
                            if sink.len() != 2 + r || sink[..2] != [0xAA, 0xBB] {
                                return Err(format!("step {step}: try_read returned {r}, sink is {:?}", sink));
                            }
                            (r, sink[2..].to_vec())
                        }
                    };
                    if got != want {
                        return Err(format!("step {step}: try_read put {:?} (returned {r}), expected {:?}", got, want));
                    }
                    if buf.nread != nread0 + r as u64 {
                        return Err(format!("step {step}: nread {} != {} + {r}", buf.nread, nread0));
                    }
                    for k in 0..r as u64 {
                        model.remove(&(nread0 + k));
                    }
                    if buf.largest_offset != largest0 {
                        return Err(format!("step {step}: try_read changed largest_offset"));
                    }
                    read.extend_from_slice(&got);
                }
            }
            if view(&buf) != model {
                return Err(format!("step {step}: buffered view {:?} != expected {:?}", view(&buf), model));
            }
            if read[..] != src[..read.len()] {
                return Err(format!("step {step}: bytes handed to the reader {:?} are not a prefix of the source", read));
            }
        }
        Ok(())
    }

    #[test]
    fn search() {
        // watchdog: a sequence that does not finish within 10 s is a hang of the real code
        use std::sync::{Arc, Mutex, atomic::{AtomicU64, Ordering}};
        let progress = Arc::new(AtomicU64::new(0));
        let current: Arc<Mutex<Vec<Op>>> = Arc::new(Mutex::new(vec![]));
        let (p2, c2) = (progress.clone(), current.clone());
        let worker = std::thread::spawn(move || search_all(&p2, &c2));
        let mut last = 0;
        let mut stuck = 0;
        loop {
            std::thread::sleep(std::time::Duration::from_millis(500));
            if worker.is_finished() {
                break;
            }
            let now = progress.load(Ordering::Relaxed);
            if now == last {
                stuck += 1;
                if stuck >= 20 {
                    println!("VERIF-WITNESS property=C08 ops={:?} on src=[1, 2, 3, 4, 5, 6]: the real code does not return (no progress for 10 s)", current.lock().unwrap());
                    std::process::exit(1);
                }
            } else {
                stuck = 0;
                last = now;
            }
        }
        worker.join().unwrap();
    }

    fn search_all(progress: &std::sync::atomic::AtomicU64, current: &std::sync::Mutex<Vec<Op>>) {
        let src: Vec<u8> = (1..=6).collect();
        let mut alphabet = vec![Op::ReadVec];
        for c in 0..=6usize {
            alphabet.push(Op::Read(c));
        }
        for off in 0..=6u64 {
            for len in 0..=(6 - off) {
                alphabet.push(Op::Recv(off, len));
            }
        }
        let n = alphabet.len();
        let mut count = 0u64;
        for depth in 1..=3usize {
            let mut idx = vec![0usize; depth];
            loop {
                let ops: Vec<Op> = idx.iter().map(|i| alphabet[*i]).collect();
                count += 1;
                *current.lock().unwrap() = ops.clone();
                progress.store(count, std::sync::atomic::Ordering::Relaxed);
                if let Err(e) = std::panic::catch_unwind(|| run(&ops, &src)).unwrap_or_else(|_| Err("panicked".into())) {
                    println!("VERIF-WITNESS property=C08 ops={:?} on src={:?}: {}", ops, src, e);
                    std::process::exit(1);
                }
                let mut k = depth;
                loop {
                    if k == 0 {
                        break;
                    }
                    k -= 1;
                    idx[k] += 1;
                    if idx[k] < n {
                        break;
                    }
                    idx[k] = 0;
                    if k == 0 {
                        k = usize::MAX;
                        break;
                    }
                }
                if k == usize::MAX {
                    break;
                }
            }
        }
        println!("VERIF-SEARCH-DONE property=C08 sequences={count} no failing input within the bound");
    }
}
