// ---- spliced by /verif (contracts/c14_remote_cids) : contracts of RemoteCids / CidCell (ids the peer issues) ----
#[cfg(kani)]
mod verif_c14_remote_cids {
    use core::cell::Cell;

    use super::*;

    /// Stand-in for `RETIRED` (the outgoing RETIRE_CONNECTION_ID queue): counts frames, remembers which
    /// sequence numbers (< 64) were retired and fails the proof if one is retired twice.
    #[derive(Default)]
    struct Counters {
        frames: Cell<u32>,
        mask: Cell<u64>,
        twice: Cell<bool>,
    }

    #[derive(Clone, Copy)]
    struct Probe<'a>(&'a Counters);

    impl SendFrame<RetireConnectionIdFrame> for Probe<'_> {
        fn send_frame<I: IntoIterator<Item = RetireConnectionIdFrame>>(&self, iter: I) {
            for f in iter {
                self.0.frames.set(self.0.frames.get() + 1);
                let seq = f.sequence();
                if seq < 64 {
                    let bit = 1u64 << seq;
                    if self.0.mask.get() & bit != 0 {
                        self.0.twice.set(true);
                    }
                    self.0.mask.set(self.0.mask.get() | bit);
                }
            }
        }
    }

    fn cid(tag: u8) -> ConnectionId {
        let mut bytes = [0u8; crate::cid::MAX_CID_SIZE];
        bytes[0] = tag;
        ConnectionId { len: 8, bytes }
    }

    fn stub_token() -> ResetToken {
        ResetToken::default()
    }

    fn stub_format(_args: core::fmt::Arguments<'_>) -> String {
        String::new()
    }

    fn noop_wake(_w: &ArcSendWaker, _s: Signals) {}

    // recording stub for the rejecting paths (see unit c14_local_cids): the table must not be touched
    static TOUCHED: core::sync::atomic::AtomicBool = core::sync::atomic::AtomicBool::new(false);
    fn touched() -> bool {
        TOUCHED.load(core::sync::atomic::Ordering::Relaxed)
    }
    fn recording_insert<T: Default + Clone, const LIMIT: u64>(
        _d: &mut IndexDeque<T, LIMIT>,
        _idx: u64,
        _v: T,
    ) -> Result<Option<T>, crate::util::IndexError> {
        TOUCHED.store(true, core::sync::atomic::Ordering::Relaxed);
        Ok(None)
    }

    fn frame(seq: u64, rpt: u64) -> NewConnectionIdFrame {
        NewConnectionIdFrame::new(cid(0x40), VarInt::from_u64(seq).unwrap(), VarInt::from_u64(rpt).unwrap())
    }

    /// NEW_CONNECTION_ID on the two rejecting paths (over the limit rule / below the retired window), every
    /// limit, window start, sequence number and retire-prior-to.  Returns what the contracts look at.
    fn run_rejecting(c: &Counters) -> (bool, bool, bool, bool) {
        let limit: u64 = kani::any();
        let first: u64 = kani::any(); // ids below `first` already retired (cid_deque.offset)
        let seq: u64 = kani::any();
        let rpt: u64 = kani::any();
        kani::assume(limit >= 2 && limit <= VARINT_MAX); // our own active_connection_id_limit (>= 2 by RFC 9000 18.2)
        kani::assume(first <= VARINT_MAX && seq <= VARINT_MAX);
        kani::assume(rpt <= seq); // enforced by be_new_connection_id_frame (FRAME_ENCODING_ERROR otherwise)
        let mut rc = RemoteCids::new(limit, Probe(c));
        rc.cid_deque.reset_offset(first);
        rc.ready_cells.reset_offset(first);
        rc.cursor = first;
        kani::assume(seq - rpt > limit || seq < first);
        let r = rc.recv_new_cid_frame(frame(seq, rpt));
        let over = seq - rpt > limit;
        let err_ok = matches!(r.as_ref().map_err(|e| e.kind()), Err(ErrorKind::ConnectionIdLimit));
        let ignored = matches!(r, Ok(None));
        let unchanged = rc.cid_deque.len() == 0 && rc.cid_deque.offset() == first && rc.cursor == first && rc.ready_cells.offset() == first;
        kani::cover!(r.is_err(), "C14.remote.new_cid.reach_err");
        kani::cover!(ignored, "C14.remote.new_cid.reach_ignored");
        (over, err_ok, ignored, unchanged)
    }

    /// "rejects an issue that exceeds its own limit" (as far as the code's own rule goes; see the off-by-one
    /// finding below) with CONNECTION_ID_LIMIT_ERROR; frames below the retired window are ignored
    #[kani::proof]
    #[kani::unwind(3)]
    #[kani::stub(crate::token::ResetToken::random_gen, stub_token)]
    #[kani::stub(alloc::fmt::format, stub_format)]
    #[kani::stub(crate::util::IndexDeque::insert, recording_insert)]
    fn new_cid_rejecting_paths_contract() {
        let c = Counters::default();
        let (over, err_ok, ignored, unchanged) = run_rejecting(&c);
        if over {
            assert!(err_ok, "C14.remote.new_cid.over_limit_is_connection_id_limit_error");
        } else {
            assert!(ignored, "C14.remote.new_cid.below_window_ignored");
        }
        assert!(unchanged, "C14.remote.new_cid.rejected_leaves_table");
    }

    /// ... and in both cases NOTHING is done (table not touched, no frame emitted)
    #[kani::proof]
    #[kani::unwind(3)]
    #[kani::stub(crate::token::ResetToken::random_gen, stub_token)]
    #[kani::stub(alloc::fmt::format, stub_format)]
    #[kani::stub(crate::util::IndexDeque::insert, recording_insert)]
    fn new_cid_rejected_not_acted_on() {
        let c = Counters::default();
        let (_over, _err_ok, _ignored, unchanged) = run_rejecting(&c);
        assert!(!touched() && unchanged, "C04.remote_cid.new_cid.rejected_not_acted_on");
        assert!(c.frames.get() == 0, "C04.remote_cid.new_cid.rejected_emits_nothing");
    }

    fn active(rc: &RemoteCids<Probe<'_>>) -> u64 {
        let mut n = 0;
        let mut i = rc.cid_deque.offset();
        while i < rc.cid_deque.largest() {
            if matches!(rc.cid_deque.get(i), Some(Some(_))) {
                n += 1;
            }
            i += 1;
        }
        n
    }

    /// Accepting path, in-order issue within the limit: id 0 known (handshake), NEW_CONNECTION_ID(1, rpt 0)
    /// is stored, nothing retired, nothing emitted.
    #[kani::proof]
    #[kani::unwind(5)]
    #[kani::stub(crate::token::ResetToken::random_gen, stub_token)]
    #[kani::stub(alloc::fmt::format, stub_format)]
    fn new_cid_in_order_contract() {
        let c = Counters::default();
        let mut rc = RemoteCids::new(2, Probe(&c));
        rc.cid_deque.push_back(Some((0, cid(1), ResetToken::default()))).unwrap();
        let r = rc.recv_new_cid_frame(frame(1, 0));
        assert!(matches!(r, Ok(Some(_))), "C14.remote.new_cid.in_order_accepted");
        assert!(rc.cid_deque.len() == 2 && active(&rc) == 2, "C14.remote.new_cid.stored");
        assert!(matches!(rc.cid_deque.get(1), Some(Some((1, id, _))) if id.bytes[0] == 0x40), "C14.remote.new_cid.stored_under_its_sequence_number");
        assert!(c.frames.get() == 0, "C14.remote.new_cid.nothing_retired");
        assert!(active(&rc) <= rc.active_cid_limit, "C14.remote.new_cid.active_within_limit");
    }

    /// FINDING (confined): the limit rule is `seq - retire_prior_to > limit`, but the ids seq .. rpt inclusive
    /// are seq - rpt + 1 many: with limit 2 and ids 0, 1 active, NEW_CONNECTION_ID(2, rpt 0) is accepted and
    /// three ids are active (RFC 9000 5.1.1: MUST close with CONNECTION_ID_LIMIT_ERROR).
    #[kani::proof]
    #[kani::unwind(6)]
    #[kani::stub(crate::token::ResetToken::random_gen, stub_token)]
    #[kani::stub(alloc::fmt::format, stub_format)]
    fn new_cid_limit_off_by_one() {
        let c = Counters::default();
        let mut rc = RemoteCids::new(2, Probe(&c));
        rc.cid_deque.push_back(Some((0, cid(1), ResetToken::default()))).unwrap();
        rc.cid_deque.push_back(Some((1, cid(2), ResetToken::default()))).unwrap();
        let r = rc.recv_new_cid_frame(frame(2, 0));
        kani::cover!(r.is_ok(), "C14.remote.new_cid.off_by_one.reach_accepted");
        assert!(r.is_err() || active(&rc) <= rc.active_cid_limit, "C14.remote.new_cid.active_count_within_limit");
    }

    /// FINDING (confined): memory and emitted frames follow the attacker-chosen sequence number, not the
    /// limit.  Fresh table (id 0 not even known yet, no path cell), limit 2, ONE frame
    /// NEW_CONNECTION_ID(seq = 4, retire_prior_to = 4): passes the limit rule (4 - 4 = 0), `insert(4)` resizes
    /// the table to 5 records, `retire_prior_to(4)` emits 4 RETIRE_CONNECTION_ID frames for ids never
    /// received.  Scale: seq = rpt = 2^40 -> 2^40 records (~48 B each) and 2^40 frames from one ~30-byte frame.
    #[kani::proof]
    #[kani::unwind(8)]
    #[kani::stub(crate::token::ResetToken::random_gen, stub_token)]
    #[kani::stub(alloc::fmt::format, stub_format)]
    fn new_cid_cost_follows_sequence_number() {
        let c = Counters::default();
        let limit = 2u64;
        let mut rc = RemoteCids::new(limit, Probe(&c));
        let r = rc.recv_new_cid_frame(frame(4, 4));
        kani::cover!(r.is_ok(), "C04.remote_cid.new_cid.cost.reach_accepted");
        kani::cover!(r.is_ok() && c.frames.get() == 4, "C04.remote_cid.new_cid.cost.reach_four_frames");
        // per received frame: at most limit + 1 ids can have been live, so at most that many retirements
        assert!(r.is_err() || c.frames.get() as u64 <= limit + 1, "C04.remote_cid.new_cid.retirements_bounded_by_limit");
    }

    // ------------------------------------------------------------------------------------------------
    // CidCell: one path's view.  "each path uses one ID at a time ... sending one retirement per abandoned ID"

    fn fresh_cell<'a>(c: &'a Counters) -> CidCell<Probe<'a>> {
        CidCell {
            retired_cids: Probe(c),
            allocated_cids: VecDeque::with_capacity(2),
            waker: None,
            is_retired: false,
            is_using: false,
        }
    }

    fn held_mask(cell: &CidCell<Probe<'_>>) -> u64 {
        let mut m = 0u64;
        let mut i = 0;
        while i < cell.allocated_cids.len() {
            m |= 1u64 << cell.allocated_cids[i].0;
            i += 1;
        }
        m
    }

    /// invariant of a cell after every operation; `assigned` = set of sequence numbers ever assigned
    fn check_inv(cell: &CidCell<Probe<'_>>, c: &Counters, assigned: u64) {
        let held = held_mask(cell);
        assert!(cell.is_using || cell.allocated_cids.len() <= 1, "C14.remote.cell.idle_cell_holds_at_most_one_id");
        assert!(cell.allocated_cids.len() <= 2 || cell.is_using, "C14.remote.cell.sup.len");
        assert!(!cell.is_retired || cell.allocated_cids.len() == 0, "C14.remote.cell.retired_cell_holds_nothing");
        assert!(!c.twice.get(), "C14.remote.cell.each_id_retired_at_most_once");
        assert!(held & c.mask.get() == 0, "C14.remote.cell.retired_id_not_held");
        assert!(held | c.mask.get() == assigned, "C14.remote.cell.every_id_held_or_retired_no_leak");
        assert!(c.frames.get() == c.mask.get().count_ones(), "C14.remote.cell.one_frame_per_abandoned_id");
    }

    /// One path's whole life, scripted (a symbolic choice of operations was tried: 22 GB, no answer):
    /// assign 0, borrow, assign 1 while 0 is in use (retire-prior-to switch pending), release, assign 2 while
    /// idle, path retired, retired again, borrow after retirement.
    #[kani::proof]
    #[kani::unwind(6)]
    #[kani::stub(crate::net::tx::ArcSendWaker::wake_by, noop_wake)]
    fn cid_cell_life_script() {
        let c = Counters::default();
        let mut cell = fresh_cell(&c);
        cell.assign(0, cid(0));
        check_inv(&cell, &c, 0b1);
        assert!(c.frames.get() == 0, "C14.remote.cell.first_assign_retires_nothing");
        let r = cell.borrow_cid(ArcSendWaker::default());
        assert!(matches!(r, Ok(Some(id)) if id.bytes[0] == 0) && cell.is_using, "C14.remote.cell.borrow.hands_out_current_id");
        check_inv(&cell, &c, 0b1);
        cell.assign(1, cid(1)); // peer asked to retire 0 while a packet is being built with it
        check_inv(&cell, &c, 0b11);
        assert!(c.frames.get() == 0 && cell.allocated_cids.len() == 2, "C14.remote.cell.in_use_id_not_retired_under_the_borrower");
        cell.renew(); // BorrowedCid dropped
        check_inv(&cell, &c, 0b11);
        assert!(!cell.is_using && c.mask.get() == 0b1 && cell.allocated_cids[0].0 == 1, "C14.remote.cell.renew_retires_the_abandoned_id_and_switches");
        cell.assign(2, cid(2)); // idle: the old id is abandoned at once
        check_inv(&cell, &c, 0b111);
        assert!(c.mask.get() == 0b11 && cell.allocated_cids.len() == 1, "C14.remote.cell.idle_assign_retires_previous_id");
        let r = cell.borrow_cid(ArcSendWaker::default());
        assert!(matches!(r, Ok(Some(id)) if id.bytes[0] == 2), "C14.remote.cell.borrow.hands_out_newest_id");
        cell.renew();
        check_inv(&cell, &c, 0b111);
        cell.retire(); // path abandoned
        check_inv(&cell, &c, 0b111);
        assert!(c.mask.get() == 0b111 && c.frames.get() == 3, "C14.remote.cell.retire_retires_everything_held");
        cell.retire();
        check_inv(&cell, &c, 0b111);
        assert!(c.frames.get() == 3, "C14.remote.cell.second_retire_emits_nothing");
        let r = cell.borrow_cid(ArcSendWaker::default());
        assert!(matches!(r, Ok(None)), "C14.remote.cell.borrow.retired_hands_out_nothing");
    }

    /// an idle, empty cell asks the caller to wait (and keeps its waker) instead of handing out an id
    #[kani::proof]
    #[kani::unwind(6)]
    #[kani::stub(crate::net::tx::ArcSendWaker::wake_by, noop_wake)]
    fn cid_cell_empty_borrow() {
        let c = Counters::default();
        let mut cell = fresh_cell(&c);
        let r = cell.borrow_cid(ArcSendWaker::default());
        assert!(matches!(r, Err(s) if s == Signals::CONNECTION_ID), "C14.remote.cell.borrow.empty_cell_waits");
        assert!(cell.waker.is_some() && !cell.is_using, "C14.remote.cell.borrow.empty_cell_not_in_use");
        cell.retire();
        check_inv(&cell, &c, 0);
        assert!(cell.waker.is_none() && c.frames.get() == 0, "C14.remote.cell.retire_empty_emits_nothing");
    }
}
