// ---- spliced by /verif (contracts/c12_sid_remote) : contracts on the real peer-stream-id bookkeeping ----
#[cfg(kani)]
mod verif_c12_sid_remote {
    use core::cell::Cell;

    use super::*;
    use crate::sid::handy::{ConsistentConcurrency, DemandConcurrency};

    /// the RFC bound on a MAX_STREAMS value (RFC 9000 19.11: "This value cannot exceed 2^60")
    const RFC_MAX_STREAMS: u64 = 1 << 60;

    /// trivial MAX_STREAMS sink for the generic `MAX` parameter (one frame per call, loop-free)
    #[derive(Debug, Default, Clone)]
    struct Sink {
        n: Cell<u32>,
        last_dir: Cell<u8>,
        last: Cell<u64>,
    }

    impl SendFrame<MaxStreamsFrame> for Sink {
        fn send_frame<I: IntoIterator<Item = MaxStreamsFrame>>(&self, iter: I) {
            let mut it = iter.into_iter();
            if let Some(f) = it.next() {
                self.n.set(self.n.get() + 1);
                match f {
                    MaxStreamsFrame::Bi(v) => {
                        self.last_dir.set(0);
                        self.last.set(v.into_u64());
                    }
                    MaxStreamsFrame::Uni(v) => {
                        self.last_dir.set(1);
                        self.last.set(v.into_u64());
                    }
                }
            }
            assert!(it.next().is_none(), "C12.remote_sid.sup.sink_gets_one_frame_per_call");
        }
    }

    /// "any strategy": every callback answers with an arbitrary choice (that still fits a varint, which the
    /// real code `expect`s). Used to show that the accept logic is right whatever the strategy does.
    #[derive(Debug)]
    struct AnyCtrl;

    fn any_answer() -> Option<u64> {
        if kani::any() {
            let v: u64 = kani::any();
            kani::assume(v < (1 << 62));
            Some(v)
        } else {
            None
        }
    }

    impl ControlStreamsConcurrency for AnyCtrl {
        fn on_accept_streams(&mut self, _dir: Dir, _sid: u64) -> Option<u64> {
            any_answer()
        }
        fn on_end_of_stream(&mut self, _dir: Dir, _sid: u64) -> Option<u64> {
            any_answer()
        }
        fn on_streams_blocked(&mut self, _dir: Dir, _max: u64) -> Option<u64> {
            any_answer()
        }
    }

    /// element-wise comparison of the two-direction arrays (array `==` compiles to a 16-iteration memcmp loop)
    fn eq2<T: PartialEq>(a: &[T; 2], b: &[T; 2]) -> bool {
        a[0] == b[0] && a[1] == b[1]
    }

    fn any_role() -> Role {
        if kani::any() { Role::Client } else { Role::Server }
    }

    fn any_dir() -> Dir {
        if kani::any() { Dir::Bi } else { Dir::Uni }
    }

    /// an arbitrary `RemoteStreamIds` satisfying its type invariant:
    ///   cursor of direction d carries the peer's role bit and direction d, index <= 2^60
    ///   (it is `StreamId::new(role, d, 0)` advanced by 4 per accepted stream; StreamId::new asserts id < 2^60)
    fn any_remote(ctrl: Box<dyn ControlStreamsConcurrency>) -> RemoteStreamIds<Sink> {
        let role = any_role();
        let max: [u64; 2] = [kani::any(), kani::any()];
        let c0: u64 = kani::any();
        let c1: u64 = kani::any();
        kani::assume(c0 <= RFC_MAX_STREAMS && c1 <= RFC_MAX_STREAMS);
        RemoteStreamIds {
            role,
            max,
            unallocated: [
                StreamId((c0 << 2) | (role as u64)),
                StreamId((c1 << 2) | 2 | (role as u64)),
            ],
            ctrl,
            max_tx: Sink::default(),
        }
    }

    /// a stream id as it comes off the wire (a varint) that passed the caller's role test
    /// (`DataStreams::{recv_data, recv_stream_control}` only call try_accept_sid for `sid.role() != local role`)
    fn any_peer_sid(role: Role) -> StreamId {
        let raw: u64 = kani::any();
        kani::assume(raw < (1 << 62));
        let sid = StreamId(raw);
        kani::assume(sid.role() == role); // documented precondition (debug_assert_eq! in the callee)
        sid
    }

    /// contract of `RemoteStreamIds::try_accept_sid` for every strategy, outside the known off-by-one
    #[kani::proof]
    #[kani::unwind(3)]
    fn try_accept_sid_contract() {
        let mut r = any_remote(Box::new(AnyCtrl));
        let sid = any_peer_sid(r.role);
        let idx = sid.dir() as usize;
        let (max0, cur0, role0) = (r.max, r.unallocated, r.role);
        // KNOWN FINDING region excluded (pinned in `try_accept_sid_at_limit_finding`): index == advertised count
        kani::assume(sid.id() != max0[idx]);
        let res = r.try_accept_sid(sid);
        assert!(r.role == role0, "C12.remote_sid.try_accept_sid.role_unchanged");
        assert!(r.unallocated[1 - idx] == cur0[1 - idx], "C12.remote_sid.try_accept_sid.other_direction_cursor_unchanged");
        assert!(r.max[1 - idx] == max0[1 - idx], "C12.remote_sid.try_accept_sid.other_direction_limit_unchanged");
        match res {
            Err(e) => {
                assert!(sid.id() > max0[idx], "C12.remote_sid.try_accept_sid.err_only_beyond_limit");
                assert!(e == ExceedLimitError(sid, max0[idx]), "C12.remote_sid.try_accept_sid.err_names_sid_and_limit");
                assert!(eq2(&r.unallocated, &cur0) && eq2(&r.max, &max0) && r.max_tx.n.get() == 0,
                        "C12.remote_sid.try_accept_sid.err_leaves_state_untouched");
            }
            Ok(AcceptSid::Old) => {
                assert!(sid.id() < max0[idx], "C12.remote_sid.try_accept_sid.refuse_above_limit");
                assert!(sid < cur0[idx], "C12.remote_sid.try_accept_sid.old_iff_below_cursor");
                assert!(eq2(&r.unallocated, &cur0) && eq2(&r.max, &max0) && r.max_tx.n.get() == 0,
                        "C12.remote_sid.try_accept_sid.old_leaves_state_untouched");
            }
            Ok(AcceptSid::New(nc)) => {
                assert!(sid.id() < max0[idx], "C12.remote_sid.try_accept_sid.refuse_above_limit");
                assert!(sid >= cur0[idx], "C12.remote_sid.try_accept_sid.old_iff_below_cursor");
                // implicitly opened streams: exactly the not yet offered ids [old cursor, sid]
                assert!(nc.start == cur0[idx] && nc.end == sid, "C12.remote_sid.try_accept_sid.new_range_is_cursor_to_sid");
                assert!(r.unallocated[idx] == StreamId(sid.0 + 4), "C12.remote_sid.try_accept_sid.cursor_moves_past_sid");
                assert!(r.unallocated[idx].role() == role0 && r.unallocated[idx].dir() == sid.dir(),
                        "C12.remote_sid.try_accept_sid.sup.cursor_keeps_type_bits");
                // the strategy's answer is installed and announced with the right direction
                let n = r.max_tx.n.get();
                assert!(n <= 1 && (r.max[idx] == max0[idx] || n == 1), "C12.remote_sid.try_accept_sid.changed_limit_is_announced");
                assert!(n == 0 || (r.max_tx.last.get() == r.max[idx] && r.max_tx.last_dir.get() == idx as u8),
                        "C12.remote_sid.try_accept_sid.max_streams_frame_carries_installed_limit");
                kani::cover!(nc.start < nc.end, "C12.remote_sid.try_accept_sid.reach_implicit_open");
                kani::cover!(nc.start == nc.end, "C12.remote_sid.try_accept_sid.reach_single_open");
                core::mem::forget(nc);
            }
        }
        kani::cover!(sid.id() > max0[idx], "C12.remote_sid.try_accept_sid.reach_above_limit");
        kani::cover!(sid.id() < max0[idx] && sid < cur0[idx], "C12.remote_sid.try_accept_sid.reach_old");
        kani::cover!(max0[idx] == 0, "C12.remote_sid.try_accept_sid.reach_zero_limit");
        core::mem::forget(r);
    }

    /// KNOWN FINDING (confined): a stream whose index equals the advertised count must be refused
    /// (RFC 9000 4.6: "endpoints MUST NOT exceed the limit set by their peer"; 19.11: the count is cumulative,
    /// so with limit N only indices 0..N-1 are allowed). The code compares with `>`.
    #[kani::proof]
    #[kani::unwind(3)]
    fn try_accept_sid_at_limit_finding() {
        let mut r = any_remote(Box::new(AnyCtrl));
        let sid = any_peer_sid(r.role);
        let idx = sid.dir() as usize;
        kani::assume(sid.id() == r.max[idx]);
        let res = r.try_accept_sid(sid);
        let refused = res.is_err();
        core::mem::forget(res);
        core::mem::forget(r);
        assert!(refused, "C12.remote_sid.try_accept_sid.refuse_at_limit");
    }

    /// two successive accepts: the ranges handed out are adjacent and disjoint, and nothing at or below an
    /// already accepted id is ever handed out again (=> every implicit stream is offered exactly once)
    #[kani::proof]
    #[kani::unwind(3)]
    fn accept_twice_contract() {
        let mut r = any_remote(Box::new(AnyCtrl));
        let a = any_peer_sid(r.role);
        let b = any_peer_sid(r.role);
        kani::assume(a.dir() == b.dir());
        let idx = a.dir() as usize;
        let cur0 = r.unallocated[idx];
        let ra = r.try_accept_sid(a);
        let rb = r.try_accept_sid(b);
        match (&ra, &rb) {
            (Ok(AcceptSid::New(x)), Ok(AcceptSid::New(y))) => {
                assert!(y.start == StreamId(x.end.0 + 4), "C12.remote_sid.accept_twice.ranges_adjacent");
                assert!(x.start == cur0 && x.start <= x.end && x.end < y.start && y.start <= y.end,
                        "C12.remote_sid.accept_twice.ranges_disjoint_ascending");
                kani::cover!(true, "C12.remote_sid.accept_twice.reach_new_new");
            }
            (Ok(AcceptSid::New(x)), Ok(AcceptSid::Old)) => {
                assert!(b <= x.end, "C12.remote_sid.accept_twice.old_is_within_already_offered");
                kani::cover!(b < x.start, "C12.remote_sid.accept_twice.reach_new_old");
            }
            (Ok(_), Ok(AcceptSid::New(y))) => {
                // first was Old: the second range still starts at the untouched cursor
                assert!(y.start == cur0 && a < cur0, "C12.remote_sid.accept_twice.old_does_not_move_cursor");
            }
            _ => {}
        }
        // whatever happened: an id that was covered by the first accept is never "New" again
        if ra.is_ok() && b <= a {
            assert!(!matches!(rb, Ok(AcceptSid::New(_))), "C12.remote_sid.accept_twice.never_offered_twice");
        }
        core::mem::forget((ra, rb));
        core::mem::forget(r);
    }

    /// one-step contract of `NeedCreate::next` (=> by induction the iterator yields start, start+4, .., end,
    /// each exactly once, and then stops for good)
    #[kani::proof]
    fn need_create_next_contract() {
        let s: u64 = kani::any();
        let e: u64 = kani::any();
        // type invariant: ids of one stream type below 2^62 + 4 (ranges are built by try_accept_sid only)
        kani::assume(s <= (1 << 62) + 4 && e < (1 << 62) && s % 4 == e % 4);
        let mut nc = NeedCreate { start: StreamId(s), end: StreamId(e) };
        let got = nc.next();
        if s <= e {
            assert!(got == Some(StreamId(s)), "C12.remote_sid.need_create.next_yields_current_start");
            assert!(nc.start == StreamId(s + 4) && nc.end == StreamId(e), "C12.remote_sid.need_create.next_advances_by_one_stream");
            assert!(got.unwrap().role() == nc.end.role() && got.unwrap().dir() == nc.end.dir(),
                    "C12.remote_sid.need_create.next_same_stream_type");
        } else {
            assert!(got.is_none(), "C12.remote_sid.need_create.stops_after_end");
            assert!(nc.start == StreamId(s) && nc.end == StreamId(e), "C12.remote_sid.need_create.exhausted_is_stable");
        }
        kani::cover!(s == e, "C12.remote_sid.need_create.reach_last");
        kani::cover!(s > e, "C12.remote_sid.need_create.reach_exhausted");
    }

    /// whole-iterator check on short ranges (bounded stand-in for the induction above)
    #[kani::proof]
    #[kani::unwind(6)]
    fn need_create_enumerates_bounded() {
        let s: u64 = kani::any();
        let k: u64 = kani::any();
        kani::assume(s < (1 << 61) && k < 4);
        let e = s + 4 * k;
        let nc = NeedCreate { start: StreamId(s), end: StreamId(e) };
        let mut count = 0u64;
        let mut prev: Option<StreamId> = None;
        for id in nc {
            assert!(id.0 == s + 4 * count, "C12.remote_sid.need_create.bounded.ith_item_is_start_plus_4i");
            assert!(prev.map_or(true, |p| p < id), "C12.remote_sid.need_create.bounded.strictly_ascending_no_repeat");
            prev = Some(id);
            count += 1;
        }
        assert!(count == k + 1, "C12.remote_sid.need_create.bounded.yields_every_id_once");
    }

    /// `RemoteStreamIds::{on_end_of_stream, recv_streams_blocked_frame}` for ANY strategy: the answer is
    /// installed for the right direction and announced with its exact value; nothing else changes
    #[kani::proof]
    #[kani::unwind(3)]
    fn strategy_answer_installed_contract() {
        let mut r = any_remote(Box::new(AnyCtrl));
        let (max0, cur0) = (r.max, r.unallocated);
        let dir = any_dir();
        let idx = dir as usize;
        if kani::any() {
            let v: u64 = kani::any();
            kani::assume(v < (1 << 62));
            r.recv_streams_blocked_frame(StreamsBlockedFrame::with(dir, VarInt::from_u64(v).unwrap()));
        } else {
            let raw: u64 = kani::any();
            kani::assume(raw < (1 << 62));
            let sid = StreamId(raw);
            kani::assume(sid.dir() == dir);
            r.on_end_of_stream(sid);
            if sid.role() != r.role {
                assert!(eq2(&r.max, &max0) && r.max_tx.n.get() == 0, "C12.remote_sid.on_end_of_stream.local_streams_do_not_count");
            }
        }
        let n = r.max_tx.n.get();
        assert!(eq2(&r.unallocated, &cur0) && r.max[1 - idx] == max0[1 - idx], "C12.remote_sid.strategy.frame_nothing_else_changes");
        assert!(n <= 1 && (r.max[idx] == max0[idx] || n == 1), "C12.remote_sid.strategy.changed_limit_is_announced");
        assert!(n == 0 || (r.max_tx.last.get() == r.max[idx] && r.max_tx.last_dir.get() == idx as u8),
                "C12.remote_sid.strategy.max_streams_frame_carries_installed_limit");
        kani::cover!(n == 1, "C12.remote_sid.strategy.reach_announce");
        core::mem::forget(r);
    }

    // ---------------- the shipped strategies (handy.rs) behind the real RemoteStreamIds ----------------

    /// `ConsistentConcurrency` (the default of dquic client/server): given the construction invariant that the
    /// strategy was created with the same initial limits as the id table (ProductStreamsConcurrencyController::init
    /// gets the very parameters passed to StreamIds::new), every callback keeps `strategy.max == table.max`,
    /// never lowers the advertised limit, and stays within 2^60.
    #[kani::proof]
    #[kani::unwind(3)]
    fn consistent_strategy_contract() {
        let role = any_role();
        let m: [u64; 2] = [kani::any(), kani::any()];
        // ASSUMPTION (recorded): fewer than 2^60 streams per direction have been granted so far
        kani::assume(m[0] < RFC_MAX_STREAMS && m[1] < RFC_MAX_STREAMS);
        let c0: u64 = kani::any();
        let c1: u64 = kani::any();
        kani::assume(c0 <= RFC_MAX_STREAMS && c1 <= RFC_MAX_STREAMS);
        let mut r = RemoteStreamIds {
            role,
            max: m,
            unallocated: [StreamId((c0 << 2) | (role as u64)), StreamId((c1 << 2) | 2 | (role as u64))],
            ctrl: Box::new(ConsistentConcurrency::new(m[0], m[1])),
            max_tx: Sink::default(),
        };
        let dir = any_dir();
        let idx = dir as usize;
        let which: u8 = kani::any();
        kani::assume(which < 3);
        if which == 0 {
            let v: u64 = kani::any();
            kani::assume(v < (1 << 62));
            r.recv_streams_blocked_frame(StreamsBlockedFrame::with(dir, VarInt::from_u64(v).unwrap()));
            assert!(eq2(&r.max, &m) && r.max_tx.n.get() == 0, "C12.handy.consistent.streams_blocked_changes_nothing");
        } else if which == 1 {
            let sid = any_peer_sid(role);
            kani::assume(sid.dir() == dir);
            r.on_end_of_stream(sid);
            assert!(r.max[idx] == m[idx] + 1, "C12.handy.consistent.end_of_stream_grants_one_more");
            assert!(r.max_tx.n.get() == 1 && r.max_tx.last.get() == m[idx] + 1 && r.max_tx.last_dir.get() == idx as u8,
                    "C12.handy.consistent.grant_is_announced");
        } else {
            let sid = any_peer_sid(role);
            kani::assume(sid.dir() == dir && sid.id() != m[idx]); // known off-by-one region, see above
            let res = r.try_accept_sid(sid);
            assert!(eq2(&r.max, &m) && r.max_tx.n.get() == 0, "C12.handy.consistent.accept_changes_no_limit");
            core::mem::forget(res);
        }
        assert!(r.max[0] >= m[0] && r.max[1] >= m[1], "C12.handy.consistent.advertised_limit_never_decreases");
        assert!(r.max[0] <= RFC_MAX_STREAMS && r.max[1] <= RFC_MAX_STREAMS, "C12.handy.consistent.limit_within_2pow60");
        kani::cover!(which == 1 && r.max[idx] == RFC_MAX_STREAMS, "C12.handy.consistent.reach_top");
        core::mem::forget(r);
    }

    fn demand_remote() -> (RemoteStreamIds<Sink>, [u64; 2]) {
        let role = any_role();
        let m: [u64; 2] = [kani::any(), kani::any()];
        kani::assume(m[0] <= RFC_MAX_STREAMS && m[1] <= RFC_MAX_STREAMS);
        let r = RemoteStreamIds {
            role,
            max: m,
            unallocated: [StreamId(role as u64), StreamId(2 | (role as u64))],
            ctrl: Box::new(DemandConcurrency),
            max_tx: Sink::default(),
        };
        (r, m)
    }

    /// `DemandConcurrency` (the default of qconnection's builder) behind `recv_streams_blocked_frame`,
    /// OUTSIDE the two bad regions pinned below: the peer reports a value below our current limit - 1,
    /// or a value >= 2^60.
    #[kani::proof]
    #[kani::unwind(3)]
    fn demand_strategy_contract() {
        let (mut r, m) = demand_remote();
        let dir = any_dir();
        let idx = dir as usize;
        let v: u64 = kani::any();
        kani::assume(v < (1 << 62)); // a varint off the wire (the STREAMS_BLOCKED parser accepts every varint)
        kani::assume(v + 1 >= m[idx]); // bad region 1 excluded: demand_lowers_limit_finding
        kani::assume(v < RFC_MAX_STREAMS); // bad region 2 excluded: demand_exceeds_2pow60_finding
        r.recv_streams_blocked_frame(StreamsBlockedFrame::with(dir, VarInt::from_u64(v).unwrap()));
        assert!(r.max[idx] >= m[idx] && r.max[1 - idx] == m[1 - idx], "C12.handy.demand.advertised_limit_never_decreases");
        assert!(r.max[idx] <= RFC_MAX_STREAMS, "C12.handy.demand.limit_within_2pow60");
        assert!(r.max_tx.n.get() == 1 && r.max_tx.last.get() == r.max[idx] && r.max_tx.last_dir.get() == idx as u8,
                "C12.handy.demand.grant_is_announced");
        kani::cover!(v == m[idx] && m[idx] > 0, "C12.handy.demand.reach_honest_blocked");
        core::mem::forget(r);
    }

    /// FINDING (confined): STREAMS_BLOCKED carrying a value smaller than the limit in force makes
    /// DemandConcurrency answer value+1, which RemoteStreamIds installs => the enforced/advertised limit DROPS.
    #[kani::proof]
    #[kani::unwind(3)]
    fn demand_lowers_limit_finding() {
        let (mut r, m) = demand_remote();
        let dir = any_dir();
        let idx = dir as usize;
        let v: u64 = kani::any();
        kani::assume(v < (1 << 62) && v + 1 < m[idx]);
        r.recv_streams_blocked_frame(StreamsBlockedFrame::with(dir, VarInt::from_u64(v).unwrap()));
        let after = r.max[idx];
        core::mem::forget(r);
        assert!(after >= m[idx], "C12.handy.demand.stale_blocked_never_lowers_limit");
    }

    /// FINDING (confined): STREAMS_BLOCKED with a value >= 2^60 (never rejected by the frame parser) makes the
    /// endpoint install/advertise a limit above 2^60; 2^62-1 panics in `VarInt::from_u64(..).expect(..)`.
    #[kani::proof]
    #[kani::unwind(3)]
    fn demand_exceeds_2pow60_finding() {
        let (mut r, _m) = demand_remote();
        let dir = any_dir();
        let idx = dir as usize;
        let v: u64 = kani::any();
        kani::assume(v < (1 << 62) && v >= RFC_MAX_STREAMS);
        r.recv_streams_blocked_frame(StreamsBlockedFrame::with(dir, VarInt::from_u64(v).unwrap()));
        let after = r.max[idx];
        core::mem::forget(r);
        assert!(after <= RFC_MAX_STREAMS, "C12.handy.demand.huge_blocked_keeps_limit_within_2pow60");
    }

    /// the Arc wrapper only locks and forwards (`ArcRemoteStreamIds::{new, role, try_accept_sid}`)
    #[kani::proof]
    #[kani::unwind(3)]
    fn arc_wrapper_forwards() {
        let role = any_role();
        let mb: u64 = kani::any();
        let mu: u64 = kani::any();
        let a = ArcRemoteStreamIds::new(role, mb, mu, Sink::default(), Box::new(AnyCtrl));
        assert!(a.role() == role, "C12.remote_sid.arc.new_keeps_role");
        {
            let g = a.0.lock().unwrap();
            assert!(eq2(&g.max, &[mb, mu]), "C12.remote_sid.arc.new_installs_initial_limits");
            assert!(eq2(&g.unallocated, &[StreamId::new(role, Dir::Bi, 0), StreamId::new(role, Dir::Uni, 0)]),
                    "C12.remote_sid.arc.new_cursor_at_first_stream_of_each_type");
        }
        let sid = any_peer_sid(role);
        let idx = sid.dir() as usize;
        kani::assume(sid.id() > [mb, mu][idx]);
        let res = a.try_accept_sid(sid);
        assert!(res.is_err(), "C12.remote_sid.arc.try_accept_sid_refuses_above_limit");
        core::mem::forget(res);
        core::mem::forget(a);
    }
}
