// ---- spliced by /verif (contracts/c07_newpacket) : contracts of NewPacketGuard (packet-number hand-out) ----
#[cfg(kani)]
mod verif_c07_newpacket {
    use super::*;
    //@include ../_shared/kani_stubs.rs

    /// A journal that has handed out the numbers `0..next_pn` (their records already rotated away: the
    /// guard reads only `IndexDeque::largest()` = offset + len and pushes at the back) -- concrete EMPTY
    /// shape, built by the production constructor (pre-allocated, so push_back does not reallocate).
    /// Held in a LOCAL Mutex: reading records back through Arc<Mutex<..>> sends CBMC out of memory.
    fn journal(next_pn: u64, largest_acked: u64) -> Mutex<SentJournal<u8>> {
        let mut j = SentJournal::<u8>::with_capacity(2);
        j.sent_packets.reset_offset(next_pn);
        j.largest_acked_pktno = largest_acked;
        Mutex::new(j)
    }

    /// The guard `ArcSentJournal::new_packet` returns, on a local Mutex.  That this IS new_packet's result
    /// (trivial == false, origin_len == current queue length, holding the lock) is `new_packet_contract`.
    fn new_packet<'a>(m: &'a Mutex<SentJournal<u8>>) -> NewPacketGuard<'a, u8> {
        let inner = m.lock().unwrap();
        let origin_len = inner.queue.len();
        NewPacketGuard { trivial: false, origin_len, inner }
    }

    fn any_journal() -> (Mutex<SentJournal<u8>>, u64) {
        let next_pn: u64 = kani::any();
        let acked: u64 = kani::any();
        // "packet number never overflow": below 2^62 - 1 so that the push is admissible (IndexDeque LIMIT)
        kani::assume(next_pn < VARINT_MAX);
        // caller obligation of PacketNumber::encode (unit c07_pn): unacknowledged distance below 2^31,
        // otherwise pn() panics ("packet number too large to encode")
        kani::assume(acked <= next_pn && next_pn - acked < (1u64 << 31) - 1); // - 1: the harnesses also ask for the following number
        (journal(next_pn, acked), next_pn)
    }

    fn next_pn_of(j: &Mutex<SentJournal<u8>>) -> u64 {
        j.lock().unwrap().sent_packets.largest()
    }

    /// the real constructor: fresh guard is non-trivial and remembers the current frame-queue length
    #[kani::proof]
    #[kani::unwind(2)]
    fn new_packet_contract() {
        let next_pn: u64 = kani::any();
        kani::assume(next_pn < VARINT_MAX);
        let mut j = SentJournal::<u8>::with_capacity(2);
        j.sent_packets.reset_offset(next_pn);
        let pre: bool = kani::any();
        if pre {
            j.queue.push_back(kani::any());
        }
        let a = ArcSentJournal(Arc::new(Mutex::new(j)));
        let g = a.new_packet();
        assert!(!g.trivial, "C07.newpacket.new.not_trivial");
        assert!(g.origin_len == g.inner.queue.len() && g.origin_len == pre as usize, "C07.newpacket.new.remembers_queue_length");
        assert!(g.inner.sent_packets.largest() == next_pn, "C07.newpacket.new.journal_unchanged");
    }

    fn any_timeout() -> Duration {
        let ms: u32 = kani::any();
        Duration::from_millis(ms as u64) // PTO-derived timeouts; keeps Instant + Duration inside i64 seconds
    }

    /// pn() is the next unused number, is stable, and looking at it does not consume it; a guard dropped
    /// without recording anything leaves the journal exactly as it was (abandoned assembly).
    #[kani::proof]
    #[kani::unwind(2)] // cuts std Mutex::lock_contended (unreachable spin loop)
    fn pn_and_abandon_contract() {
        let (j, next) = any_journal();
        {
            let g = new_packet(&j);
            let (pn, _enc) = g.pn();
            assert!(pn == next, "C07.newpacket.pn.is_next_unused");
            let (pn2, _) = g.pn();
            assert!(pn2 == pn, "C07.newpacket.pn.stable");
        } // dropped without build
        assert!(next_pn_of(&j) == next, "C07.newpacket.abandon.number_not_consumed");
        let g = j.lock().unwrap();
        assert!(g.sent_packets.len() == 0 && g.queue.len() == 0, "C07.newpacket.abandon.journal_unchanged");
    }

    /// record_trivial only sets the flag; an abandoned trivial guard consumes nothing either.
    #[kani::proof]
    #[kani::unwind(2)] // cuts std Mutex::lock_contended (unreachable spin loop)
    fn trivial_abandon_contract() {
        let (j, next) = any_journal();
        {
            let mut g = new_packet(&j);
            g.record_trivial();
            assert!(g.pn().0 == next, "C07.newpacket.record_trivial.pn_unchanged");
        }
        assert!(next_pn_of(&j) == next, "C07.newpacket.abandon_trivial.number_not_consumed");
    }

    /// build_trivial consumes exactly the number pn() returned and records a frame-less packet.
    #[kani::proof]
    #[kani::unwind(2)] // cuts std Mutex::lock_contended (unreachable spin loop)
    fn build_trivial_contract() {
        let (j, next) = any_journal();
        let mut g = new_packet(&j);
        g.record_trivial();
        let pn = g.pn().0;
        g.build_trivial();
        assert!(next_pn_of(&j) == next + 1, "C07.newpacket.build_trivial.consumes_exactly_one");
        {
            let inner = j.lock().unwrap();
            assert!(inner.sent_packets.front() == Some((pn, &SentPktState::Skipped)), "C10.newpacket.build_trivial.record_has_no_frames");
            assert!(inner.queue.len() == 0, "C10.newpacket.build_trivial.no_frames_queued");
        }
        // the next packet gets a strictly larger number
        let g2 = new_packet(&j);
        assert!(g2.pn().0 == pn + 1 && g2.pn().0 > pn, "C07.newpacket.build_trivial.next_is_strictly_larger");
    }

    /// two packets in a row, each either trivial-only (build_trivial) or built with build_with_time: every packet that is
    /// really built consumes exactly one number and the second one carries a strictly larger number than the first --
    /// whatever the first one left at the tail of the journal (the property quantifies over sequences of assemblies).
    #[kani::proof]
    #[kani::unwind(4)] // the two-iteration loop below; also cuts std Mutex::lock_contended
    #[kani::stub(tokio::time::Instant::now, any_instant)]
    fn two_packets_in_a_row_contract() {
        let (j, next) = any_journal();
        kani::assume(next < VARINT_MAX - 1); // room for two numbers
        let first_trivial: bool = kani::any();
        let second_trivial: bool = kani::any();
        let mut pns = [0u64; 2];
        let mut k = 0;
        while k < 2 {
            let trivial = if k == 0 { first_trivial } else { second_trivial };
            let mut g = new_packet(&j);
            pns[k] = g.pn().0;
            if trivial {
                g.record_trivial();
                g.build_trivial();
            } else {
                g.record_frame(kani::any::<u8>());
                g.build_with_time(any_timeout(), any_timeout());
            }
            k += 1;
        }
        assert!(pns[0] == next, "C07.newpacket.sequence.first_packet_gets_the_next_unused_number");
        assert!(pns[1] == pns[0] + 1, "C07.newpacket.sequence.second_built_packet_gets_a_strictly_larger_number");
        assert!(next_pn_of(&j) == next + 2, "C07.newpacket.sequence.each_built_packet_consumes_exactly_one_number");
        kani::cover!(first_trivial && second_trivial, "C07.newpacket.sequence.reach_two_trivial_packets");
        kani::cover!(!first_trivial && second_trivial, "C07.newpacket.sequence.reach_trivial_after_data");
    }

    /// build_with_time: pushes exactly one record iff (a frame was recorded or the packet is trivial);
    /// the record counts exactly the frames recorded through this guard; otherwise the number is not consumed.
    #[kani::proof]
    #[kani::unwind(2)] // cuts std Mutex::lock_contended (unreachable spin loop)
    #[kani::stub(tokio::time::Instant::now, any_instant)]
    fn build_with_time_contract() {
        let (j, next) = any_journal();
        let trivial: bool = kani::any();
        let with_frame: bool = kani::any();
        let frame: u8 = kani::any();
        let retran = any_timeout();
        let expire = any_timeout();
        let mut g = new_packet(&j);
        if trivial {
            g.record_trivial();
        }
        if with_frame {
            g.record_frame(frame);
        }
        let pn = g.pn().0;
        assert!(pn == next, "C07.newpacket.record.pn_unchanged_by_recording");
        g.build_with_time(retran, expire);
        let after = next_pn_of(&j);
        if with_frame || trivial {
            assert!(after == next + 1, "C07.newpacket.build.consumes_exactly_one");
        } else {
            assert!(after == next, "C07.newpacket.build.empty_packet_consumes_nothing");
        }
        {
            let inner = j.lock().unwrap();
            if with_frame {
                assert!(inner.queue.len() == 1 && inner.queue[0] == frame, "C10.newpacket.build.frame_queued");
                match inner.sent_packets.front() {
                    Some((idx, SentPktState::Flighting { nframes, sent_time, retran_time, expire_time })) => {
                        assert!(idx == pn, "C07.newpacket.build.record_is_at_pn");
                        assert!(*nframes == 1, "C10.newpacket.build.record_counts_frames_of_this_packet");
                        assert!(*retran_time == *sent_time + retran && *expire_time == *sent_time + expire, "C10.newpacket.build.timers");
                    }
                    _ => assert!(false, "C10.newpacket.build.record_is_flighting"),
                }
            } else if trivial {
                assert!(inner.sent_packets.front() == Some((pn, &SentPktState::Skipped)), "C10.newpacket.build.trivial_record_has_no_frames");
                assert!(inner.queue.len() == 0, "C10.newpacket.build.trivial_nothing_queued");
            } else {
                assert!(inner.sent_packets.len() == 0 && inner.queue.len() == 0, "C07.newpacket.build.empty_packet_journal_unchanged");
            }
        }
        let g2 = new_packet(&j);
        assert!(g2.pn().0 == after, "C07.newpacket.build.next_guard_starts_after");
        kani::cover!(with_frame && trivial, "C07.newpacket.build.reach_frame_and_trivial");
        kani::cover!(!with_frame && !trivial, "C07.newpacket.build.reach_empty");
    }

    /// FINDING (confined, API level): `record_frame` pushes into the shared frame queue at once, but only
    /// `build_*` pushes the packet record.  A guard that is dropped after `record_frame` without build
    /// (assembly abandoned part-way) does not consume the number -- and leaves its frame in the queue.  The
    /// next packet's record then maps to the orphan: acknowledging packet `pn` reports frame 7 (never sent
    /// in any packet) as delivered instead of frame 9.
    #[kani::proof]
    #[kani::unwind(4)]
    #[kani::stub(tokio::time::Instant::now, any_instant)]
    fn abandoned_after_record_frame_orphans() {
        let j = journal(0, 0);
        {
            let mut g = new_packet(&j);
            g.record_frame(7u8);
        } // abandoned part-way
        assert!(next_pn_of(&j) == 0, "C10.newpacket.abandon_after_record.number_not_consumed");
        let mut g = new_packet(&j);
        let pn = g.pn().0;
        g.record_frame(9u8);
        g.build_with_time(Duration::from_millis(100), Duration::from_millis(300));
        let mut inner = j.into_inner().unwrap();
        let first = inner.on_packet_acked(pn).next();
        kani::cover!(first.is_some(), "C10.newpacket.abandon_after_record.reach_reports_a_frame");
        assert!(first == Some(9u8), "C10.newpacket.abandon_after_record.acked_packet_reports_its_own_frame");
    }
}
