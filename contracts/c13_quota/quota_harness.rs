// ---- spliced by /verif (contracts/c13_quota) : send quota vs. bytes in flight (candidate finding) ---
// Property C13: "... and the sender does not keep adding in-flight bytes beyond the window" (RFC 9002 §7: "An
// endpoint MUST NOT send a packet if it would cause bytes_in_flight to be larger than the congestion window").
// CongestionController::send_quota() == Pacer::schedule(srtt, algorithm.congestion_window(), mtu, now, pacing_rate):
// none of its inputs is bytes_in_flight; NewReno::bytes_in_flight is written in four places and read nowhere.
// The pacer is f64 code (not decided in general); this harness is one *concrete* execution of the real functions,
// in the order ArcCC::send_quota / on_pkt_sent call them, with no acknowledgement ever arriving.
#[cfg(kani)]
mod verif_c13_quota {
    use std::sync::{Arc, atomic::AtomicU16};

    use super::*;
    use crate::algorithm::{Control, new_reno::NewReno};
    use crate::packets::SentPacket;

    //@include ../_shared/kani_stubs.rs

    #[repr(C)]
    struct RawTs {
        secs: i64,
        nanos: u32,
    }

    fn instant_at(secs: i64, nanos: u32) -> Instant {
        let i: std::time::Instant = unsafe { core::mem::transmute(RawTs { secs, nanos }) };
        Instant::from_std(i)
    }

    /// FINDING (expect_fail): two round trips without a single acknowledgement; the quota keeps being granted and
    /// the bytes in flight reach twice the congestion window.
    #[kani::proof]
    #[kani::unwind(12)]
    #[kani::stub(qevent::telemetry::macro_support::build_and_emit_event, noop_emit)]
    fn quota_ignores_bytes_in_flight() {
        let mtu = 1200usize;
        let srtt = Duration::from_millis(33); // INITIAL_RTT
        let mut reno: Box<dyn Control> = Box::new(NewReno::new(Arc::new(AtomicU16::new(mtu as u16))));
        let cwnd = reno.congestion_window(); // 12000
        let t0 = instant_at(1000, 0);
        let mut pacer = Pacer::new(srtt, cwnd, mtu, t0, None); // as CongestionController::init does
        let mut in_flight = 0usize; // ghost: sizes of the packets sent and never acknowledged / lost
        let mut round = 0;
        while round < 2 {
            let now = instant_at(1000, 33_000_000 * round); // one smoothed RTT later, no ACK has arrived
            let mut k = 0;
            while k < 10 {
                // ArcCC::send_quota: Ok(quota) iff quota >= mtu
                let quota = pacer.schedule(srtt, reno.congestion_window(), mtu, now, reno.pacing_rate());
                if quota < mtu {
                    break;
                }
                // CongestionController::on_packet_sent (in_flight packet of one full datagram)
                let p = SentPacket::new(k as u64, now, true, true, mtu);
                reno.on_packet_sent_cc(&p);
                pacer.on_sent(mtu);
                in_flight += mtu;
                k += 1;
            }
            round += 1;
        }
        assert!(in_flight <= reno.congestion_window(), "C13.quota.bytes_in_flight_never_exceed_congestion_window");
    }
}
