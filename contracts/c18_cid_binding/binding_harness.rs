// ---- spliced by /verif (contracts/c18_cid_binding) : contracts on the CID-binding state machine of
// `qbase::param::Parameters` (RFC 9000 §7.3 "Authenticating Connection IDs") -------------------------------
//
// Modelling device (recorded in unit.json "assumptions"): the role-typed parameter *sets*
// (`param::core::Parameters<Role>`) are HashMap-backed, which CBMC cannot execute (set+get of ONE entry did
// not finish in 15 min). The real `Parameters` state machine is run unchanged, but the three set accessors it
// calls are replaced by an oracle:
//   * `std::hash::RandomState::new` (getrandom FFI) is replaced by the constant keys (1, 2): every set the real
//     code creates (`Arc::default()`, `Parameters::default()`) carries them and is "the empty default set";
//   * a set whose (never used) hasher keys are (RECEIVED_MARK, _) is "the set received from the peer"; its
//     content is the arbitrary-but-fixed assignment held in the ORACLE_* statics (any CID values, present or
//     absent). No key is ever hashed and no table is ever allocated (even dropping an allocated empty table
//     does not terminate in CBMC).
#[cfg(kani)]
mod verif_c18_cid_binding {
    use std::collections::HashMap;

    use super::*;
    use crate::role::{Client, Server};

    type Set<R> = super::core::Parameters<R>;

    static mut ORACLE_ISCID: Option<ConnectionId> = None; // initial_source_connection_id in the peer's set
    static mut ORACLE_ODCID: Option<ConnectionId> = None; // original_destination_connection_id
    static mut ORACLE_RSCID: Option<ConnectionId> = None; // retry_source_connection_id

    const RECEIVED_MARK: u64 = 0x7ec5;

    fn fixed_random_state() -> std::hash::RandomState {
        // RandomState is { k0: u64, k1: u64 }
        unsafe { std::mem::transmute::<[u64; 2], std::hash::RandomState>([1u64, 2u64]) }
    }

    fn is_received_set<Role>(this: &Set<Role>) -> bool {
        let keys: [u64; 2] = unsafe { std::mem::transmute_copy(this.map.hasher()) };
        keys[0] == RECEIVED_MARK
    }

    fn oracle_is_empty<Role>(this: &Set<Role>) -> bool {
        !is_received_set(this)
    }

    fn oracle_contains<Role>(this: &Set<Role>, id: ParameterId) -> bool {
        let (iscid, odcid, rscid) = unsafe { (ORACLE_ISCID, ORACLE_ODCID, ORACLE_RSCID) };
        is_received_set(this)
            && match id {
                ParameterId::InitialSourceConnectionId => iscid.is_some(),
                ParameterId::OriginalDestinationConnectionId => odcid.is_some(),
                ParameterId::RetrySourceConnectionId => rscid.is_some(),
                _ => false,
            }
    }

    // (Kani requires the stub's generic parameters to carry the same *names* as the original's (`Role`), and for
    // the doubly generic `get` it only accepts a stub of the same shape: a method of an `impl<Role>` block.)
    impl<Role> Set<Role> {
        /// same shape as the real `get`: stored value, else the id's default, then the typed conversion
        fn oracle_get<V>(&self, id: ParameterId) -> Option<V>
        where
            V: TryFrom<ParameterValue>,
        {
            let (iscid, odcid, rscid) = unsafe { (ORACLE_ISCID, ORACLE_ODCID, ORACLE_RSCID) };
            let stored = if is_received_set(self) {
                match id {
                    ParameterId::InitialSourceConnectionId => iscid.map(ParameterValue::ConnectionId),
                    ParameterId::OriginalDestinationConnectionId => odcid.map(ParameterValue::ConnectionId),
                    ParameterId::RetrySourceConnectionId => rscid.map(ParameterValue::ConnectionId),
                    _ => None,
                }
            } else {
                None
            };
            stored.or_else(|| id.default_value()).and_then(|v| v.try_into().ok())
        }
    }

    fn empty_set<R: Default>() -> Set<R> {
        Set::<R>::default() // hasher keys (1, 2)
    }

    fn received_set<R: Default>() -> Set<R> {
        let mut s = Set::<R>::default();
        s.map = HashMap::with_hasher(unsafe {
            std::mem::transmute::<[u64; 2], std::hash::RandomState>([RECEIVED_MARK, 0])
        });
        s
    }

    fn any_cid() -> ConnectionId {
        let len: u8 = kani::any();
        kani::assume(len as usize <= crate::cid::MAX_CID_SIZE); // type invariant (RFC 9000 §17.2: <= 20 bytes)
        ConnectionId { len, bytes: kani::any() }
    }

    fn any_opt_cid() -> Option<ConnectionId> {
        if kani::any() { Some(any_cid()) } else { None }
    }

    /// the first `len` bytes of a connection id as one number (loop-free; bytes beyond `len` are masked off)
    fn key(c: &ConnectionId) -> (u128, u32) {
        let b = &c.bytes;
        let lo = u128::from_le_bytes([
            b[0], b[1], b[2], b[3], b[4], b[5], b[6], b[7], b[8], b[9], b[10], b[11], b[12], b[13], b[14], b[15],
        ]);
        let hi = u32::from_le_bytes([b[16], b[17], b[18], b[19]]);
        let n = c.len as u32;
        if n >= 20 {
            (lo, hi)
        } else if n >= 16 {
            (lo, hi & ((1u32 << (8 * (n - 16))) - 1))
        } else {
            (lo & ((1u128 << (8 * n)) - 1), 0)
        }
    }

    /// spec equality of connection ids: same length, same first `len` bytes (does not call the code's `eq`)
    fn same(a: &ConnectionId, b: &ConnectionId) -> bool {
        a.len == b.len && key(a) == key(b)
    }

    fn opt_same(a: &Option<ConnectionId>, b: &ConnectionId) -> bool {
        match a {
            Some(a) => same(a, b),
            None => false,
        }
    }

    fn is_tp_error(r: &Result<(), QuicError>) -> bool {
        matches!(r, Err(e) if e.kind() == ErrorKind::TransportParameter)
    }

    // `Waker::wake` / `drop(Waker)` are calls through the RawWakerVTable; CBMC's function-pointer removal then
    // considers every `fn(*const ())` of the linked crates (tokio, futures, ...) a callee (2+ min of
    // preprocessing, 1M variables). In the binding flows no waker is ever registered (`wakers` stays empty, proved
    // as a clause), so the two calls are replaced by "unreachable" stubs there.
    fn waker_wake_never(w: Waker) {
        assert!(false, "C18.cid.sup.no_waker_registered_in_binding_flows");
        std::mem::forget(w);
    }

    fn waker_drop_never(_w: &mut Waker) {
        assert!(false, "C18.cid.sup.no_waker_registered_in_binding_flows");
    }

    fn poll_is_ready(p: &mut Parameters) -> bool {
        let mut cx = Context::from_waker(Waker::noop());
        p.poll_ready(&mut cx).is_ready()
    }

    /// The state `Parameters::new_client` returns, written as a literal. `new_client_contract` proves the real
    /// constructor yields exactly this state; the flow harnesses start from the literal because the constructor's
    /// `Arc::default()` (in-place initialisation of an uninitialised box) defeats CBMC's constant propagation and
    /// every later drop of that Arc then walks hashbrown's drop loops (did not finish in 10 min).
    fn client_start(origin_dcid: ConnectionId, with_remembered: bool) -> Parameters {
        Parameters {
            state: Parameters::CLIENT_READY,
            client: Arc::new(empty_set::<Client>()),
            server: Arc::new(empty_set::<Server>()),
            remembered: if with_remembered { Some(Arc::new(received_set::<Server>())) } else { None },
            requirements: Requirements::Client { origin_dcid, initial_scid: None, retry_scid: None },
            wakers: Vec::with_capacity(2),
        }
    }

    fn server_start() -> Parameters {
        Parameters {
            state: Parameters::SERVER_READY,
            client: Arc::new(empty_set::<Client>()),
            server: Arc::new(received_set::<Server>()), // local set: content irrelevant to the binding
            remembered: None,
            requirements: Requirements::Server { initial_scid: None },
            wakers: Vec::with_capacity(2),
        }
    }

    /// `Parameters::new_client`: only the local side is known, nothing is required to match yet except the
    /// destination CID of our first Initial; remembered set kept iff given.
    #[kani::proof]
    #[kani::unwind(22)]
    #[kani::stub(std::hash::RandomState::new, fixed_random_state)]
    fn new_client_contract() {
        let origin_dcid = any_cid();
        let with_remembered: bool = kani::any();
        let remembered = if with_remembered { Some(received_set::<Server>()) } else { None };
        let p = Parameters::new_client(empty_set::<Client>(), remembered, origin_dcid);
        assert!(p.state == Parameters::CLIENT_READY, "C18.cid.new_client.only_local_side_known");
        assert!(!is_received_set(&p.server) && !is_received_set(&p.client), "C18.cid.new_client.no_peer_set_yet");
        assert!(p.remembered.is_some() == with_remembered, "C18.cid.new_client.remembered_kept");
        assert!(p.wakers.is_empty(), "C18.cid.new_client.sup.no_waiters");
        assert!(
            matches!(p.requirements, Requirements::Client { initial_scid: None, retry_scid: None, origin_dcid: d } if same(&d, &origin_dcid)),
            "C18.cid.new_client.requires_origin_dcid_only"
        );
        kani::cover!(with_remembered, "C18.cid.new_client.reach_remembered");
        std::mem::forget(p); // dropping an `Arc::default()` does not terminate in CBMC (see above)
    }

    /// `Parameters::new_server`
    #[kani::proof]
    #[kani::unwind(22)]
    #[kani::stub(std::hash::RandomState::new, fixed_random_state)]
    fn new_server_contract() {
        let p = Parameters::new_server(received_set::<Server>());
        assert!(p.state == Parameters::SERVER_READY, "C18.cid.new_server.only_local_side_known");
        assert!(!is_received_set(&p.client) && is_received_set(&p.server), "C18.cid.new_server.no_peer_set_yet");
        assert!(p.remembered.is_none(), "C18.cid.new_server.nothing_remembered");
        assert!(p.wakers.is_empty(), "C18.cid.new_server.sup.no_waiters");
        assert!(matches!(p.requirements, Requirements::Server { initial_scid: None }), "C18.cid.new_server.no_scid_seen");
        std::mem::forget(p);
    }

    /// Client endpoint. Both arrival orders of {server's transport parameters (TLS EncryptedExtensions),
    /// first Initial packet from the server (its SCID)}.
    ///   requires  (call sites qconnection/src/tls.rs:598, space/initial.rs:234) each event happens once;
    ///             the received set went through `parse_from_bytes`, i.e. carries the role's required ids
    ///   ensures   after one event only: Ok, not ready, `poll_ready` pending
    ///   ensures   after both: ready  <=>  server.initial_source_connection_id == SCID seen on the wire
    ///                                   && server.original_destination_connection_id == DCID of our first Initial
    ///             otherwise Err(TRANSPORT_PARAMETER_ERROR) and never ready
    ///   ensures   once ready the remembered (0-RTT) set is dropped, local set and role untouched
    /// Confined to the region where no Retry is involved on either side (see `client_retry_binding`).
    fn client_binding_contract(params_first: bool, with_remembered: bool) {
        let origin_dcid = any_cid();
        let wire_scid = any_cid();
        let (iscid, odcid) = (any_opt_cid(), any_opt_cid());
        unsafe {
            ORACLE_ISCID = iscid;
            ORACLE_ODCID = odcid;
            ORACLE_RSCID = None; // bad region excluded: handled by client_retry_binding (expect_fail)
        }
        // precondition: `ServerParameters::parse_from_bytes` returned Ok => required ids present
        kani::assume(iscid.is_some() && odcid.is_some());
        let mut p = client_start(origin_dcid, with_remembered); // == Parameters::new_client(..), see new_client_contract

        assert!(p.role() == Role::Client, "C18.cid.client.sup.role");
        assert!(!p.is_remote_params_ready() && !p.is_remote_params_received(), "C18.cid.client.initially_not_ready");
        assert!(p.remembered().is_some() == with_remembered, "C18.cid.client.sup.remembered_kept_until_ready");

        let last = if params_first {
            let r = p.recv_remote_params(received_set::<Server>());
            assert!(r.is_ok(), "C18.cid.client.params_alone_ok");
            assert!(!p.is_remote_params_ready(), "C18.cid.client.not_ready_before_scid_seen");
            assert!(p.is_remote_params_received(), "C18.cid.client.sup.received_flag");
            assert!(p.remembered().is_some() == with_remembered, "C18.cid.client.remembered_kept_until_ready");
            p.initial_scid_from_peer_need_equal(wire_scid)
        } else {
            let r = p.initial_scid_from_peer_need_equal(wire_scid);
            assert!(r.is_ok(), "C18.cid.client.scid_alone_ok");
            assert!(!p.is_remote_params_ready(), "C18.cid.client.not_ready_before_params_received");
            assert!(p.remembered().is_some() == with_remembered, "C18.cid.client.remembered_kept_until_ready");
            p.recv_remote_params(received_set::<Server>())
        };

        let iscid_ok = opt_same(&iscid, &wire_scid);
        let odcid_ok = opt_same(&odcid, &origin_dcid);
        let bound = iscid_ok && odcid_ok;
        if bound {
            assert!(last.is_ok(), "C18.cid.client.matching_ids_accepted");
            assert!(p.is_remote_params_ready(), "C18.cid.client.ready_when_bound");
            assert!(p.remembered().is_none(), "C18.cid.client.remembered_dropped_when_ready");
            assert!(p.client().is_some() && p.server().is_some(), "C18.cid.client.both_sets_visible_when_ready");
        } else {
            assert!(is_tp_error(&last), "C18.cid.client.mismatch_is_transport_parameter_error");
            assert!(!p.is_remote_params_ready(), "C18.cid.client.never_ready_on_mismatch");
            assert!(p.server().is_none(), "C18.cid.client.peer_set_hidden_on_mismatch");
        }
        assert!(p.role() == Role::Client, "C18.cid.client.sup.role_unchanged");
        assert!(opt_same(&p.initial_scid_from_peer(), &wire_scid), "C18.cid.client.sup.wire_scid_recorded");

        kani::cover!(bound, "C18.cid.client.reach_bound");
        kani::cover!(!iscid_ok && odcid_ok, "C18.cid.client.reach_iscid_mismatch_only");
        kani::cover!(iscid_ok && !odcid_ok, "C18.cid.client.reach_odcid_mismatch_only");
        kani::cover!(bound && wire_scid.len == 0, "C18.cid.client.reach_zero_length_scid");
        kani::cover!(bound && wire_scid.len == 20, "C18.cid.client.reach_max_length_scid");
        std::mem::forget(p); // tool limit: dropping the Arc'd sets makes CBMC walk hashbrown's drop loops
    }

    /// Server endpoint, both arrival orders of {ClientHello parameters, first client Initial}.
    ///   ensures after both: ready <=> client.initial_source_connection_id == SCID of the client's Initial
    fn server_binding_contract(params_first: bool) {
        let wire_scid = any_cid();
        let iscid = any_opt_cid();
        unsafe {
            ORACLE_ISCID = iscid;
            ORACLE_ODCID = None; // a client cannot send these (C18.ids.belong_to)
            ORACLE_RSCID = None;
        }
        kani::assume(iscid.is_some()); // precondition: `ClientParameters::parse_from_bytes` returned Ok
        let mut p = server_start(); // == Parameters::new_server(..), see new_server_contract

        assert!(p.role() == Role::Server, "C18.cid.server.sup.role");
        assert!(!p.is_remote_params_ready() && !p.is_remote_params_received(), "C18.cid.server.initially_not_ready");

        let last = if params_first {
            let r = p.recv_remote_params(received_set::<Client>());
            assert!(r.is_ok(), "C18.cid.server.params_alone_ok");
            assert!(!p.is_remote_params_ready(), "C18.cid.server.not_ready_before_scid_seen");
            p.initial_scid_from_peer_need_equal(wire_scid)
        } else {
            let r = p.initial_scid_from_peer_need_equal(wire_scid);
            assert!(r.is_ok(), "C18.cid.server.scid_alone_ok");
            assert!(!p.is_remote_params_ready(), "C18.cid.server.not_ready_before_params_received");
            p.recv_remote_params(received_set::<Client>())
        };

        let bound = opt_same(&iscid, &wire_scid);
        if bound {
            assert!(last.is_ok(), "C18.cid.server.matching_id_accepted");
            assert!(p.is_remote_params_ready(), "C18.cid.server.ready_when_bound");
            assert!(p.client().is_some() && p.server().is_some(), "C18.cid.server.both_sets_visible_when_ready");
        } else {
            assert!(is_tp_error(&last), "C18.cid.server.mismatch_is_transport_parameter_error");
            assert!(!p.is_remote_params_ready(), "C18.cid.server.never_ready_on_mismatch");
            assert!(p.client().is_none(), "C18.cid.server.peer_set_hidden_on_mismatch");
        }
        assert!(p.role() == Role::Server, "C18.cid.server.sup.role_unchanged");

        kani::cover!(bound, "C18.cid.server.reach_bound");
        kani::cover!(!bound, "C18.cid.server.reach_mismatch");
        kani::cover!(!bound && iscid.unwrap().len == wire_scid.len, "C18.cid.server.reach_same_length_different_bytes");
        std::mem::forget(p);
    }

    // One harness per arrival order (and per "remembered 0-RTT set present"): the order is a constant in each,
    // the connection ids are fully symbolic. (A symbolic order makes CBMC merge two heap shapes of the
    // Arc<HashMap> fields and it then walks hashbrown's drop loops without terminating.)
    #[kani::proof]
    #[kani::unwind(22)]
    #[kani::stub(std::hash::RandomState::new, fixed_random_state)]
    #[kani::stub(crate::param::core::Parameters::get, crate::param::core::Parameters::oracle_get)]
    #[kani::stub(crate::param::core::Parameters::is_empty, oracle_is_empty)]
    #[kani::stub(crate::param::core::Parameters::contains, oracle_contains)]
    #[kani::stub(std::task::Waker::wake, waker_wake_never)]
    #[kani::stub(<std::task::Waker as std::ops::Drop>::drop, waker_drop_never)]
    fn client_params_then_packet() {
        client_binding_contract(true, false);
    }

    #[kani::proof]
    #[kani::unwind(22)]
    #[kani::stub(std::hash::RandomState::new, fixed_random_state)]
    #[kani::stub(crate::param::core::Parameters::get, crate::param::core::Parameters::oracle_get)]
    #[kani::stub(crate::param::core::Parameters::is_empty, oracle_is_empty)]
    #[kani::stub(crate::param::core::Parameters::contains, oracle_contains)]
    #[kani::stub(std::task::Waker::wake, waker_wake_never)]
    #[kani::stub(<std::task::Waker as std::ops::Drop>::drop, waker_drop_never)]
    fn client_packet_then_params() {
        client_binding_contract(false, false);
    }

    #[kani::proof]
    #[kani::unwind(22)]
    #[kani::stub(std::hash::RandomState::new, fixed_random_state)]
    #[kani::stub(crate::param::core::Parameters::get, crate::param::core::Parameters::oracle_get)]
    #[kani::stub(crate::param::core::Parameters::is_empty, oracle_is_empty)]
    #[kani::stub(crate::param::core::Parameters::contains, oracle_contains)]
    #[kani::stub(std::task::Waker::wake, waker_wake_never)]
    #[kani::stub(<std::task::Waker as std::ops::Drop>::drop, waker_drop_never)]
    fn client_params_then_packet_0rtt() {
        client_binding_contract(true, true);
    }

    #[kani::proof]
    #[kani::unwind(22)]
    #[kani::stub(std::hash::RandomState::new, fixed_random_state)]
    #[kani::stub(crate::param::core::Parameters::get, crate::param::core::Parameters::oracle_get)]
    #[kani::stub(crate::param::core::Parameters::is_empty, oracle_is_empty)]
    #[kani::stub(crate::param::core::Parameters::contains, oracle_contains)]
    #[kani::stub(std::task::Waker::wake, waker_wake_never)]
    #[kani::stub(<std::task::Waker as std::ops::Drop>::drop, waker_drop_never)]
    fn client_packet_then_params_0rtt() {
        client_binding_contract(false, true);
    }

    #[kani::proof]
    #[kani::unwind(22)]
    #[kani::stub(std::hash::RandomState::new, fixed_random_state)]
    #[kani::stub(crate::param::core::Parameters::get, crate::param::core::Parameters::oracle_get)]
    #[kani::stub(crate::param::core::Parameters::is_empty, oracle_is_empty)]
    #[kani::stub(crate::param::core::Parameters::contains, oracle_contains)]
    #[kani::stub(std::task::Waker::wake, waker_wake_never)]
    #[kani::stub(<std::task::Waker as std::ops::Drop>::drop, waker_drop_never)]
    fn server_params_then_packet() {
        server_binding_contract(true);
    }

    #[kani::proof]
    #[kani::unwind(22)]
    #[kani::stub(std::hash::RandomState::new, fixed_random_state)]
    #[kani::stub(crate::param::core::Parameters::get, crate::param::core::Parameters::oracle_get)]
    #[kani::stub(crate::param::core::Parameters::is_empty, oracle_is_empty)]
    #[kani::stub(crate::param::core::Parameters::contains, oracle_contains)]
    #[kani::stub(std::task::Waker::wake, waker_wake_never)]
    #[kani::stub(<std::task::Waker as std::ops::Drop>::drop, waker_drop_never)]
    fn server_packet_then_params() {
        server_binding_contract(false);
    }

    /// `poll_ready` (what `ArcParameters::remote_ready().await` and thereby every user of the peer's limits waits
    /// on) is Ready exactly when the binding succeeded (`is_remote_params_ready`), for every reachable `state`;
    /// while pending it registers the caller's waker and wakes nobody.
    #[kani::proof]
    #[kani::unwind(4)]
    #[kani::stub(std::hash::RandomState::new, fixed_random_state)]
    fn poll_ready_contract() {
        let mut p = if kani::any() { client_start(any_cid(), false) } else { server_start() };
        let both = Parameters::CLIENT_READY | Parameters::SERVER_READY;
        if kani::any() {
            p.state = both; // the only other value ever stored (recv_remote_params / initial_scid_from_peer_need_equal)
        }
        let state0 = p.state;
        let ready = poll_is_ready(&mut p);
        assert!(ready == (state0 == both), "C18.cid.poll_ready.ready_iff_both_sides_bound");
        assert!(ready == p.is_remote_params_ready(), "C18.cid.poll_ready.agrees_with_is_remote_params_ready");
        assert!(p.state == state0, "C18.cid.poll_ready.state_unchanged");
        assert!(p.wakers.len() == if ready { 0 } else { 1 }, "C18.cid.poll_ready.pending_registers_one_waker");
        kani::cover!(ready, "C18.cid.poll_ready.reach_ready");
        kani::cover!(!ready && p.role() == Role::Server, "C18.cid.poll_ready.reach_pending_server");
        std::mem::forget(p);
    }

    /// RFC 9000 §7.3: "retry_source_connection_id ... the client MUST verify it equals the Source Connection ID
    /// of the Retry packet; absent if no Retry was received; a mismatch or an unexpected presence is
    /// TRANSPORT_PARAMETER_ERROR." KNOWN-BAD REGION (expect_fail): `authenticate_cids` ignores
    /// `Requirements::Client::retry_scid` altogether (the check is commented out in the source).
    #[kani::proof]
    #[kani::unwind(22)]
    #[kani::stub(std::hash::RandomState::new, fixed_random_state)]
    #[kani::stub(crate::param::core::Parameters::get, crate::param::core::Parameters::oracle_get)]
    #[kani::stub(crate::param::core::Parameters::is_empty, oracle_is_empty)]
    #[kani::stub(crate::param::core::Parameters::contains, oracle_contains)]
    #[kani::stub(std::task::Waker::wake, waker_wake_never)]
    #[kani::stub(<std::task::Waker as std::ops::Drop>::drop, waker_drop_never)]
    fn client_retry_binding() {
        let origin_dcid = any_cid();
        let wire_scid = any_cid();
        let retry_seen = any_opt_cid(); // SCID of a Retry packet the client acted on, if any
        let rscid = any_opt_cid(); // what the server declares
        unsafe {
            ORACLE_ISCID = Some(wire_scid);
            ORACLE_ODCID = Some(origin_dcid);
            ORACLE_RSCID = rscid;
        }
        let retry_bound = match (&retry_seen, &rscid) {
            (None, None) => true,
            (Some(a), Some(b)) => same(a, b),
            _ => false,
        };
        kani::assume(!retry_bound); // exactly the region the general harness excludes, plus the Retry case
        let mut p = client_start(origin_dcid, false);
        if let Some(cid) = retry_seen {
            p.retry_scid_from_server_need_equal(cid);
        }
        let r1 = p.initial_scid_from_peer_need_equal(wire_scid);
        let r2 = p.recv_remote_params(received_set::<Server>());
        kani::cover!(retry_seen.is_some() && rscid.is_none(), "C18.cid.retry.reach_retry_seen_param_absent");
        kani::cover!(retry_seen.is_none() && rscid.is_some(), "C18.cid.retry.reach_param_without_retry");
        assert!(
            !(r1.is_ok() && r2.is_ok() && p.is_remote_params_ready()),
            "C18.cid.retry.retry_scid_mismatch_rejected"
        );
    }

    // ---- C16: the event that completes the binding wakes every task parked in `poll_ready` -------------------------
    static mut VP_WOKEN: u32 = 0;
    fn waker_wake_counted(w: Waker) {
        unsafe { VP_WOKEN += 1 };
        std::mem::forget(w);
    }
    fn waker_drop_ignored(_w: &mut Waker) {}

    /// server, unusual order (ClientHello parameters first, then the SCID of the first Initial): a task that parked in
    /// `poll_ready` in between is woken by the call that makes the parameters ready (no wake-up is lost), in both orders
    /// of arrival the waiter list is empty afterwards.
    fn server_waiter_woken_contract(params_first: bool) {
        let wire_scid = any_cid();
        unsafe {
            ORACLE_ISCID = Some(wire_scid); // the matching case: the binding completes
            ORACLE_ODCID = None;
            ORACLE_RSCID = None;
            VP_WOKEN = 0;
        }
        let mut p = server_start();
        let first_ok = if params_first {
            p.recv_remote_params(received_set::<Client>()).is_ok()
        } else {
            p.initial_scid_from_peer_need_equal(wire_scid).is_ok()
        };
        assert!(first_ok && !p.is_remote_params_ready(), "C16.param.binding.sup.not_ready_after_first_event");
        // a task polls now and goes to sleep
        let mut cx = Context::from_waker(Waker::noop());
        let parked = p.poll_ready(&mut cx).is_pending();
        assert!(parked && p.wakers.len() == 1, "C16.param.poll_ready.pending_registers_the_waiter");
        let second_ok = if params_first {
            p.initial_scid_from_peer_need_equal(wire_scid).is_ok()
        } else {
            p.recv_remote_params(received_set::<Client>()).is_ok()
        };
        assert!(second_ok && p.is_remote_params_ready(), "C16.param.binding.sup.ready_after_second_event");
        assert!(unsafe { VP_WOKEN } == 1 && p.wakers.is_empty(), "C16.param.binding.completing_event_wakes_the_parked_task");
        std::mem::forget(p);
    }

    #[kani::proof]
    #[kani::unwind(22)]
    #[kani::stub(std::hash::RandomState::new, fixed_random_state)]
    #[kani::stub(crate::param::core::Parameters::get, crate::param::core::Parameters::oracle_get)]
    #[kani::stub(crate::param::core::Parameters::is_empty, oracle_is_empty)]
    #[kani::stub(crate::param::core::Parameters::contains, oracle_contains)]
    #[kani::stub(std::task::Waker::wake, waker_wake_counted)]
    #[kani::stub(<std::task::Waker as std::ops::Drop>::drop, waker_drop_ignored)]
    fn server_waiter_woken_params_then_packet() {
        server_waiter_woken_contract(true);
    }

    #[kani::proof]
    #[kani::unwind(22)]
    #[kani::stub(std::hash::RandomState::new, fixed_random_state)]
    #[kani::stub(crate::param::core::Parameters::get, crate::param::core::Parameters::oracle_get)]
    #[kani::stub(crate::param::core::Parameters::is_empty, oracle_is_empty)]
    #[kani::stub(crate::param::core::Parameters::contains, oracle_contains)]
    #[kani::stub(std::task::Waker::wake, waker_wake_counted)]
    #[kani::stub(<std::task::Waker as std::ops::Drop>::drop, waker_drop_ignored)]
    fn server_waiter_woken_packet_then_params() {
        server_waiter_woken_contract(false);
    }
}
