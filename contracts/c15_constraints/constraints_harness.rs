// ---- spliced by /verif (contracts/c15_constraints) : contracts on the real per-burst Constraints ----
// Property C15: the credit handed out by AntiAmplifier::balance() becomes `credit_limit`; every packet is written
// into `constrain(buffer)` and accounted by `commit(len, in_flight)`; so within one PacketsAssembler the bytes
// written never exceed the credit, and the subtraction never actually saturates / wraps.
#[cfg(kani)]
mod verif_c15_constraints {
    use super::*;

    const BUF: usize = 2048; // max_segment_size of the real UDP IO is 1500

    /// constrain: the writable window is exactly min(buffer, credit_limit, send_quota) bytes, a prefix of the buffer
    #[kani::proof]
    fn constrain_contract() {
        let c = Constraints::new(kani::any(), kani::any());
        let mut store = [0u8; BUF];
        let n: usize = kani::any();
        kani::assume(n <= BUF);
        let base = store.as_ptr();
        let out = c.constrain(&mut store[..n]);
        assert!(out.len() == n.min(c.credit_limit).min(c.send_quota), "C15.constraints.constrain.len_is_min_of_buffer_credit_quota");
        assert!(out.len() <= c.credit_limit, "C15.constraints.constrain.never_more_than_credit");
        assert!(out.as_ptr() == base, "C15.constraints.constrain.sup.prefix_of_buffer");
        assert!(c.available() == c.credit_limit.min(c.send_quota), "C15.constraints.available.min_of_credit_quota");
        assert!(c.is_available() == (c.credit_limit > 0), "C15.constraints.is_available.iff_credit_left");
        kani::cover!(n > c.credit_limit && c.credit_limit < c.send_quota, "C15.constraints.constrain.reach_credit_bound");
        kani::cover!(n > c.send_quota && c.send_quota < c.credit_limit, "C15.constraints.constrain.reach_quota_bound");
        kani::cover!(n < c.send_quota && n < c.credit_limit, "C15.constraints.constrain.reach_buffer_bound");
    }

    /// commit(len) for a len that fits the constrained window (caller obligation: len is what was written into
    /// `constrain(buffer)`): exact subtraction of the credit, the quota only for in-flight packets; `saturating_sub`
    /// never saturates under that obligation (so it hides nothing).
    #[kani::proof]
    fn commit_contract() {
        let mut c = Constraints::new(kani::any(), kani::any());
        let len: usize = kani::any();
        let in_flight: bool = kani::any();
        let (cl, q) = (c.credit_limit, c.send_quota);
        kani::assume(len <= cl.min(q)); // len <= constrain(buf).len() <= min(credit_limit, send_quota)
        c.commit(len, in_flight);
        assert!(c.credit_limit == cl - len, "C15.constraints.commit.credit_reduced_by_exactly_len");
        assert!(c.send_quota == if in_flight { q - len } else { q }, "C15.constraints.commit.quota_reduced_only_for_in_flight");
        kani::cover!(len == cl && cl > 0, "C15.constraints.commit.reach_spend_all");
    }

    /// commit never lets the credit grow or wrap, whatever len is (no underflow into a larger allowance)
    #[kani::proof]
    fn commit_never_increases_credit() {
        let mut c = Constraints::new(kani::any(), kani::any());
        let (cl, q) = (c.credit_limit, c.send_quota);
        c.commit(kani::any(), kani::any());
        assert!(c.credit_limit <= cl && c.send_quota <= q, "C15.constraints.commit.never_increases_allowance");
    }

    /// within one PacketsAssembler (one segment): up to four packets (Initial, 0-RTT, Handshake, 1-RTT), each
    /// written into the constrained rest of the buffer and committed -- the segment's total stays within the credit
    /// the assembler started with.
    #[kani::proof]
    fn segment_total_within_credit() {
        let credit: usize = kani::any();
        let quota: usize = kani::any();
        let mut c = Constraints::new(credit, quota);
        let mut store = [0u8; BUF];
        let n: usize = kani::any();
        kani::assume(n <= BUF);
        let mut total = 0usize;
        let mut off = 0usize;
        let mut k = 0;
        while k < 4 {
            let window = c.constrain(&mut store[off..n]).len();
            let len: usize = kani::any();
            kani::assume(len <= window); // a packet writer cannot write beyond the slice it was given
            c.commit(len, kani::any());
            off += len;
            total += len;
            k += 1;
        }
        assert!(total <= credit, "C15.constraints.segment.total_within_credit");
        assert!(c.credit_limit == credit - total, "C15.constraints.segment.remaining_credit_exact");
        kani::cover!(total == credit && credit > 0, "C15.constraints.segment.reach_exhausted");
    }
}
