// ---- spliced by /verif (contracts/c10_sent_state) : contracts of the per-packet record SentPktState ----
#[cfg(kani)]
mod verif_c10_sent_state {
    use super::*;
    //@include ../_shared/kani_stubs.rs

    // `tracing::trace!` expands to a callsite registration + thread-local dispatcher lookup that crashes the
    // Kani compiler (intrinsics.rs:243, same crash as qevent::event!).  The three entry points of the
    // expansion are stubbed: the event is treated as disabled (tracing has no effect on the journal).
    fn stub_interest(_c: &'static tracing::callsite::DefaultCallsite) -> tracing::subscriber::Interest {
        tracing::subscriber::Interest::never()
    }
    fn stub_is_enabled(_m: &tracing::Metadata<'static>, _i: tracing::subscriber::Interest) -> bool {
        false
    }
    fn stub_dispatch<'a: 'a>(_m: &'static tracing::Metadata<'static>, _f: &'a tracing::field::ValueSet<'_>) {}

    fn any_state() -> SentPktState {
        let nframes: usize = kani::any();
        match kani::any::<u8>() % 4 {
            0 => SentPktState::Skipped,
            1 => SentPktState::Flighting {
                nframes,
                sent_time: any_instant(),
                expire_time: any_instant(),
                retran_time: any_instant(),
            },
            2 => SentPktState::Retransmitted {
                nframes,
                sent_time: any_instant(),
                expire_time: any_instant(),
            },
            _ => SentPktState::Acked {
                nframes,
                sent_time: any_instant(),
                expire_time: any_instant(),
            },
        }
    }

    fn is_acked(s: &SentPktState) -> bool {
        matches!(s, SentPktState::Acked { .. })
    }

    /// (sent_time, expire_time) of a record, if it has them
    fn times(s: &SentPktState) -> Option<(Instant, Instant)> {
        match *s {
            SentPktState::Skipped => None,
            SentPktState::Flighting { sent_time, expire_time, .. }
            | SentPktState::Retransmitted { sent_time, expire_time, .. }
            | SentPktState::Acked { sent_time, expire_time, .. } => Some((sent_time, expire_time)),
        }
    }

    /// "exactly the frames carried in the newly acknowledged packet are reported as delivered, once":
    /// be_acked reports the record's frame count the first time the packet is acknowledged and 0 ever after.
    #[kani::proof]
    fn be_acked_contract() {
        let mut s = any_state();
        let old = s;
        let n = s.be_acked();
        match old {
            SentPktState::Skipped => {
                assert!(n == 0 && s == old, "C10.sent.state.be_acked.skipped_reports_nothing");
            }
            SentPktState::Flighting { .. } | SentPktState::Retransmitted { .. } => {
                assert!(n == old.nframes(), "C10.sent.state.be_acked.first_ack_reports_all_frames");
                assert!(is_acked(&s), "C10.sent.state.be_acked.becomes_acked");
                assert!(times(&s) == times(&old), "C10.sent.state.be_acked.keeps_times");
            }
            SentPktState::Acked { .. } => {
                assert!(n == 0 && s == old, "C10.sent.state.be_acked.repeated_ack_reports_nothing");
            }
        }
        // the packet -> frame-offset arithmetic of SentJournal sums nframes() of all earlier records:
        // no transition may change it
        assert!(s.nframes() == old.nframes(), "C10.sent.state.be_acked.nframes_invariant");
        // second acknowledgement of the same packet
        let after_first = s;
        let n2 = s.be_acked();
        assert!(n2 == 0 && s == after_first, "C10.sent.state.be_acked.second_call_reports_nothing");
        kani::cover!(n > 0, "C10.sent.state.be_acked.reach_reports");
        kani::cover!(matches!(old, SentPktState::Retransmitted { .. }) && n > 0, "C10.sent.state.be_acked.reach_late_ack_of_lost");
    }

    /// "frames of packets declared lost are reported for retransmission" and an acknowledged packet is never
    /// declared lost (Acked is absorbing).
    #[kani::proof]
    fn maybe_lost_contract() {
        let mut s = any_state();
        let old = s;
        let n = s.maybe_lost();
        match old {
            SentPktState::Acked { .. } => {
                assert!(n == 0 && s == old, "C10.sent.state.maybe_lost.acked_never_lost");
            }
            SentPktState::Skipped => {
                assert!(n == 0 && s == old, "C10.sent.state.maybe_lost.skipped_reports_nothing");
            }
            SentPktState::Flighting { .. } => {
                assert!(n == old.nframes(), "C10.sent.state.maybe_lost.inflight_reports_all_frames");
                assert!(matches!(s, SentPktState::Retransmitted { .. }), "C10.sent.state.maybe_lost.becomes_retransmitted");
                assert!(times(&s) == times(&old), "C10.sent.state.maybe_lost.keeps_times");
            }
            SentPktState::Retransmitted { .. } => {
                assert!(n == old.nframes() && s == old, "C10.sent.state.maybe_lost.retransmitted_stays");
            }
        }
        assert!(s.nframes() == old.nframes(), "C10.sent.state.maybe_lost.nframes_invariant");
        kani::cover!(n > 0, "C10.sent.state.maybe_lost.reach_reports");
    }

    #[kani::proof]
    fn should_retransmit_after_contract() {
        let mut s = any_state();
        let old = s;
        let now = any_instant();
        let r = s.should_retransmit_after(&now);
        let due = match old {
            SentPktState::Flighting { retran_time, .. } => retran_time < now,
            _ => false,
        };
        assert!(r == due, "C10.sent.state.retransmit.iff_inflight_and_timer_passed");
        if r {
            assert!(matches!(s, SentPktState::Retransmitted { .. }) && times(&s) == times(&old), "C10.sent.state.retransmit.becomes_retransmitted");
        } else {
            assert!(s == old, "C10.sent.state.retransmit.else_unchanged");
        }
        assert!(!(is_acked(&old) && !is_acked(&s)), "C10.sent.state.retransmit.acked_never_lost");
        assert!(s.nframes() == old.nframes(), "C10.sent.state.retransmit.nframes_invariant");
        kani::cover!(r, "C10.sent.state.retransmit.reach_true");
        kani::cover!(!r && matches!(old, SentPktState::Flighting { .. }), "C10.sent.state.retransmit.reach_not_due");
    }

    /// which records `resize` may drop from the front of the journal: never one still in flight (its frames
    /// could no longer be reported), always an acknowledged / skipped one.
    #[kani::proof]
    #[kani::stub(tracing::callsite::DefaultCallsite::interest, stub_interest)]
    #[kani::stub(tracing::__macro_support::__is_enabled, stub_is_enabled)]
    #[kani::stub(tracing::Event::dispatch, stub_dispatch)]
    fn should_remain_after_contract() {
        let s = any_state();
        let pn: u64 = kani::any();
        let now = any_instant();
        let r = s.should_remain_after(pn, &now);
        let expect = match s {
            SentPktState::Skipped => false,
            SentPktState::Flighting { .. } => true,
            SentPktState::Retransmitted { expire_time, .. } => expire_time > now,
            SentPktState::Acked { .. } => false,
        };
        assert!(r == expect, "C10.sent.state.remain.table");
        kani::cover!(r && matches!(s, SentPktState::Retransmitted { .. }), "C10.sent.state.remain.reach_lost_not_expired");
        kani::cover!(!r && matches!(s, SentPktState::Retransmitted { .. }), "C10.sent.state.remain.reach_lost_expired");
    }

    /// Whole-life lemma at record level: over ANY sequence of three events (ack / loss / retransmit timer)
    /// on one record, the frames are reported delivered at most once and exactly by the first ack; once
    /// acknowledged the record never leaves Acked and never reports loss again.
    #[kani::proof]
    fn record_history_lemma() {
        let mut s = any_state();
        kani::assume(!is_acked(&s)); // a freshly built record is Flighting or Skipped; Retransmitted also allowed
        let n0 = s.nframes();
        let mut delivered: usize = 0;
        let mut acks_seen = 0;
        let mut i = 0;
        while i < 3 {
            let was_acked = is_acked(&s);
            match kani::any::<u8>() % 3 {
                0 => {
                    let d = s.be_acked();
                    if acks_seen == 0 {
                        assert!(d == n0, "C10.sent.state.history.first_ack_delivers_all");
                    } else {
                        assert!(d == 0, "C10.sent.state.history.later_ack_delivers_nothing");
                    }
                    delivered += d;
                    acks_seen += 1;
                }
                1 => {
                    let l = s.maybe_lost();
                    assert!(!was_acked || l == 0, "C10.sent.state.history.no_loss_report_after_ack");
                }
                _ => {
                    let now = any_instant();
                    let r = s.should_retransmit_after(&now);
                    assert!(!was_acked || !r, "C10.sent.state.history.no_retransmit_after_ack");
                }
            }
            assert!(!was_acked || is_acked(&s), "C10.sent.state.history.acked_is_absorbing");
            assert!(s.nframes() == n0, "C10.sent.state.history.nframes_invariant");
            i += 1;
        }
        assert!(delivered <= n0, "C10.sent.state.history.delivered_at_most_once");
        kani::cover!(acks_seen == 2 && delivered > 0, "C10.sent.state.history.reach_duplicate_ack");
    }
}
