// ---- spliced by /verif (contracts/c11_flow) : contracts on the real connection-level flow controllers ----
#[cfg(kani)]
mod verif_c11_flow {
    use core::cell::Cell;

    use super::*;
    use crate::frame::{Fin, Len, Offset};

    /// trivial frame sink used for the generic `TX` parameter: counts the frames handed to it and keeps
    /// the value of the last one. Loop-free on purpose (every call site passes a one-element array).
    #[derive(Debug, Default)]
    struct Sink {
        n: Cell<u32>,
        last: Cell<u64>,
    }

    impl SendFrame<DataBlockedFrame> for Sink {
        fn send_frame<I: IntoIterator<Item = DataBlockedFrame>>(&self, iter: I) {
            let mut it = iter.into_iter();
            if let Some(f) = it.next() {
                self.n.set(self.n.get() + 1);
                self.last.set(f.limit());
            }
            assert!(it.next().is_none(), "C11.flow.sup.sink_gets_one_frame_per_call");
        }
    }

    impl SendFrame<MaxDataFrame> for Sink {
        fn send_frame<I: IntoIterator<Item = MaxDataFrame>>(&self, iter: I) {
            let mut it = iter.into_iter();
            if let Some(f) = it.next() {
                self.n.set(self.n.get() + 1);
                self.last.set(f.max_data());
            }
            assert!(it.next().is_none(), "C11.flow.sup.sink_gets_one_frame_per_call");
        }
    }

    /// stub for `ArcSendWakers::wake_all_by` (BTreeMap range walk over the per-path wakers: CBMC does not
    /// terminate on it). Waking sending tasks is a liveness matter, not part of the C11 contract.
    fn noop_wake(_w: &ArcSendWakers, _s: Signals) {}

    /// stub for `format!` (only used to build the human-readable `reason` of an error; symbolic execution
    /// of the formatting machinery does not terminate in reasonable time). The reason text is not under contract.
    fn stub_format(_args: core::fmt::Arguments<'_>) -> String {
        String::new()
    }

    const VMAX: u64 = crate::varint::VARINT_MAX;

    /// an arbitrary send controller satisfying the type invariant
    ///   sent_data <= max_data   (otherwise `avaliable()` underflows)
    ///   max_data  <= 2^62 - 1   (it is only ever assigned from a varint: MAX_DATA frame / transport parameter)
    fn any_send_controler() -> (ArcSendControler<Sink>, u64, u64, bool) {
        let sent: u64 = kani::any();
        let max: u64 = kani::any();
        let limited: bool = kani::any();
        kani::assume(sent <= max && max <= VMAX); // type invariant
        let c = ArcSendControler(Arc::new(Mutex::new(Ok(SendControler {
            sent_data: sent,
            max_data: max,
            flow_limited: limited,
            broker: Sink::default(),
            tx_wakers: ArcSendWakers::default(),
        }))));
        (c, sent, max, limited)
    }

    fn snd_state(c: &ArcSendControler<Sink>) -> (u64, u64, bool, u32, u64) {
        let g = c.0.lock().unwrap();
        let i = g.as_ref().unwrap();
        (i.sent_data, i.max_data, i.flow_limited, i.broker.n.get(), i.broker.last.get())
    }

    /// contract of `ArcSendControler::credit` + `Credit::post_sent` + `Drop for Credit`
    /// (C11: never beyond the connection limit, each fresh byte charged exactly once, unused credit returned)
    #[kani::proof]
    #[kani::unwind(2)]
    #[kani::stub(crate::net::tx::ArcSendWakers::wake_all_by, noop_wake)]
    fn send_credit_contract() {
        let (c, sent, max, limited) = any_send_controler();
        let quota: usize = kani::any();
        let mut credit = match c.credit(quota) {
            Ok(cr) => cr,
            Err(_) => {
                assert!(false, "C11.flow.send.credit.ok_while_connection_alive");
                return;
            }
        };
        let granted = credit.available() as u64;
        let budget = max - sent;
        let expect = if budget < quota as u64 { budget } else { quota as u64 };
        assert!(granted == expect, "C11.flow.send.credit.is_min_of_budget_and_quota");
        assert!(sent + granted <= max, "C11.flow.send.credit.never_exceeds_peer_limit");
        {
            // while the credit is out it is already committed (so that a second taker cannot get it too)
            let (s1, m1, l1, n1, v1) = snd_state(&c);
            assert!(s1 == sent + granted, "C11.flow.send.credit.granted_amount_is_reserved");
            assert!(m1 == max, "C11.flow.send.credit.limit_unchanged");
            // DATA_BLOCKED: emitted exactly when this grant leaves no budget and it was not signalled yet;
            // carries the limit at which we are blocked (RFC 9000 19.12)
            let exhausted = sent + granted == max;
            assert!((n1 == 1) == (exhausted && !limited) && n1 <= 1,
                    "C11.flow.send.commit.data_blocked_iff_budget_exhausted_first_time");
            assert!(n1 == 0 || v1 == max, "C11.flow.send.commit.data_blocked_carries_limit");
            assert!(l1 == (limited || exhausted), "C11.flow.send.commit.sup.flow_limited_flag");
            kani::cover!(n1 == 1, "C11.flow.send.credit.reach_blocked_frame");
        }
        // two reports of fresh bytes actually put into packets; documented precondition of post_sent:
        // never more than what is still available (`available -= amount` would underflow otherwise)
        let p1: usize = kani::any();
        let p2: usize = kani::any();
        kani::assume(p1 <= credit.available());
        credit.post_sent(p1);
        assert!(credit.available() as u64 == granted - p1 as u64, "C11.flow.send.post_sent.available_decreases_by_amount");
        kani::assume(p2 <= credit.available());
        credit.post_sent(p2);
        let posted = p1 as u64 + p2 as u64;
        kani::cover!(posted < granted && posted > 0, "C11.flow.send.credit.reach_partial_use");
        kani::cover!(posted == granted && granted > 0, "C11.flow.send.credit.reach_full_use");
        kani::cover!(granted == 0 && quota > 0, "C11.flow.send.credit.reach_no_budget");
        kani::cover!(granted as usize == quota && quota > 0 && budget > quota as u64, "C11.flow.send.credit.reach_quota_bound");
        drop(credit);
        let (s2, m2, _l2, n2, _v2) = snd_state(&c);
        assert!(s2 == sent + posted, "C11.flow.send.drop.charged_exactly_posted_unused_returned");
        assert!(s2 <= m2, "C11.flow.send.drop.sent_le_max");
        assert!(m2 == max, "C11.flow.send.drop.limit_unchanged");
        assert!(n2 <= 1, "C11.flow.send.drop.emits_no_frame");
        core::mem::forget(c); // the controller's own drop glue (BTreeMap of wakers, Error) is not under contract
    }

    // NOTE two credits outstanding at once (two packets under assembly): follows by induction from
    // `send_credit_contract` -- while a credit is out the state is (sent + granted, max), which satisfies the
    // same type invariant, so the contract applies to the second taker: sent + g1 + g2 <= max. A direct
    // two-credit harness was tried and needs > 5 min / 19M clauses (two Mutex round trips), so it is not kept.

    /// contract of the MAX_DATA receive path `<ArcSendControler as ReceiveFrame<MaxDataFrame>>::recv_frame`
    /// -> `increase_limit`: the limit only ever grows and becomes the largest value advertised
    #[kani::proof]
    #[kani::unwind(2)]
    #[kani::stub(crate::net::tx::ArcSendWakers::wake_all_by, noop_wake)]
    fn send_increase_limit_contract() {
        let (c, sent, max, limited) = any_send_controler();
        let v: u64 = kani::any();
        kani::assume(v <= VMAX); // a varint
        let r = c.recv_frame(MaxDataFrame::new(VarInt::from_u64(v).unwrap()));
        assert!(r.is_ok(), "C11.flow.send.recv_max_data.never_an_error");
        let (s1, m1, l1, n1, _) = snd_state(&c);
        assert!(m1 >= max, "C11.flow.send.increase_limit.never_lowers");
        assert!(m1 == if v > max { v } else { max }, "C11.flow.send.increase_limit.is_largest_advertised");
        assert!(s1 == sent, "C11.flow.send.increase_limit.sent_unchanged");
        assert!(l1 == (limited && v <= max), "C11.flow.send.increase_limit.sup.unblocked_iff_raised");
        assert!(n1 == 0, "C11.flow.send.increase_limit.emits_no_frame");
        kani::cover!(v > max, "C11.flow.send.increase_limit.reach_raise");
        kani::cover!(v < max, "C11.flow.send.increase_limit.reach_stale");
        core::mem::forget(c); // the controller's own drop glue (BTreeMap of wakers, Error) is not under contract
    }

    /// `revise_max_data` (handshake done, real parameters known). Contract: afterwards the type invariant
    /// `sent_data <= max_data` still holds (otherwise the next `credit` computes `max_data - sent_data`:
    /// debug panic / release wrap-around to an almost unlimited budget), and without a rejection the limit
    /// does not shrink.
    /// FINDING region excluded here and pinned in `send_revise_rejected_finding`:
    /// zero_rtt_rejected && sent_data > new max_data.
    #[kani::proof]
    #[kani::unwind(2)]
    #[kani::stub(crate::net::tx::ArcSendWakers::wake_all_by, noop_wake)]
    fn send_revise_max_data_contract() {
        let (c, sent, max, _limited) = any_send_controler();
        let rejected: bool = kani::any();
        let v: u64 = kani::any();
        kani::assume(v <= VMAX); // transport parameter initial_max_data is a varint
        kani::assume(!(rejected && sent > v)); // known bad region, see send_revise_rejected_finding
        c.revise_max_data(rejected, v);
        let (s1, m1, ..) = snd_state(&c);
        assert!(s1 <= m1, "C11.flow.send.revise_max_data.keeps_sent_le_max");
        assert!(rejected || m1 >= max, "C11.flow.send.revise_max_data.never_lowers_unless_rejected");
        assert!(!rejected || m1 == v, "C11.flow.send.revise_max_data.rejected_takes_new_parameter");
        assert!(s1 == sent || rejected, "C11.flow.send.revise_max_data.sent_unchanged_when_accepted");
        let cr = c.credit(kani::any()).ok().unwrap();
        assert!(s1 + cr.available() as u64 <= m1, "C11.flow.send.revise_max_data.next_credit_within_limit");
        kani::cover!(rejected && v < max, "C11.flow.send.revise_max_data.reach_rejected_lower");
        kani::cover!(!rejected && v > max, "C11.flow.send.revise_max_data.reach_raise");
        core::mem::forget(cr);
        core::mem::forget(c); // the controller's own drop glue (BTreeMap of wakers, Error) is not under contract
    }

    /// confined to the bad region: 0-RTT rejected and more 0-RTT bytes were charged than the new limit allows
    #[kani::proof]
    #[kani::unwind(2)]
    #[kani::stub(crate::net::tx::ArcSendWakers::wake_all_by, noop_wake)]
    fn send_revise_rejected_finding() {
        let (c, sent, _max, _limited) = any_send_controler();
        let v: u64 = kani::any();
        kani::assume(v <= VMAX);
        kani::assume(sent > v);
        c.revise_max_data(true, v);
        let (s1, m1, ..) = snd_state(&c);
        assert!(s1 <= m1, "C11.flow.send.revise_max_data.rejected_keeps_sent_le_max");
        core::mem::forget(c); // the controller's own drop glue (BTreeMap of wakers, Error) is not under contract
    }

    fn any_frame_type() -> FrameType {
        match kani::any::<u8>() % 3 {
            0 => FrameType::ResetStream,
            1 => FrameType::Stream(Offset::NonZero, Len::Explicit, Fin::Yes),
            _ => FrameType::Stream(Offset::Zero, Len::Omit, Fin::No),
        }
    }

    /// contract of `ArcRecvController::on_new_rcvd` -> `RecvController::on_new_rcvd`
    #[kani::proof]
    #[kani::unwind(2)]
    #[kani::stub(std::fmt::format, stub_format)]
    fn recv_on_new_rcvd_contract() {
        let rcvd: u64 = kani::any();
        let max: u64 = kani::any();
        let step: u64 = kani::any();
        // invariant of a live connection (after an Err the connection is closed): rcvd_data <= max_data
        kani::assume(rcvd <= max && max <= VMAX);
        // ASSUMPTION (recorded): the next advertisement still fits a varint, i.e. the connection has not yet
        // been granted 2^62 bytes in total; beyond it `VarInt::from_u64(..).expect(..)` panics
        kani::assume(step <= VMAX && max + step <= VMAX);
        let c = ArcRecvController(Arc::new(Mutex::new(RecvController {
            rcvd_data: rcvd,
            max_data: max,
            step,
            broker: Sink::default(),
        })));
        let amount: usize = kani::any();
        kani::assume(amount as u64 <= 1u64 << 62);
        let ft = any_frame_type();
        let r = c.on_new_rcvd(ft, amount);
        let g = c.0.lock().unwrap();
        let over = rcvd + amount as u64 > max;
        assert!(r.is_err() == over, "C11.flow.recv.on_new_rcvd.err_iff_over_limit");
        assert!(g.max_data >= max, "C11.flow.recv.on_new_rcvd.advertised_limit_never_decreases");
        assert!(g.rcvd_data == rcvd + amount as u64, "C11.flow.recv.on_new_rcvd.counts_amount_once");
        match r {
            Err(e) => {
                assert!(e.kind() == ErrorKind::FlowControl, "C11.flow.recv.on_new_rcvd.error_kind_flow_control");
                assert!(e.frame_type() == ErrorFrameType::V1(ft), "C11.flow.recv.on_new_rcvd.error_names_frame_type");
                assert!(g.max_data == max && g.broker.n.get() == 0, "C11.flow.recv.on_new_rcvd.no_grant_on_violation");
            }
            Ok(a) => {
                assert!(a == amount, "C11.flow.recv.on_new_rcvd.ok_returns_amount");
                assert!(g.rcvd_data <= max, "C11.flow.recv.on_new_rcvd.accepted_within_advertised_limit");
                let n = g.broker.n.get();
                // every raise is announced (a redundant MAX_DATA with an unchanged value, which happens for
                // step == 0, is allowed by RFC 9000 19.9)
                assert!((g.max_data == max || n == 1) && n <= 1, "C11.flow.recv.on_new_rcvd.raised_limit_is_announced");
                assert!(n == 0 || g.broker.last.get() == g.max_data, "C11.flow.recv.on_new_rcvd.max_data_frame_carries_new_limit");
                kani::cover!(n == 1 && step > 0, "C11.flow.recv.on_new_rcvd.reach_grant");
                kani::cover!(n == 0, "C11.flow.recv.on_new_rcvd.reach_no_grant");
            }
        }
        kani::cover!(over, "C11.flow.recv.on_new_rcvd.reach_violation");
        kani::cover!(rcvd + amount as u64 == max, "C11.flow.recv.on_new_rcvd.reach_exactly_at_limit");
        drop(g);
        core::mem::forget(c); // the controller's own drop glue (BTreeMap of wakers, Error) is not under contract
    }

    /// `RecvController::new`: the first advertised limit is the configured one
    #[kani::proof]
    #[kani::unwind(2)]
    #[kani::stub(crate::net::tx::ArcSendWakers::wake_all_by, noop_wake)]
    fn recv_new_contract() {
        let init: u64 = kani::any();
        let c = RecvController::new(init, Sink::default());
        assert!(c.max_data == init && c.rcvd_data == 0, "C11.flow.recv.new.limit_is_initial_max_data");
        assert!(c.step <= init, "C11.flow.recv.new.sup.step_le_limit");
        let s = SendControler::new(init, Sink::default(), ArcSendWakers::default());
        assert!(s.max_data == init && s.sent_data == 0 && !s.flow_limited, "C11.flow.send.new.limit_is_peer_initial_max_data");
    }
}
