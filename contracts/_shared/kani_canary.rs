// ---- spliced by /verif: vacuity canary -- this harness is FALSE on purpose and must be refuted on every run ----
#[cfg(kani)]
mod vp_canary {
    #[kani::proof]
    fn must_fail() {
        let x: u8 = kani::any();
        assert!(x != 77, "VP-CANARY");
    }
}
