    // ---- shared Kani stubs (each use is an assumption recorded in unit.json) ----------------------
    // usage on a harness:
    //   #[kani::stub(qevent::telemetry::macro_support::build_and_emit_event, noop_emit)]
    //   #[kani::stub(tokio::time::Instant::now, any_instant)]
    #[allow(dead_code)]
    pub(crate) fn noop_emit<D: qevent::BeSpecificEventData>(
        _build_data: impl FnOnce() -> D,
        _build_event: impl FnOnce(D) -> qevent::Event,
    ) {
    }

    #[repr(C)]
    struct VerifRawTs {
        secs: i64,
        nanos: u32,
    }

    /// an arbitrary point in time (std's unix `Instant` is `{ tv_sec: i64, tv_nsec: u32 < 10^9 }`)
    #[allow(dead_code)]
    pub(crate) fn any_instant() -> tokio::time::Instant {
        let secs: i64 = kani::any();
        let nanos: u32 = kani::any();
        kani::assume(secs >= 0 && secs < (1i64 << 40) && nanos < 1_000_000_000);
        let i: std::time::Instant = unsafe { core::mem::transmute(VerifRawTs { secs, nanos }) };
        tokio::time::Instant::from_std(i)
    }
