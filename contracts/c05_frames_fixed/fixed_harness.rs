// ---- spliced by /verif (contracts/c05_frames_fixed): C05 contracts of the fixed-shape frame codecs --------------
//
// For every fixed-shape frame kind F (no payload bytes) and every value f of F:
//
//   put_frame(f) through the real `BufMut for &mut [u8]` writes `written` bytes with
//        written == f.encoding_size()                       (".written_eq_encoding_size")
//        written <= f.max_encoding_size()                   (".written_le_max_encoding_size", the admission test of
//                                                            packet::io::frame_packages! uses either size)
//   be_frame_type(bytes) == the frame type of f             (".type_roundtrip")
//   complete_frame(type, _)(rest) == Ok((<empty>, f))       (".decodes", ".consumes_exactly", ".value_equal")
//
// `be_frame_type` + `complete_frame` is precisely what `be_frame`/`FrameReader::next` run; the glue around them
// (packet-type admission, error mapping, byte accounting) is under contract in unit c03_frame_decode.
// `be_varint` is replaced by its specification `be_varint_spec`; `varint_spec_equiv` proves the two equal.
#[cfg(kani)]
mod verif_c05_frames_fixed {
    use super::*;
    use crate::packet::r#type::{
        long::{Type::V1, Ver1},
        short::OneRtt,
    };
    //@include prelude.rs

    /// outcome of one encode/decode round trip (the harnesses turn every field into a named obligation)
    struct Rt {
        written: usize,
        size_exact: bool,
        size_le_max: bool,
        type_of_value: bool,
        type_roundtrip: bool,
        decodes: bool,
        consumes_exactly: bool,
        value_equal: bool,
    }

    /// encode `f`, decode it again with the frame type literal `ft` (a literal keeps `complete_frame`'s dispatch
    /// on one arm; `type_of_value`/`type_roundtrip` tie the literal to the value and to the wire)
    fn roundtrip<F, const M: usize>(f: &F, ft: FrameType, pick: impl Fn(Frame) -> Option<F>) -> Rt
    where
        F: PartialEq + EncodeSize + GetFrameType,
        for<'a> &'a mut [u8]: WriteFrame<F>,
    {
        let (buf, written) = verif_enc!(f, M);
        let mut r = Rt {
            written,
            size_exact: written == f.encoding_size(),
            size_le_max: written <= f.max_encoding_size(),
            type_of_value: f.frame_type() == ft,
            type_roundtrip: false,
            decodes: false,
            consumes_exactly: false,
            value_equal: false,
        };
        if let Ok((rest, t)) = be_frame_type(&buf[..written]) {
            r.type_roundtrip = t == ft;
            if let Ok((rest, frame)) = complete_frame(ft, Bytes::new())(rest) {
                r.decodes = true;
                r.consumes_exactly = rest.is_empty();
                r.value_equal = match pick(frame) {
                    Some(g) => g == *f,
                    None => false,
                };
            }
        }
        r
    }

    // ------------------------------------------------------------------------------------------------------
    // support lemma: the real be_varint equals the straight-line RFC 9000 §16 specification used as its stub
    // ------------------------------------------------------------------------------------------------------
    #[kani::proof]
    #[kani::unwind(10)]
    fn varint_spec_equiv() {
        let buf: [u8; 10] = kani::any();
        let n: usize = kani::any();
        kani::assume(n <= 10);
        let a = crate::varint::be_varint(&buf[..n]);
        let b = be_varint_spec(&buf[..n]);
        match (a, b) {
            (Ok((ra, va)), Ok((rb, vb))) => {
                assert!(va == vb, "C05.frame.varint.real_equals_spec.value");
                assert!(ra.len() == rb.len() && ra.as_ptr() == rb.as_ptr(), "C05.frame.varint.real_equals_spec.rest");
                kani::cover!(n - ra.len() == 8, "C05.frame.varint.real_equals_spec.reach_8_bytes");
                kani::cover!(n - ra.len() == 1, "C05.frame.varint.real_equals_spec.reach_1_byte");
            }
            (Err(nom::Err::Incomplete(x)), Err(nom::Err::Incomplete(y))) => {
                assert!(x == y, "C05.frame.varint.real_equals_spec.needed");
                kani::cover!(n == 7, "C05.frame.varint.real_equals_spec.reach_truncated");
            }
            _ => assert!(false, "C05.frame.varint.real_equals_spec.same_outcome"),
        }
    }

    // ------------------------------------------------------------------------------------------------------
    // frame type codec: FrameType <-> RFC 9000 Table 3 code <-> wire
    // ------------------------------------------------------------------------------------------------------
    /// RFC 9000 §19 / Table 3, RFC 9221 §4 and the project's extension range (spec function, from the documents)
    fn rfc_code(ft: FrameType) -> u64 {
        match ft {
            FrameType::Padding => 0x00,
            FrameType::Ping => 0x01,
            FrameType::Ack(Ecn::None) => 0x02,
            FrameType::Ack(Ecn::Exist) => 0x03,
            FrameType::ResetStream => 0x04,
            FrameType::StopSending => 0x05,
            FrameType::Crypto => 0x06,
            FrameType::NewToken => 0x07,
            FrameType::Stream(o, l, f) => {
                0x08 + if o == Offset::NonZero { 4 } else { 0 }
                    + if l == Len::Explicit { 2 } else { 0 }
                    + if f == Fin::Yes { 1 } else { 0 }
            }
            FrameType::MaxData => 0x10,
            FrameType::MaxStreamData => 0x11,
            FrameType::MaxStreams(Dir::Bi) => 0x12,
            FrameType::MaxStreams(Dir::Uni) => 0x13,
            FrameType::DataBlocked => 0x14,
            FrameType::StreamDataBlocked => 0x15,
            FrameType::StreamsBlocked(Dir::Bi) => 0x16,
            FrameType::StreamsBlocked(Dir::Uni) => 0x17,
            FrameType::NewConnectionId => 0x18,
            FrameType::RetireConnectionId => 0x19,
            FrameType::PathChallenge => 0x1a,
            FrameType::PathResponse => 0x1b,
            FrameType::ConnectionClose(Layer::Quic) => 0x1c,
            FrameType::ConnectionClose(Layer::App) => 0x1d,
            FrameType::HandshakeDone => 0x1e,
            FrameType::Datagram(with_len) => 0x30 + with_len as u64,
            FrameType::AddAddress(Family::V4) => 0x3d7e90,
            FrameType::AddAddress(Family::V6) => 0x3d7e91,
            FrameType::PunchMeNow(Family::V4) => 0x3d7e92,
            FrameType::PunchMeNow(Family::V6) => 0x3d7e93,
            FrameType::RemoveAddress => 0x3d7e94,
            FrameType::PunchHello => 0x3d7e95,
            FrameType::PunchDone => 0x3d7e96,
        }
    }

    #[kani::proof]
    #[kani::unwind(4)]
    #[kani::stub(alloc::fmt::format, fmt_stub)]
    #[kani::stub(crate::varint::be_varint, be_varint_spec)]
    fn frame_type_roundtrip() {
        let ft = any_frame_type();
        let code: VarInt = ft.into();
        assert!(code.into_u64() == rfc_code(ft), "C05.frame.type.encodes_the_rfc_code");
        let mut buf = [0u8; 8];
        let left = {
            let mut w = &mut buf[..];
            w.put_frame_type(ft);
            w.len()
        };
        let written = 8 - left;
        assert!(written == vlen(rfc_code(ft)), "C05.frame.type.written_is_shortest_varint");
        match be_frame_type(&buf[..written]) {
            Ok((rest, t)) => {
                assert!(rest.is_empty(), "C05.frame.type.consumes_exactly");
                assert!(t == ft, "C05.frame.type.value_equal");
            }
            Err(_) => assert!(false, "C05.frame.type.decodes"),
        }
        kani::cover!(written == 4, "C05.frame.type.reach_extension_type");
        kani::cover!(matches!(ft, FrameType::Stream(Offset::NonZero, Len::Explicit, Fin::Yes)), "C05.frame.type.reach_stream_0f");
        kani::cover!(matches!(ft, FrameType::Datagram(1)), "C05.frame.type.reach_datagram_31");
    }

    // ------------------------------------------------------------------------------------------------------
    // permitted packet types: `belongs_to` against RFC 9000 Table 3 ("Pkts" column), RFC 9221 §4
    // ------------------------------------------------------------------------------------------------------
    /// the packet types a payload is parsed for (Retry and Version Negotiation carry no frames)
    pub(crate) fn any_packet_type() -> (Type, u8) {
        let k: u8 = kani::any();
        kani::assume(k < 6);
        let t = match k {
            0 => Type::Long(V1(Ver1::INITIAL)),
            1 => Type::Long(V1(Ver1::HANDSHAKE)),
            2 => Type::Long(V1(Ver1::ZERO_RTT)),
            3 => Type::Short(OneRtt(kani::any::<u8>().into())),
            4 => Type::Long(V1(Ver1::RETRY)),
            _ => Type::Long(crate::packet::r#type::long::Type::VersionNegotiation),
        };
        (t, k)
    }

    /// RFC 9000 Table 3: I = Initial(0), H = Handshake(1), 0 = 0-RTT(2), 1 = 1-RTT(3); nothing else carries frames
    fn rfc_permitted(ft: FrameType, k: u8) -> bool {
        let (i, h, z, o) = (k == 0, k == 1, k == 2, k == 3);
        match ft {
            FrameType::Padding | FrameType::Ping => i | h | z | o,          // IH01
            FrameType::Ack(_) | FrameType::Crypto => i | h | o,             // IH_1
            FrameType::ConnectionClose(Layer::Quic) => i | h | z | o,       // ih01
            FrameType::ConnectionClose(Layer::App) => z | o,                // __01
            FrameType::NewToken | FrameType::PathResponse | FrameType::HandshakeDone => o, // ___1
            FrameType::ResetStream
            | FrameType::StopSending
            | FrameType::Stream(..)
            | FrameType::MaxData
            | FrameType::MaxStreamData
            | FrameType::MaxStreams(_)
            | FrameType::DataBlocked
            | FrameType::StreamDataBlocked
            | FrameType::StreamsBlocked(_)
            | FrameType::NewConnectionId
            | FrameType::RetireConnectionId
            | FrameType::PathChallenge => z | o,                            // __01
            FrameType::Datagram(_) => z | o,                                // RFC 9221 §4
            // project extension frames: application-data packets only
            FrameType::AddAddress(_)
            | FrameType::RemoveAddress
            | FrameType::PunchMeNow(_)
            | FrameType::PunchHello
            | FrameType::PunchDone => z | o,
        }
    }

    #[kani::proof]
    fn permitted_types_table() {
        let ft = any_frame_type();
        let (pt, k) = any_packet_type();
        let got = ft.belongs_to(pt);
        if rfc_permitted(ft, k) {
            assert!(got, "C05.frame.permitted.every_rfc_permitted_packet_type_is_accepted");
        } else {
            assert!(!got, "C03.frame.permitted.frame_in_forbidden_packet_type_is_refused");
        }
        kani::cover!(got && k == 2, "C05.frame.permitted.reach_0rtt");
        kani::cover!(!got && k == 4, "C03.frame.permitted.reach_retry");
    }

    // ------------------------------------------------------------------------------------------------------
    // the fixed-shape frames
    // ------------------------------------------------------------------------------------------------------
    #[kani::proof]
    #[kani::unwind(4)]
    #[kani::stub(alloc::fmt::format, fmt_stub)]
    #[kani::stub(crate::varint::be_varint, be_varint_spec)]
    fn padding_roundtrip() {
        let r = roundtrip::<_, 4>(&PaddingFrame, FrameType::Padding, |fr| match fr {
            Frame::Padding(g) => Some(g),
            _ => None,
        });
        assert!(r.size_exact && r.written == 1, "C05.frame.padding.written_eq_encoding_size");
        assert!(r.size_le_max, "C05.frame.padding.written_le_max_encoding_size");
        assert!(r.type_of_value && r.type_roundtrip, "C05.frame.padding.type_roundtrip");
        assert!(r.decodes, "C05.frame.padding.decodes");
        assert!(r.consumes_exactly, "C05.frame.padding.consumes_exactly");
        assert!(r.value_equal, "C05.frame.padding.value_equal");
    }

    #[kani::proof]
    #[kani::unwind(4)]
    #[kani::stub(alloc::fmt::format, fmt_stub)]
    #[kani::stub(crate::varint::be_varint, be_varint_spec)]
    fn ping_roundtrip() {
        let r = roundtrip::<_, 4>(&PingFrame, FrameType::Ping, |fr| match fr {
            Frame::Ping(g) => Some(g),
            _ => None,
        });
        assert!(r.size_exact && r.written == 1, "C05.frame.ping.written_eq_encoding_size");
        assert!(r.size_le_max, "C05.frame.ping.written_le_max_encoding_size");
        assert!(r.type_of_value && r.type_roundtrip, "C05.frame.ping.type_roundtrip");
        assert!(r.decodes, "C05.frame.ping.decodes");
        assert!(r.consumes_exactly, "C05.frame.ping.consumes_exactly");
        assert!(r.value_equal, "C05.frame.ping.value_equal");
    }

    #[kani::proof]
    #[kani::unwind(4)]
    #[kani::stub(alloc::fmt::format, fmt_stub)]
    #[kani::stub(crate::varint::be_varint, be_varint_spec)]
    fn handshake_done_roundtrip() {
        let r = roundtrip::<_, 4>(&HandshakeDoneFrame, FrameType::HandshakeDone, |fr| match fr {
            Frame::HandshakeDone(g) => Some(g),
            _ => None,
        });
        assert!(r.size_exact && r.written == 1, "C05.frame.handshake_done.written_eq_encoding_size");
        assert!(r.size_le_max, "C05.frame.handshake_done.written_le_max_encoding_size");
        assert!(r.type_of_value && r.type_roundtrip, "C05.frame.handshake_done.type_roundtrip");
        assert!(r.decodes, "C05.frame.handshake_done.decodes");
        assert!(r.consumes_exactly, "C05.frame.handshake_done.consumes_exactly");
        assert!(r.value_equal, "C05.frame.handshake_done.value_equal");
    }

    /// an arbitrary ACK frame with `n` additional ranges (n <= 2 is the bound of the unit) and arbitrary field values
    fn any_ack(n: usize, with_ecn: bool) -> AckFrame {
        let mut ranges = Vec::new();
        let mut i = 0;
        while i < n {
            ranges.push((vi(), vi()));
            i += 1;
        }
        let ecn = if with_ecn { Some(EcnCounts::new(vi(), vi(), vi())) } else { None };
        AckFrame::new(vi(), vi(), vi(), ranges, ecn)
    }

    /// sizes only (no decoding): cheap enough for every ACK shape of the unit
    #[kani::proof]
    #[kani::unwind(5)]
    fn ack0_noecn_sizes() {
        let f = any_ack(0, false);
        let (_buf, written) = verif_enc!(&f, 40);
        assert!(written == f.encoding_size(), "C05.frame.ack0_noecn.sizes.written_eq_encoding_size");
        assert!(written <= f.max_encoding_size(), "C05.frame.ack0_noecn.sizes.written_le_max_encoding_size");
        kani::cover!(written == 26, "C05.frame.ack0_noecn.sizes.reach_all_fields_8_byte");
        kani::cover!(written == 5, "C05.frame.ack0_noecn.sizes.reach_all_1_byte");
    }

    /// sizes only (no decoding): cheap enough for every ACK shape of the unit
    #[kani::proof]
    #[kani::unwind(5)]
    fn ack1_noecn_sizes() {
        let f = any_ack(1, false);
        let (_buf, written) = verif_enc!(&f, 56);
        assert!(written == f.encoding_size(), "C05.frame.ack1_noecn.sizes.written_eq_encoding_size");
        assert!(written <= f.max_encoding_size(), "C05.frame.ack1_noecn.sizes.written_le_max_encoding_size");
        kani::cover!(written == 42, "C05.frame.ack1_noecn.sizes.reach_all_fields_8_byte");
        kani::cover!(written == 7, "C05.frame.ack1_noecn.sizes.reach_all_1_byte");
    }

    /// sizes only (no decoding): cheap enough for every ACK shape of the unit
    #[kani::proof]
    #[kani::unwind(5)]
    fn ack2_noecn_sizes() {
        let f = any_ack(2, false);
        let (_buf, written) = verif_enc!(&f, 72);
        assert!(written == f.encoding_size(), "C05.frame.ack2_noecn.sizes.written_eq_encoding_size");
        assert!(written <= f.max_encoding_size(), "C05.frame.ack2_noecn.sizes.written_le_max_encoding_size");
        kani::cover!(written == 58, "C05.frame.ack2_noecn.sizes.reach_all_fields_8_byte");
        kani::cover!(written == 9, "C05.frame.ack2_noecn.sizes.reach_all_1_byte");
    }

    /// sizes only (no decoding): cheap enough for every ACK shape of the unit
    #[kani::proof]
    #[kani::unwind(5)]
    fn ack0_ecn_sizes() {
        let f = any_ack(0, true);
        let (_buf, written) = verif_enc!(&f, 64);
        assert!(written == f.encoding_size(), "C05.frame.ack0_ecn.sizes.written_eq_encoding_size");
        assert!(written <= f.max_encoding_size(), "C05.frame.ack0_ecn.sizes.written_le_max_encoding_size");
        kani::cover!(written == 50, "C05.frame.ack0_ecn.sizes.reach_all_fields_8_byte");
        kani::cover!(written == 8, "C05.frame.ack0_ecn.sizes.reach_all_1_byte");
    }

    /// sizes only (no decoding): cheap enough for every ACK shape of the unit
    #[kani::proof]
    #[kani::unwind(5)]
    fn ack1_ecn_sizes() {
        let f = any_ack(1, true);
        let (_buf, written) = verif_enc!(&f, 80);
        assert!(written == f.encoding_size(), "C05.frame.ack1_ecn.sizes.written_eq_encoding_size");
        assert!(written <= f.max_encoding_size(), "C05.frame.ack1_ecn.sizes.written_le_max_encoding_size");
        kani::cover!(written == 66, "C05.frame.ack1_ecn.sizes.reach_all_fields_8_byte");
        kani::cover!(written == 10, "C05.frame.ack1_ecn.sizes.reach_all_1_byte");
    }

    /// sizes only (no decoding): cheap enough for every ACK shape of the unit
    #[kani::proof]
    #[kani::unwind(5)]
    fn ack2_ecn_sizes() {
        let f = any_ack(2, true);
        let (_buf, written) = verif_enc!(&f, 96);
        assert!(written == f.encoding_size(), "C05.frame.ack2_ecn.sizes.written_eq_encoding_size");
        assert!(written <= f.max_encoding_size(), "C05.frame.ack2_ecn.sizes.written_le_max_encoding_size");
        kani::cover!(written == 82, "C05.frame.ack2_ecn.sizes.reach_all_fields_8_byte");
        kani::cover!(written == 12, "C05.frame.ack2_ecn.sizes.reach_all_1_byte");
    }

    #[kani::proof]
    #[kani::unwind(5)]
    #[kani::stub(alloc::fmt::format, fmt_stub)]
    #[kani::stub(crate::varint::be_varint, be_varint_spec)]
    fn ack0_noecn_roundtrip() {
        let f = any_ack(0, false);
        let r = roundtrip::<_, 40>(&f, FrameType::Ack(Ecn::None), |fr| match fr {
            Frame::Ack(g) => Some(g),
            _ => None,
        });
        assert!(r.size_exact, "C05.frame.ack0_noecn.written_eq_encoding_size");
        assert!(r.size_le_max, "C05.frame.ack0_noecn.written_le_max_encoding_size");
        assert!(r.type_of_value && r.type_roundtrip, "C05.frame.ack0_noecn.type_roundtrip");
        assert!(r.decodes, "C05.frame.ack0_noecn.decodes");
        assert!(r.consumes_exactly, "C05.frame.ack0_noecn.consumes_exactly");
        assert!(r.value_equal, "C05.frame.ack0_noecn.value_equal");
        kani::cover!(r.written == 26, "C05.frame.ack0_noecn.reach_all_fields_8_byte");
        kani::cover!(r.written == 5, "C05.frame.ack0_noecn.reach_all_1_byte");
    }

    #[kani::proof]
    #[kani::unwind(5)]
    #[kani::stub(alloc::fmt::format, fmt_stub)]
    #[kani::stub(crate::varint::be_varint, be_varint_spec)]
    fn ack1_noecn_roundtrip() {
        let f = any_ack(1, false);
        let r = roundtrip::<_, 56>(&f, FrameType::Ack(Ecn::None), |fr| match fr {
            Frame::Ack(g) => Some(g),
            _ => None,
        });
        assert!(r.size_exact, "C05.frame.ack1_noecn.written_eq_encoding_size");
        assert!(r.size_le_max, "C05.frame.ack1_noecn.written_le_max_encoding_size");
        assert!(r.type_of_value && r.type_roundtrip, "C05.frame.ack1_noecn.type_roundtrip");
        assert!(r.decodes, "C05.frame.ack1_noecn.decodes");
        assert!(r.consumes_exactly, "C05.frame.ack1_noecn.consumes_exactly");
        assert!(r.value_equal, "C05.frame.ack1_noecn.value_equal");
        kani::cover!(r.written == 42, "C05.frame.ack1_noecn.reach_all_fields_8_byte");
        kani::cover!(r.written == 7, "C05.frame.ack1_noecn.reach_all_1_byte");
    }

    #[kani::proof]
    #[kani::unwind(5)]
    #[kani::stub(alloc::fmt::format, fmt_stub)]
    #[kani::stub(crate::varint::be_varint, be_varint_spec)]
    fn ack2_noecn_roundtrip() {
        let f = any_ack(2, false);
        let r = roundtrip::<_, 72>(&f, FrameType::Ack(Ecn::None), |fr| match fr {
            Frame::Ack(g) => Some(g),
            _ => None,
        });
        assert!(r.size_exact, "C05.frame.ack2_noecn.written_eq_encoding_size");
        assert!(r.size_le_max, "C05.frame.ack2_noecn.written_le_max_encoding_size");
        assert!(r.type_of_value && r.type_roundtrip, "C05.frame.ack2_noecn.type_roundtrip");
        assert!(r.decodes, "C05.frame.ack2_noecn.decodes");
        assert!(r.consumes_exactly, "C05.frame.ack2_noecn.consumes_exactly");
        assert!(r.value_equal, "C05.frame.ack2_noecn.value_equal");
        kani::cover!(r.written == 58, "C05.frame.ack2_noecn.reach_all_fields_8_byte");
        kani::cover!(r.written == 9, "C05.frame.ack2_noecn.reach_all_1_byte");
    }

    #[kani::proof]
    #[kani::unwind(5)]
    #[kani::stub(alloc::fmt::format, fmt_stub)]
    #[kani::stub(crate::varint::be_varint, be_varint_spec)]
    fn ack0_ecn_roundtrip() {
        let f = any_ack(0, true);
        let r = roundtrip::<_, 64>(&f, FrameType::Ack(Ecn::Exist), |fr| match fr {
            Frame::Ack(g) => Some(g),
            _ => None,
        });
        assert!(r.size_exact, "C05.frame.ack0_ecn.written_eq_encoding_size");
        assert!(r.size_le_max, "C05.frame.ack0_ecn.written_le_max_encoding_size");
        assert!(r.type_of_value && r.type_roundtrip, "C05.frame.ack0_ecn.type_roundtrip");
        assert!(r.decodes, "C05.frame.ack0_ecn.decodes");
        assert!(r.consumes_exactly, "C05.frame.ack0_ecn.consumes_exactly");
        assert!(r.value_equal, "C05.frame.ack0_ecn.value_equal");
        kani::cover!(r.written == 50, "C05.frame.ack0_ecn.reach_all_fields_8_byte");
        kani::cover!(r.written == 8, "C05.frame.ack0_ecn.reach_all_1_byte");
    }

    #[kani::proof]
    #[kani::unwind(4)]
    #[kani::stub(alloc::fmt::format, fmt_stub)]
    #[kani::stub(crate::varint::be_varint, be_varint_spec)]
    fn reset_stream_roundtrip() {
        let f = ResetStreamFrame::new(any_sid(), vi(), vi());
        let r = roundtrip::<_, 28>(&f, FrameType::ResetStream, |fr| match fr {
            Frame::StreamCtl(StreamCtlFrame::ResetStream(g)) => Some(g),
            _ => None,
        });
        assert!(r.size_exact, "C05.frame.reset_stream.written_eq_encoding_size");
        assert!(r.size_le_max, "C05.frame.reset_stream.written_le_max_encoding_size");
        assert!(r.type_of_value && r.type_roundtrip, "C05.frame.reset_stream.type_roundtrip");
        assert!(r.decodes, "C05.frame.reset_stream.decodes");
        assert!(r.consumes_exactly, "C05.frame.reset_stream.consumes_exactly");
        assert!(r.value_equal, "C05.frame.reset_stream.value_equal");
        kani::cover!(r.written == 25, "C05.frame.reset_stream.reach_all_8_byte");
        kani::cover!(r.written == 4, "C05.frame.reset_stream.reach_all_1_byte");
        kani::cover!(f.final_size() == 16384 && f.app_error_code() == 16383, "C05.frame.reset_stream.reach_2_4_byte_boundary");
    }

    #[kani::proof]
    #[kani::unwind(4)]
    #[kani::stub(alloc::fmt::format, fmt_stub)]
    #[kani::stub(crate::varint::be_varint, be_varint_spec)]
    fn stop_sending_roundtrip() {
        let f = StopSendingFrame::new(any_sid(), vi());
        let r = roundtrip::<_, 20>(&f, FrameType::StopSending, |fr| match fr {
            Frame::StreamCtl(StreamCtlFrame::StopSending(g)) => Some(g),
            _ => None,
        });
        assert!(r.size_exact, "C05.frame.stop_sending.written_eq_encoding_size");
        assert!(r.size_le_max, "C05.frame.stop_sending.written_le_max_encoding_size");
        assert!(r.type_of_value && r.type_roundtrip, "C05.frame.stop_sending.type_roundtrip");
        assert!(r.decodes, "C05.frame.stop_sending.decodes");
        assert!(r.consumes_exactly, "C05.frame.stop_sending.consumes_exactly");
        assert!(r.value_equal, "C05.frame.stop_sending.value_equal");
        kani::cover!(r.written == 17, "C05.frame.stop_sending.reach_all_8_byte");
        kani::cover!(f.app_err_code() == 63, "C05.frame.stop_sending.reach_63");
    }

    #[kani::proof]
    #[kani::unwind(4)]
    #[kani::stub(alloc::fmt::format, fmt_stub)]
    #[kani::stub(crate::varint::be_varint, be_varint_spec)]
    fn max_data_roundtrip() {
        let f = MaxDataFrame::new(vi());
        let r = roundtrip::<_, 12>(&f, FrameType::MaxData, |fr| match fr {
            Frame::MaxData(g) => Some(g),
            _ => None,
        });
        assert!(r.size_exact, "C05.frame.max_data.written_eq_encoding_size");
        assert!(r.size_le_max, "C05.frame.max_data.written_le_max_encoding_size");
        assert!(r.type_of_value && r.type_roundtrip, "C05.frame.max_data.type_roundtrip");
        assert!(r.decodes, "C05.frame.max_data.decodes");
        assert!(r.consumes_exactly, "C05.frame.max_data.consumes_exactly");
        assert!(r.value_equal, "C05.frame.max_data.value_equal");
        kani::cover!(f.max_data() == (1 << 62) - 1, "C05.frame.max_data.reach_varint_max");
        kani::cover!(f.max_data() == 64 && r.written == 3, "C05.frame.max_data.reach_64");
        kani::cover!(f.max_data() == (1 << 30) && r.written == 9, "C05.frame.max_data.reach_2pow30");
    }

    #[kani::proof]
    #[kani::unwind(4)]
    #[kani::stub(alloc::fmt::format, fmt_stub)]
    #[kani::stub(crate::varint::be_varint, be_varint_spec)]
    fn max_stream_data_roundtrip() {
        let f = MaxStreamDataFrame::new(any_sid(), vi());
        let r = roundtrip::<_, 20>(&f, FrameType::MaxStreamData, |fr| match fr {
            Frame::StreamCtl(StreamCtlFrame::MaxStreamData(g)) => Some(g),
            _ => None,
        });
        assert!(r.size_exact, "C05.frame.max_stream_data.written_eq_encoding_size");
        assert!(r.size_le_max, "C05.frame.max_stream_data.written_le_max_encoding_size");
        assert!(r.type_of_value && r.type_roundtrip, "C05.frame.max_stream_data.type_roundtrip");
        assert!(r.decodes, "C05.frame.max_stream_data.decodes");
        assert!(r.consumes_exactly, "C05.frame.max_stream_data.consumes_exactly");
        assert!(r.value_equal, "C05.frame.max_stream_data.value_equal");
        kani::cover!(r.written == 17, "C05.frame.max_stream_data.reach_all_8_byte");
        kani::cover!(r.written == 3, "C05.frame.max_stream_data.reach_all_1_byte");
    }

    /// RFC 9000 §19.11: "This value cannot exceed 2^60" - the valid domain of MAX_STREAMS is 0..=2^60.
    /// The value 2^60 itself is the recorded finding `max_streams_2pow60_*` below and excluded here.
    fn any_max_streams_value() -> VarInt {
        let v = vi();
        kani::assume(v.into_u64() <= (1u64 << 60)); // validity per RFC 9000 §19.11
        kani::assume(v.into_u64() != (1u64 << 60)); // known finding: the decoder refuses exactly 2^60 (see expect_fail harness)
        v
    }

    #[kani::proof]
    #[kani::unwind(4)]
    #[kani::stub(alloc::fmt::format, fmt_stub)]
    #[kani::stub(crate::varint::be_varint, be_varint_spec)]
    fn max_streams_bi_roundtrip() {
        let f = MaxStreamsFrame::with(Dir::Bi, any_max_streams_value());
        let r = roundtrip::<_, 12>(&f, FrameType::MaxStreams(Dir::Bi), |fr| match fr {
            Frame::StreamCtl(StreamCtlFrame::MaxStreams(g)) => Some(g),
            _ => None,
        });
        assert!(r.size_exact, "C05.frame.max_streams_bi.written_eq_encoding_size");
        assert!(r.size_le_max, "C05.frame.max_streams_bi.written_le_max_encoding_size");
        assert!(r.type_of_value && r.type_roundtrip, "C05.frame.max_streams_bi.type_roundtrip");
        assert!(r.decodes, "C05.frame.max_streams_bi.decodes");
        assert!(r.consumes_exactly, "C05.frame.max_streams_bi.consumes_exactly");
        assert!(r.value_equal, "C05.frame.max_streams_bi.value_equal");
        kani::cover!(r.written == 9, "C05.frame.max_streams_bi.reach_8_byte");
        kani::cover!(f == MaxStreamsFrame::Bi(VarInt::from_u32(0)), "C05.frame.max_streams_bi.reach_zero");
    }

    #[kani::proof]
    #[kani::unwind(4)]
    #[kani::stub(alloc::fmt::format, fmt_stub)]
    #[kani::stub(crate::varint::be_varint, be_varint_spec)]
    fn max_streams_uni_roundtrip() {
        let f = MaxStreamsFrame::with(Dir::Uni, any_max_streams_value());
        let r = roundtrip::<_, 12>(&f, FrameType::MaxStreams(Dir::Uni), |fr| match fr {
            Frame::StreamCtl(StreamCtlFrame::MaxStreams(g)) => Some(g),
            _ => None,
        });
        assert!(r.size_exact, "C05.frame.max_streams_uni.written_eq_encoding_size");
        assert!(r.size_le_max, "C05.frame.max_streams_uni.written_le_max_encoding_size");
        assert!(r.type_of_value && r.type_roundtrip, "C05.frame.max_streams_uni.type_roundtrip");
        assert!(r.decodes, "C05.frame.max_streams_uni.decodes");
        assert!(r.consumes_exactly, "C05.frame.max_streams_uni.consumes_exactly");
        assert!(r.value_equal, "C05.frame.max_streams_uni.value_equal");
        kani::cover!(r.written == 9, "C05.frame.max_streams_uni.reach_8_byte");
    }

    /// confined to the recorded finding: MAX_STREAMS = 2^60 is valid (RFC 9000 §19.11 "cannot exceed 2^60") and
    /// is encoded, but `max_streams_frame_with_dir` compares against MAX_STREAMS_LIMIT = 2^60 - 1 and refuses it.
    #[kani::proof]
    #[kani::unwind(4)]
    #[kani::stub(alloc::fmt::format, fmt_stub)]
    #[kani::stub(crate::varint::be_varint, be_varint_spec)]
    fn max_streams_2pow60_roundtrip() {
        let f = MaxStreamsFrame::with(Dir::Bi, VarInt::from_u64(1u64 << 60).unwrap());
        let r = roundtrip::<_, 12>(&f, FrameType::MaxStreams(Dir::Bi), |fr| match fr {
            Frame::StreamCtl(StreamCtlFrame::MaxStreams(g)) => Some(g),
            _ => None,
        });
        assert!(r.size_exact && r.type_roundtrip, "C05.frame.max_streams.finding_2pow60.sup.encodes");
        assert!(r.decodes, "C05.frame.max_streams.finding_2pow60.largest_valid_value_decodes");
    }

    #[kani::proof]
    #[kani::unwind(4)]
    #[kani::stub(alloc::fmt::format, fmt_stub)]
    #[kani::stub(crate::varint::be_varint, be_varint_spec)]
    fn data_blocked_roundtrip() {
        let f = DataBlockedFrame::new(vi());
        let r = roundtrip::<_, 12>(&f, FrameType::DataBlocked, |fr| match fr {
            Frame::DataBlocked(g) => Some(g),
            _ => None,
        });
        assert!(r.size_exact, "C05.frame.data_blocked.written_eq_encoding_size");
        assert!(r.size_le_max, "C05.frame.data_blocked.written_le_max_encoding_size");
        assert!(r.type_of_value && r.type_roundtrip, "C05.frame.data_blocked.type_roundtrip");
        assert!(r.decodes, "C05.frame.data_blocked.decodes");
        assert!(r.consumes_exactly, "C05.frame.data_blocked.consumes_exactly");
        assert!(r.value_equal, "C05.frame.data_blocked.value_equal");
        kani::cover!(f.limit() == 16383 && r.written == 3, "C05.frame.data_blocked.reach_16383");
        kani::cover!(f.limit() == 16384 && r.written == 5, "C05.frame.data_blocked.reach_16384");
    }

    #[kani::proof]
    #[kani::unwind(4)]
    #[kani::stub(alloc::fmt::format, fmt_stub)]
    #[kani::stub(crate::varint::be_varint, be_varint_spec)]
    fn stream_data_blocked_roundtrip() {
        let f = StreamDataBlockedFrame::new(any_sid(), vi());
        let r = roundtrip::<_, 20>(&f, FrameType::StreamDataBlocked, |fr| match fr {
            Frame::StreamCtl(StreamCtlFrame::StreamDataBlocked(g)) => Some(g),
            _ => None,
        });
        assert!(r.size_exact, "C05.frame.stream_data_blocked.written_eq_encoding_size");
        assert!(r.size_le_max, "C05.frame.stream_data_blocked.written_le_max_encoding_size");
        assert!(r.type_of_value && r.type_roundtrip, "C05.frame.stream_data_blocked.type_roundtrip");
        assert!(r.decodes, "C05.frame.stream_data_blocked.decodes");
        assert!(r.consumes_exactly, "C05.frame.stream_data_blocked.consumes_exactly");
        assert!(r.value_equal, "C05.frame.stream_data_blocked.value_equal");
        kani::cover!(r.written == 17, "C05.frame.stream_data_blocked.reach_all_8_byte");
    }

    #[kani::proof]
    #[kani::unwind(4)]
    #[kani::stub(alloc::fmt::format, fmt_stub)]
    #[kani::stub(crate::varint::be_varint, be_varint_spec)]
    fn streams_blocked_bi_roundtrip() {
        let f = StreamsBlockedFrame::with(Dir::Bi, vi());
        let r = roundtrip::<_, 12>(&f, FrameType::StreamsBlocked(Dir::Bi), |fr| match fr {
            Frame::StreamCtl(StreamCtlFrame::StreamsBlocked(g)) => Some(g),
            _ => None,
        });
        assert!(r.size_exact, "C05.frame.streams_blocked_bi.written_eq_encoding_size");
        assert!(r.size_le_max, "C05.frame.streams_blocked_bi.written_le_max_encoding_size");
        assert!(r.type_of_value && r.type_roundtrip, "C05.frame.streams_blocked_bi.type_roundtrip");
        assert!(r.decodes, "C05.frame.streams_blocked_bi.decodes");
        assert!(r.consumes_exactly, "C05.frame.streams_blocked_bi.consumes_exactly");
        assert!(r.value_equal, "C05.frame.streams_blocked_bi.value_equal");
        kani::cover!(r.written == 9, "C05.frame.streams_blocked_bi.reach_8_byte");
    }

    #[kani::proof]
    #[kani::unwind(4)]
    #[kani::stub(alloc::fmt::format, fmt_stub)]
    #[kani::stub(crate::varint::be_varint, be_varint_spec)]
    fn streams_blocked_uni_roundtrip() {
        let f = StreamsBlockedFrame::with(Dir::Uni, vi());
        let r = roundtrip::<_, 12>(&f, FrameType::StreamsBlocked(Dir::Uni), |fr| match fr {
            Frame::StreamCtl(StreamCtlFrame::StreamsBlocked(g)) => Some(g),
            _ => None,
        });
        assert!(r.size_exact, "C05.frame.streams_blocked_uni.written_eq_encoding_size");
        assert!(r.size_le_max, "C05.frame.streams_blocked_uni.written_le_max_encoding_size");
        assert!(r.type_of_value && r.type_roundtrip, "C05.frame.streams_blocked_uni.type_roundtrip");
        assert!(r.decodes, "C05.frame.streams_blocked_uni.decodes");
        assert!(r.consumes_exactly, "C05.frame.streams_blocked_uni.consumes_exactly");
        assert!(r.value_equal, "C05.frame.streams_blocked_uni.value_equal");
        kani::cover!(r.written == 2, "C05.frame.streams_blocked_uni.reach_1_byte");
    }

    #[kani::proof]
    #[kani::unwind(23)]
    #[kani::stub(alloc::fmt::format, fmt_stub)]
    #[kani::stub(crate::varint::be_varint, be_varint_spec)]
    fn new_connection_id_roundtrip() {
        let (seq, rpt) = (vi(), vi());
        let f = super::super::new_connection_id::verif_c05_gen::any_new_connection_id(seq, rpt);
        // validity of a NEW_CONNECTION_ID value, RFC 9000 §19.15: Retire Prior To <= Sequence Number,
        // connection id length in 1..=20 (the decoder refuses everything else, see c03_frame_errors)
        kani::assume(rpt <= seq);
        kani::assume(!f.connection_id().is_empty());
        let r = roundtrip::<_, 56>(&f, FrameType::NewConnectionId, |fr| match fr {
            Frame::NewConnectionId(g) => Some(g),
            _ => None,
        });
        assert!(r.size_exact, "C05.frame.new_connection_id.written_eq_encoding_size");
        assert!(r.size_le_max, "C05.frame.new_connection_id.written_le_max_encoding_size");
        assert!(r.type_of_value && r.type_roundtrip, "C05.frame.new_connection_id.type_roundtrip");
        assert!(r.decodes, "C05.frame.new_connection_id.decodes");
        assert!(r.consumes_exactly, "C05.frame.new_connection_id.consumes_exactly");
        assert!(r.value_equal, "C05.frame.new_connection_id.value_equal");
        kani::cover!(f.connection_id().len() == 20 && r.written == 54, "C05.frame.new_connection_id.reach_max_size");
        kani::cover!(f.connection_id().len() == 1 && r.written == 21, "C05.frame.new_connection_id.reach_min_size");
    }

    #[kani::proof]
    #[kani::unwind(4)]
    #[kani::stub(alloc::fmt::format, fmt_stub)]
    #[kani::stub(crate::varint::be_varint, be_varint_spec)]
    fn retire_connection_id_roundtrip() {
        let f = RetireConnectionIdFrame::new(vi());
        let r = roundtrip::<_, 12>(&f, FrameType::RetireConnectionId, |fr| match fr {
            Frame::RetireConnectionId(g) => Some(g),
            _ => None,
        });
        assert!(r.size_exact, "C05.frame.retire_connection_id.written_eq_encoding_size");
        assert!(r.size_le_max, "C05.frame.retire_connection_id.written_le_max_encoding_size");
        assert!(r.type_of_value && r.type_roundtrip, "C05.frame.retire_connection_id.type_roundtrip");
        assert!(r.decodes, "C05.frame.retire_connection_id.decodes");
        assert!(r.consumes_exactly, "C05.frame.retire_connection_id.consumes_exactly");
        assert!(r.value_equal, "C05.frame.retire_connection_id.value_equal");
        kani::cover!(r.written == 5, "C05.frame.retire_connection_id.reach_4_byte");
    }

    #[kani::proof]
    #[kani::unwind(10)]
    #[kani::stub(alloc::fmt::format, fmt_stub)]
    #[kani::stub(crate::varint::be_varint, be_varint_spec)]
    fn path_challenge_roundtrip() {
        let data: [u8; 8] = kani::any();
        let f = PathChallengeFrame::from_slice(&data);
        let r = roundtrip::<_, 12>(&f, FrameType::PathChallenge, |fr| match fr {
            Frame::PathChallenge(g) => Some(g),
            _ => None,
        });
        assert!(r.size_exact && r.written == 9, "C05.frame.path_challenge.written_eq_encoding_size");
        assert!(r.size_le_max, "C05.frame.path_challenge.written_le_max_encoding_size");
        assert!(r.type_of_value && r.type_roundtrip, "C05.frame.path_challenge.type_roundtrip");
        assert!(r.decodes, "C05.frame.path_challenge.decodes");
        assert!(r.consumes_exactly, "C05.frame.path_challenge.consumes_exactly");
        assert!(r.value_equal, "C05.frame.path_challenge.value_equal");
    }

    #[kani::proof]
    #[kani::unwind(10)]
    #[kani::stub(alloc::fmt::format, fmt_stub)]
    #[kani::stub(crate::varint::be_varint, be_varint_spec)]
    fn path_response_roundtrip() {
        let data: [u8; 8] = kani::any();
        let f = PathResponseFrame::from(PathChallengeFrame::from_slice(&data));
        let r = roundtrip::<_, 12>(&f, FrameType::PathResponse, |fr| match fr {
            Frame::PathResponse(g) => Some(g),
            _ => None,
        });
        assert!(r.size_exact && r.written == 9, "C05.frame.path_response.written_eq_encoding_size");
        assert!(r.size_le_max, "C05.frame.path_response.written_le_max_encoding_size");
        assert!(r.type_of_value && r.type_roundtrip, "C05.frame.path_response.type_roundtrip");
        assert!(r.decodes, "C05.frame.path_response.decodes");
        assert!(r.consumes_exactly, "C05.frame.path_response.consumes_exactly");
        assert!(r.value_equal, "C05.frame.path_response.value_equal");
    }

    // ---- the project's own frames -------------------------------------------------------------------------
    use super::super::add_address::verif_c05_gen::{any_add_address, any_nat_type, any_socket_addr};

    #[kani::proof]
    #[kani::unwind(20)]
    #[kani::stub(alloc::fmt::format, fmt_stub)]
    #[kani::stub(crate::varint::be_varint, be_varint_spec)]
    fn add_address_v4_roundtrip() {
        let f = any_add_address(Family::V4, vi(), vi());
        let r = roundtrip::<_, 48>(&f, FrameType::AddAddress(Family::V4), |fr| match fr {
            Frame::AddAddress(g) => Some(g),
            _ => None,
        });
        assert!(r.size_exact, "C05.frame.add_address_v4.written_eq_encoding_size");
        assert!(r.size_le_max, "C05.frame.add_address_v4.written_le_max_encoding_size");
        assert!(r.type_of_value && r.type_roundtrip, "C05.frame.add_address_v4.type_roundtrip");
        assert!(r.decodes, "C05.frame.add_address_v4.decodes");
        assert!(r.consumes_exactly, "C05.frame.add_address_v4.consumes_exactly");
        assert!(r.value_equal, "C05.frame.add_address_v4.value_equal");
        kani::cover!(r.written == 4 + 8 + 6 + 8 + 1, "C05.frame.add_address_v4.reach_max_size");
    }

    #[kani::proof]
    #[kani::unwind(20)]
    #[kani::stub(alloc::fmt::format, fmt_stub)]
    #[kani::stub(crate::varint::be_varint, be_varint_spec)]
    fn add_address_v6_roundtrip() {
        let f = any_add_address(Family::V6, vi(), vi());
        let r = roundtrip::<_, 48>(&f, FrameType::AddAddress(Family::V6), |fr| match fr {
            Frame::AddAddress(g) => Some(g),
            _ => None,
        });
        assert!(r.size_exact, "C05.frame.add_address_v6.written_eq_encoding_size");
        assert!(r.size_le_max, "C05.frame.add_address_v6.written_le_max_encoding_size");
        assert!(r.type_of_value && r.type_roundtrip, "C05.frame.add_address_v6.type_roundtrip");
        assert!(r.decodes, "C05.frame.add_address_v6.decodes");
        assert!(r.consumes_exactly, "C05.frame.add_address_v6.consumes_exactly");
        assert!(r.value_equal, "C05.frame.add_address_v6.value_equal");
        kani::cover!(r.written == 4 + 8 + 18 + 8 + 1, "C05.frame.add_address_v6.reach_max_size");
    }

    #[kani::proof]
    #[kani::unwind(4)]
    #[kani::stub(alloc::fmt::format, fmt_stub)]
    #[kani::stub(crate::varint::be_varint, be_varint_spec)]
    fn remove_address_roundtrip() {
        let f = RemoveAddressFrame { seq_num: vi() };
        let r = roundtrip::<_, 16>(&f, FrameType::RemoveAddress, |fr| match fr {
            Frame::RemoveAddress(g) => Some(g),
            _ => None,
        });
        assert!(r.size_exact, "C05.frame.remove_address.written_eq_encoding_size");
        assert!(r.size_le_max, "C05.frame.remove_address.written_le_max_encoding_size");
        assert!(r.type_of_value && r.type_roundtrip, "C05.frame.remove_address.type_roundtrip");
        assert!(r.decodes, "C05.frame.remove_address.decodes");
        assert!(r.consumes_exactly, "C05.frame.remove_address.consumes_exactly");
        assert!(r.value_equal, "C05.frame.remove_address.value_equal");
        kani::cover!(r.written == 12, "C05.frame.remove_address.reach_max_size");
    }

    #[kani::proof]
    #[kani::unwind(20)]
    #[kani::stub(alloc::fmt::format, fmt_stub)]
    #[kani::stub(crate::varint::be_varint, be_varint_spec)]
    fn punch_me_now_v4_roundtrip() {
        let f = super::super::punch_me_now::verif_c05_gen::any_punch_me_now(
            any_socket_addr(Family::V4),
            any_nat_type(),
            vi(),
            vi(),
            vi(),
        );
        let r = roundtrip::<_, 56>(&f, FrameType::PunchMeNow(Family::V4), |fr| match fr {
            Frame::PunchMeNow(g) => Some(g),
            _ => None,
        });
        assert!(r.size_exact, "C05.frame.punch_me_now_v4.written_eq_encoding_size");
        assert!(r.size_le_max, "C05.frame.punch_me_now_v4.written_le_max_encoding_size");
        assert!(r.type_of_value && r.type_roundtrip, "C05.frame.punch_me_now_v4.type_roundtrip");
        assert!(r.decodes, "C05.frame.punch_me_now_v4.decodes");
        assert!(r.consumes_exactly, "C05.frame.punch_me_now_v4.consumes_exactly");
        assert!(r.value_equal, "C05.frame.punch_me_now_v4.value_equal");
        kani::cover!(r.written == 4 + 8 + 8 + 6 + 8 + 1, "C05.frame.punch_me_now_v4.reach_max_size");
    }

    #[kani::proof]
    #[kani::unwind(20)]
    #[kani::stub(alloc::fmt::format, fmt_stub)]
    #[kani::stub(crate::varint::be_varint, be_varint_spec)]
    fn punch_me_now_v6_roundtrip() {
        let f = super::super::punch_me_now::verif_c05_gen::any_punch_me_now(
            any_socket_addr(Family::V6),
            any_nat_type(),
            vi(),
            vi(),
            vi(),
        );
        let r = roundtrip::<_, 56>(&f, FrameType::PunchMeNow(Family::V6), |fr| match fr {
            Frame::PunchMeNow(g) => Some(g),
            _ => None,
        });
        assert!(r.size_exact, "C05.frame.punch_me_now_v6.written_eq_encoding_size");
        assert!(r.size_le_max, "C05.frame.punch_me_now_v6.written_le_max_encoding_size");
        assert!(r.type_of_value && r.type_roundtrip, "C05.frame.punch_me_now_v6.type_roundtrip");
        assert!(r.decodes, "C05.frame.punch_me_now_v6.decodes");
        assert!(r.consumes_exactly, "C05.frame.punch_me_now_v6.consumes_exactly");
        assert!(r.value_equal, "C05.frame.punch_me_now_v6.value_equal");
        kani::cover!(r.written == 4 + 8 + 8 + 18 + 8 + 1, "C05.frame.punch_me_now_v6.reach_max_size");
    }

    #[kani::proof]
    #[kani::unwind(4)]
    #[kani::stub(alloc::fmt::format, fmt_stub)]
    #[kani::stub(crate::varint::be_varint, be_varint_spec)]
    fn punch_hello_roundtrip() {
        let f = super::super::punch_hello::verif_c05_gen::any_punch_hello(vi(), vi(), vi());
        let r = roundtrip::<_, 32>(&f, FrameType::PunchHello, |fr| match fr {
            Frame::PunchHello(g) => Some(g),
            _ => None,
        });
        assert!(r.size_exact, "C05.frame.punch_hello.written_eq_encoding_size");
        assert!(r.size_le_max, "C05.frame.punch_hello.written_le_max_encoding_size");
        assert!(r.type_of_value && r.type_roundtrip, "C05.frame.punch_hello.type_roundtrip");
        assert!(r.decodes, "C05.frame.punch_hello.decodes");
        assert!(r.consumes_exactly, "C05.frame.punch_hello.consumes_exactly");
        assert!(r.value_equal, "C05.frame.punch_hello.value_equal");
        kani::cover!(r.written == 28, "C05.frame.punch_hello.reach_max_size");
    }

    #[kani::proof]
    #[kani::unwind(4)]
    #[kani::stub(alloc::fmt::format, fmt_stub)]
    #[kani::stub(crate::varint::be_varint, be_varint_spec)]
    fn punch_done_roundtrip() {
        let f = super::super::punch_done::verif_c05_gen::any_punch_done(vi(), vi(), vi());
        let r = roundtrip::<_, 32>(&f, FrameType::PunchDone, |fr| match fr {
            Frame::PunchDone(g) => Some(g),
            _ => None,
        });
        assert!(r.size_exact, "C05.frame.punch_done.written_eq_encoding_size");
        assert!(r.size_le_max, "C05.frame.punch_done.written_le_max_encoding_size");
        assert!(r.type_of_value && r.type_roundtrip, "C05.frame.punch_done.type_roundtrip");
        assert!(r.decodes, "C05.frame.punch_done.decodes");
        assert!(r.consumes_exactly, "C05.frame.punch_done.consumes_exactly");
        assert!(r.value_equal, "C05.frame.punch_done.value_equal");
        kani::cover!(r.written == 7, "C05.frame.punch_done.reach_min_size");
    }
}
