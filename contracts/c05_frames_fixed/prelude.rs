    // ---- prelude of the frame-codec units (contracts/c05_frames_fixed/prelude.rs), textually included in every
    //      verif module of the frame layer. Nothing here is a function under contract. -------------------------
    #[allow(unused_imports)]
    use crate::frame::{EncodeSize as _, FrameFeature as _, GetFrameType as _, io::WriteFrame as _};
    #[allow(unused_imports)]
    use crate::varint::WriteVarInt as _;

    /// an arbitrary `VarInt` (type invariant of `VarInt`: value < 2^62)
    #[allow(dead_code)]
    pub(crate) fn vi() -> crate::varint::VarInt {
        let x: u64 = kani::any();
        kani::assume(x < (1u64 << 62));
        crate::varint::VarInt::from_u64(x).unwrap()
    }

    /// an arbitrary `StreamId` (type invariant: the raw id is a VarInt, see `From<StreamId> for VarInt`)
    #[allow(dead_code)]
    pub(crate) fn any_sid() -> crate::sid::StreamId {
        crate::sid::StreamId::from(vi())
    }

    /// number of bytes RFC 9000 §16 prescribes for the shortest encoding of `v` (spec function)
    #[allow(dead_code)]
    pub(crate) fn vlen(v: u64) -> usize {
        if v < (1 << 6) {
            1
        } else if v < (1 << 14) {
            2
        } else if v < (1 << 30) {
            4
        } else {
            8
        }
    }

    /// stub for `alloc::fmt::format` (text of error messages is not part of any obligation)
    #[allow(dead_code)]
    pub(crate) fn fmt_stub(_a: core::fmt::Arguments<'_>) -> String {
        String::new()
    }

    /// stub for `core::fmt::write` (same reason; makes `to_string()` of error values cheap)
    #[allow(dead_code)]
    pub(crate) fn write_stub(_o: &mut dyn core::fmt::Write, _a: core::fmt::Arguments<'_>) -> core::fmt::Result {
        Ok(())
    }

    /// stub for `String::from_utf8_lossy` (std; its Utf8Chunks state machine is very expensive to unwind): identity
    /// on the bytes. Faithful for valid UTF-8 (the round-trip harnesses only feed ASCII); on the decoding side the
    /// content of a reason phrase is in no obligation and std's function is trusted to be total.
    #[allow(dead_code)]
    pub(crate) fn lossy_stub(v: &[u8]) -> std::borrow::Cow<'_, str> {
        std::borrow::Cow::Borrowed(unsafe { core::str::from_utf8_unchecked(v) })
    }

    /// Straight-line specification of RFC 9000 §16 variable-length integer decoding.  It replaces the real
    /// `varint::be_varint` (nom bit-level parser, expensive to unwind) inside the frame harnesses; the harness
    /// `varint_spec_equiv` proves that the real function returns exactly this for every input.
    #[allow(dead_code)]
    pub(crate) fn be_varint_spec(input: &[u8]) -> nom::IResult<&[u8], crate::varint::VarInt> {
        if input.is_empty() {
            return Err(nom::Err::Incomplete(nom::Needed::new(1)));
        }
        let b0 = input[0];
        let len = 1usize << (b0 >> 6);
        if input.len() < len {
            return Err(nom::Err::Incomplete(nom::Needed::new(len - input.len())));
        }
        let mut v = (b0 & 0x3f) as u64;
        if len >= 2 {
            v = (v << 8) | input[1] as u64;
        }
        if len >= 4 {
            v = (v << 8) | input[2] as u64;
            v = (v << 8) | input[3] as u64;
        }
        if len >= 8 {
            v = (v << 8) | input[4] as u64;
            v = (v << 8) | input[5] as u64;
            v = (v << 8) | input[6] as u64;
            v = (v << 8) | input[7] as u64;
        }
        Ok((&input[len..], crate::varint::VarInt::from_u64(v).unwrap()))
    }

    /// view a harness-local buffer as `&'static [u8]` so that it can back a `Bytes::from_static`
    /// (no allocation, no reference counting); the buffer outlives every use inside the harness.
    #[allow(dead_code)]
    pub(crate) fn stat(b: &[u8]) -> &'static [u8] {
        unsafe { core::mem::transmute::<&[u8], &'static [u8]>(b) }
    }

    /// encode `$f` with the real `WriteFrame::put_frame` into a fresh `[u8; $m]` through the real
    /// `BufMut for &mut [u8]`; yields `(buffer, bytes written)`.
    #[allow(unused_macros)]
    macro_rules! verif_enc {
        ($f:expr, $m:expr) => {{
            let mut buf = [0u8; $m];
            let left = {
                let mut w = &mut buf[..];
                w.put_frame($f);
                w.len()
            };
            (buf, $m - left)
        }};
    }
    /// every value of `FrameType` (type invariant: `Datagram(b)` has b in {0,1}, see `DatagramFrame::frame_type`)
    #[allow(dead_code)]
    pub(crate) fn any_frame_type() -> crate::frame::FrameType {
        use crate::frame::{Ecn, Fin, FrameType, Layer, Len, Offset};
        use crate::{net::Family, sid::Dir};
        let k: u8 = kani::any();
        let b: bool = kani::any();
        let fam = if b { Family::V6 } else { Family::V4 };
        let dir = if b { Dir::Uni } else { Dir::Bi };
        match k {
            0 => FrameType::Padding,
            1 => FrameType::Ping,
            2 => FrameType::Ack(if b { Ecn::Exist } else { Ecn::None }),
            3 => FrameType::ResetStream,
            4 => FrameType::StopSending,
            5 => FrameType::Crypto,
            6 => FrameType::NewToken,
            7 => FrameType::Stream(
                if kani::any() { Offset::NonZero } else { Offset::Zero },
                if kani::any() { Len::Explicit } else { Len::Omit },
                if kani::any() { Fin::Yes } else { Fin::No },
            ),
            8 => FrameType::MaxData,
            9 => FrameType::MaxStreamData,
            10 => FrameType::MaxStreams(dir),
            11 => FrameType::DataBlocked,
            12 => FrameType::StreamDataBlocked,
            13 => FrameType::StreamsBlocked(dir),
            14 => FrameType::NewConnectionId,
            15 => FrameType::RetireConnectionId,
            16 => FrameType::PathChallenge,
            17 => FrameType::PathResponse,
            18 => FrameType::ConnectionClose(if b { Layer::App } else { Layer::Quic }),
            19 => FrameType::HandshakeDone,
            20 => FrameType::Datagram(b as u8),
            21 => FrameType::AddAddress(fam),
            22 => FrameType::PunchMeNow(fam),
            23 => FrameType::RemoveAddress,
            24 => FrameType::PunchHello,
            _ => FrameType::PunchDone,
        }
    }

    // ---- end of prelude -----------------------------------------------------------------------------------
