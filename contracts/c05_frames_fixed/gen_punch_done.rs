// ---- spliced by /verif (contracts/c05_frames_fixed): value generator for PUNCH_DONE (fields are private) ----
#[cfg(kani)]
pub(crate) mod verif_c05_gen {
    use super::*;

    pub(crate) fn any_punch_done(local_seq: VarInt, remote_seq: VarInt, probe_id: VarInt) -> PunchDoneFrame {
        PunchDoneFrame {
            local_seq,
            remote_seq,
            probe_id,
        }
    }
}
