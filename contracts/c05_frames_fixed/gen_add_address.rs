// ---- spliced by /verif (contracts/c05_frames_fixed): value generator for ADD_ADDRESS (fields are private) ----
#[cfg(kani)]
pub(crate) mod verif_c05_gen {
    use super::*;

    pub(crate) fn any_nat_type() -> NatType {
        match kani::any::<u8>() % 6 {
            0 => NatType::Blocked,
            1 => NatType::FullCone,
            2 => NatType::RestrictedCone,
            3 => NatType::RestrictedPort,
            4 => NatType::Symmetric,
            _ => NatType::Dynamic,
        }
    }

    /// an arbitrary socket address of the given family. Domain restriction (recorded in unit.json): IPv6
    /// `flowinfo` and `scope_id` are 0 - they have no wire representation in the frame.
    pub(crate) fn any_socket_addr(family: Family) -> SocketAddr {
        let port: u16 = kani::any();
        match family {
            Family::V4 => SocketAddr::new(IpAddr::V4(std::net::Ipv4Addr::from(kani::any::<u32>())), port),
            Family::V6 => SocketAddr::new(IpAddr::V6(std::net::Ipv6Addr::from(kani::any::<u128>())), port),
        }
    }

    pub(crate) fn any_add_address(family: Family, seq_num: VarInt, tire: VarInt) -> AddAddressFrame {
        AddAddressFrame {
            address: any_socket_addr(family),
            seq_num,
            tire,
            nat_type: any_nat_type(),
        }
    }
}
