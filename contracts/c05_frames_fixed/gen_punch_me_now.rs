// ---- spliced by /verif (contracts/c05_frames_fixed): value generator for PUNCH_ME_NOW (fields are private) ----
#[cfg(kani)]
pub(crate) mod verif_c05_gen {
    use super::*;

    pub(crate) fn any_punch_me_now(
        address: SocketAddr,
        nat_type: NatType,
        local_seq: VarInt,
        remote_seq: VarInt,
        tire: VarInt,
    ) -> PunchMeNowFrame {
        PunchMeNowFrame {
            local_seq,
            remote_seq,
            address,
            tire,
            nat_type,
        }
    }
}
