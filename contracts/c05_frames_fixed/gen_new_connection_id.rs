// ---- spliced by /verif (contracts/c05_frames_fixed): value generator for NEW_CONNECTION_ID (fields are private) ----
#[cfg(kani)]
pub(crate) mod verif_c05_gen {
    use super::*;

    /// an arbitrary NEW_CONNECTION_ID frame value; `len <= 20` is the type invariant of `ConnectionId`
    /// (`MAX_CID_SIZE`), every other field is unconstrained here.
    pub(crate) fn any_new_connection_id(sequence: VarInt, retire_prior_to: VarInt) -> NewConnectionIdFrame {
        let len: u8 = kani::any();
        kani::assume(len as usize <= crate::cid::MAX_CID_SIZE);
        let bytes: [u8; crate::cid::MAX_CID_SIZE] = kani::any();
        let token: [u8; RESET_TOKEN_SIZE] = kani::any();
        NewConnectionIdFrame {
            sequence,
            retire_prior_to,
            id: ConnectionId { len, bytes },
            reset_token: ResetToken::new(&token),
        }
    }
}
