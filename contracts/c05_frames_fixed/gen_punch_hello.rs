// ---- spliced by /verif (contracts/c05_frames_fixed): value generator for PUNCH_HELLO (fields are private) ----
#[cfg(kani)]
pub(crate) mod verif_c05_gen {
    use super::*;

    pub(crate) fn any_punch_hello(local_seq: VarInt, remote_seq: VarInt, probe_id: VarInt) -> PunchHelloFrame {
        PunchHelloFrame {
            local_seq,
            remote_seq,
            probe_id,
        }
    }
}
