// ---- spliced by /verif (contracts/c19_datagram) : contracts on the real outgoing datagram queue ----------
//
// Bound of every harness here: at most ONE datagram in the queue before the call.  Payload length symbolic
// 0..=2^32 (1-, 2- and 4-byte length fields occur), packet space and peer maximum any usize.  A payload is a
// `Bytes` over a static buffer; "unchanged" is identity of (pointer, length) -- the code under contract never
// copies payload bytes except into the packet, and the packet model records that write's source slice.
#[cfg(kani)]
mod verif_c19_writer {
    use qbase::error::AppError;

    use super::*;

    //@include pkt_model.rs

    /// payload lengths are symbolic up to 4 GiB: a payload is a `Bytes` over a fresh (uninitialised) allocation of
    /// symbolic size.  None of the functions under contract reads payload bytes (they queue, clone and hand the
    /// slice on); "unchanged" is identity of (pointer, length).
    const DMAX: usize = 1 << 32;
    fn symbolic_len_slice(n: usize) -> &'static [u8] {
        unsafe {
            let p = std::alloc::alloc(std::alloc::Layout::from_size_align_unchecked(if n == 0 { 1 } else { n }, 1));
            core::slice::from_raw_parts(p, n)
        }
    }

    /// stub for `ArcSendWakers::wake_all_by` (BTreeMap walk over the per-path wakers: outside Kani; waking the
    /// sending task is C16's matter and listed unverified there)
    fn noop_wake(_w: &ArcSendWakers, _s: Signals) {}

    // `tracing::error!` expands to a callsite registration + thread-local dispatcher lookup that crashes the Kani
    // compiler (intrinsics.rs:243).  The three entry points of the expansion are stubbed: the event is disabled.
    fn stub_interest(_c: &'static tracing::callsite::DefaultCallsite) -> tracing::subscriber::Interest {
        tracing::subscriber::Interest::never()
    }
    fn stub_is_enabled(_m: &tracing::Metadata<'static>, _i: tracing::subscriber::Interest) -> bool {
        false
    }
    fn stub_dispatch<'a: 'a>(_m: &'static tracing::Metadata<'static>, _f: &'a tracing::field::ValueSet<'_>) {}

    /// stub for `<qbase::error::Error as Clone>::clone`: the derived clone copies the `Cow<'static, str>` reason
    /// (owned branch = String allocation + memcpy, which CBMC does not get through).  All errors in these
    /// harnesses are `Error::App` with an empty borrowed reason, for which this IS the clone.
    fn error_clone_stub(e: &Error) -> Error {
        match e {
            Error::App(a) => Error::App(AppError::new(VarInt::from_u64(a.error_code()).unwrap(), "")),
            Error::Quic(q) => Error::Quic(qbase::error::QuicError::with_default_fty(q.kind(), "")),
        }
    }

    /// stub for qbase's `impl From<Error> for std::io::Error` (= `io::Error::new(BrokenPipe, e)`): keeps the kind,
    /// drops the payload.  The real one boxes the error as `Box<dyn Error + Send + Sync>`; its type-erased drop
    /// function then becomes a candidate target of EVERY raw `fn(*const ())` call in the harness (every Waker
    /// clone/wake/drop), each dragging in the drop glue of all error types of the crate graph -- 15 min / 10 GB
    /// per harness.  Only `kind()` of the returned io::Error is under contract.
    fn stub_error_to_io(e: Error) -> io::Error {
        core::mem::forget(e);
        io::Error::from(io::ErrorKind::BrokenPipe)
    }

    /// stub for `format!` (human-readable text of the error; not under contract)
    fn stub_format(_args: core::fmt::Arguments<'_>) -> String {
        String::new()
    }

    /// an arbitrary payload: symbolic length <= DMAX over one of two static buffers; (bytes, pointer, length)
    fn any_payload_in(_tag: u8) -> (Bytes, *const u8, usize) {
        let n: usize = kani::any();
        kani::assume(n <= DMAX);
        let b = Bytes::from_static(symbolic_len_slice(n));
        let p = b.as_ptr();
        (b, p, n)
    }
    fn any_payload() -> (Bytes, *const u8, usize) {
        any_payload_in(1)
    }

    fn outgoing_with(queue: VecDeque<Bytes>) -> DatagramOutgoing {
        DatagramOutgoing(Arc::new(Mutex::new(Ok(RawDatagramWriter { datagrams: queue, tx_wakers: ArcSendWakers::default() }))))
    }

    fn queue_len(o: &DatagramOutgoing) -> Option<usize> {
        o.0.lock().unwrap().as_ref().ok().map(|w| w.datagrams.len())
    }

    /// size on the wire of a varint holding `v` (RFC 9000 section 16)
    fn vsize(v: usize) -> usize {
        if v < (1 << 6) { 1 } else if v < (1 << 14) { 2 } else if v < (1 << 30) { 4 } else { 8 }
    }

    /// contract of `new_writer(max)`: max == 0 (peer did not advertise the extension) => Unsupported.
    #[kani::proof]
    #[kani::stub(tracing::callsite::DefaultCallsite::interest, stub_interest)]
    #[kani::stub(tracing::__macro_support::__is_enabled, stub_is_enabled)]
    #[kani::stub(tracing::Event::dispatch, stub_dispatch)]
    #[kani::stub(<qbase::error::Error as core::clone::Clone>::clone, error_clone_stub)]
    #[kani::stub(<std::io::Error as core::convert::From<qbase::error::Error>>::from, stub_error_to_io)]
    #[kani::unwind(2)]
    #[kani::stub(qbase::net::tx::ArcSendWakers::wake_all_by, noop_wake)]
    fn new_writer_contract() {
        let o = outgoing_with(VecDeque::new());
        let max: u64 = kani::any();
        match o.new_writer(max) {
            Ok(w) => {
                assert!(max != 0, "C19.writer.new_writer.refused_when_peer_max_is_zero");
                assert!(w.max_datagram_frame_size == max as usize, "C19.writer.new_writer.keeps_peer_max");
                core::mem::forget(w);
            }
            Err(e) => {
                assert!(max == 0, "C19.writer.new_writer.accepted_when_peer_max_nonzero");
                assert!(e.kind() == io::ErrorKind::Unsupported, "C19.writer.new_writer.zero_means_unsupported");
                core::mem::forget(e);
            }
        }
        kani::cover!(max == 0, "C19.writer.new_writer.reach_disabled");
        kani::cover!(max > 0, "C19.writer.new_writer.reach_enabled");
        core::mem::forget(o);
    }

    /// contract of `send_bytes(data)` with an empty queue: refused (InvalidInput, queue untouched) iff even the
    /// smallest DATAGRAM frame (1 type byte + payload) exceeds the peer's max_datagram_frame_size; otherwise
    /// exactly `data` (same bytes, same length) is appended.
    #[kani::proof]
    #[kani::stub(tracing::callsite::DefaultCallsite::interest, stub_interest)]
    #[kani::stub(tracing::__macro_support::__is_enabled, stub_is_enabled)]
    #[kani::stub(tracing::Event::dispatch, stub_dispatch)]
    #[kani::stub(<qbase::error::Error as core::clone::Clone>::clone, error_clone_stub)]
    #[kani::stub(<std::io::Error as core::convert::From<qbase::error::Error>>::from, stub_error_to_io)]
    #[kani::unwind(2)]
    #[kani::stub(qbase::net::tx::ArcSendWakers::wake_all_by, noop_wake)]
    #[kani::stub(alloc::fmt::format, stub_format)]
    fn send_bytes_contract() {
        let o = outgoing_with(VecDeque::new());
        let max: usize = kani::any();
        kani::assume(max != 0); // established by new_writer
        let w = DatagramWriter { writer: o.0.clone(), max_datagram_frame_size: max };
        let (data, ptr, n) = any_payload();

        let r = w.send_bytes(data);

        match &r {
            Ok(()) => {
                assert!(1 + n <= max, "C19.writer.send.accepted_only_if_frame_fits_peer_max");
                assert!(queue_len(&o) == Some(1), "C19.writer.send.enqueues_exactly_one_datagram");
                let g = o.0.lock().unwrap();
                let back = g.as_ref().unwrap().datagrams.back().unwrap();
                assert!(back.len() == n && back.as_ptr() == ptr, "C19.writer.send.enqueues_the_data_unchanged");
            }
            Err(e) => {
                assert!(1 + n > max, "C19.writer.send.refused_only_if_frame_exceeds_peer_max");
                assert!(e.kind() == io::ErrorKind::InvalidInput, "C19.writer.send.oversize_is_invalid_input");
                assert!(queue_len(&o) == Some(0), "C19.writer.send.refused_datagram_is_not_queued");
            }
        }
        kani::cover!(r.is_ok() && n == 0, "C19.writer.send.reach_empty_datagram");
        kani::cover!(r.is_ok() && 1 + n == max, "C19.writer.send.reach_exactly_at_limit");
        kani::cover!(r.is_err() && n == max, "C19.writer.send.reach_one_over_limit");
        core::mem::forget(r);
        core::mem::forget(w);
        core::mem::forget(o);
    }

    /// `send_bytes` behind one queued datagram: FIFO (the new one goes to the back, the old one stays in front).
    #[kani::proof]
    #[kani::stub(tracing::callsite::DefaultCallsite::interest, stub_interest)]
    #[kani::stub(tracing::__macro_support::__is_enabled, stub_is_enabled)]
    #[kani::stub(tracing::Event::dispatch, stub_dispatch)]
    #[kani::stub(<qbase::error::Error as core::clone::Clone>::clone, error_clone_stub)]
    #[kani::stub(<std::io::Error as core::convert::From<qbase::error::Error>>::from, stub_error_to_io)]
    #[kani::unwind(2)]
    #[kani::stub(qbase::net::tx::ArcSendWakers::wake_all_by, noop_wake)]
    #[kani::stub(alloc::fmt::format, stub_format)]
    fn send_bytes_keeps_order() {
        let (first, p1, n1) = any_payload();
        let o = outgoing_with(VecDeque::from([first]));
        let w = DatagramWriter { writer: o.0.clone(), max_datagram_frame_size: 1 + DMAX };
        let (second, p2, n2) = any_payload_in(2);
        assert!(w.send_bytes(second).is_ok(), "C19.writer.send.sup.fits");
        let g = o.0.lock().unwrap();
        let q = &g.as_ref().unwrap().datagrams;
        assert!(q.len() == 2, "C19.writer.send.order.appends");
        assert!(q[0].as_ptr() == p1 && q[0].len() == n1 && q[1].as_ptr() == p2 && q[1].len() == n2, "C19.writer.send.order.fifo");
        core::mem::forget(w);
    }

    /// after a connection error: `send_bytes`, `new_writer`, `max_datagram_frame_size` fail (with a BrokenPipe
    /// io::Error carrying the connection error), `try_load_data_into` emits nothing; first error wins. (C17)
    #[kani::proof]
    #[kani::stub(tracing::callsite::DefaultCallsite::interest, stub_interest)]
    #[kani::stub(tracing::__macro_support::__is_enabled, stub_is_enabled)]
    #[kani::stub(tracing::Event::dispatch, stub_dispatch)]
    #[kani::stub(<qbase::error::Error as core::clone::Clone>::clone, error_clone_stub)]
    #[kani::stub(<std::io::Error as core::convert::From<qbase::error::Error>>::from, stub_error_to_io)]
    #[kani::unwind(2)]
    #[kani::stub(qbase::net::tx::ArcSendWakers::wake_all_by, noop_wake)]
    #[kani::stub(alloc::fmt::format, stub_format)]
    fn poisoned_writer_contract() {
        let o = outgoing_with(VecDeque::new());
        let w = DatagramWriter { writer: o.0.clone(), max_datagram_frame_size: 1 + DMAX };
        let (e1, e2): (u32, u32) = (kani::any(), kani::any());
        o.on_conn_error(&Error::App(AppError::new(VarInt::from_u32(e1), "")));
        o.on_conn_error(&Error::App(AppError::new(VarInt::from_u32(e2), "")));
        let poisoned_with = match &*o.0.lock().unwrap() {
            Err(Error::App(a)) => Some(a.error_code()),
            _ => None,
        };
        assert!(poisoned_with == Some(e1 as u64), "C17.datagram.writer.first_error_wins");
        match kani::any::<u8>() % 3 {
            0 => {
                let (data, _p, _n) = any_payload();
                let r = w.send_bytes(data);
                assert!(r.as_ref().is_err_and(|e| e.kind() == io::ErrorKind::BrokenPipe), "C17.datagram.writer.send_fails_after_error");
                core::mem::forget(r);
            }
            1 => {
                let r = o.new_writer(kani::any());
                assert!(r.is_err(), "C17.datagram.writer.new_writer_fails_after_error");
                core::mem::forget(r);
            }
            _ => {
                let mut pkt = Pkt::with_space(kani::any());
                let r = o.try_load_data_into(&mut pkt);
                assert!(r == Err(Signals::empty()) && pkt.written == 0 && pkt.frames == 0, "C17.datagram.writer.nothing_emitted_after_error");
            }
        }
        core::mem::forget(w);
        core::mem::forget(o);
    }

    /// contract of `try_load_data_into(packet)` (queue: none or one datagram of L bytes; A = space left):
    ///  * nothing queued              => Err(TRANSPORT), nothing written;
    ///  * A <= L (not even type+data) => Err(CONGESTION), nothing written, datagram stays queued;
    ///  * otherwise exactly ONE frame is emitted and the datagram leaves the queue:
    ///      - its payload is the datagram, whole and unchanged, declared length == L;
    ///      - with-length form (0x31, varint L, data) if it fits, and then nothing else is written;
    ///      - length-less form (0x30, data) ONLY if the with-length form does not fit; then PADDING (zero bytes)
    ///        comes FIRST and the frame ends exactly at the end of the packet (it must be the last thing);
    ///      - never more bytes than the space left (asserted inside the packet model on every write).
    #[kani::proof]
    #[kani::unwind(9)]
    #[kani::stub(qbase::net::tx::ArcSendWakers::wake_all_by, noop_wake)]
    fn try_load_contract() {
        let (data, ptr, l) = any_payload();
        let has: bool = kani::any();
        let o = outgoing_with(if has { VecDeque::from([data]) } else { VecDeque::new() });
        let a: usize = kani::any();
        let mut pkt = Pkt::with_space(a);

        let r = o.try_load_data_into(&mut pkt);

        assert!(pkt.written <= a && pkt.space == a - pkt.written, "C19.load.never_writes_beyond_packet_space");
        if !has {
            assert!(r == Err(Signals::TRANSPORT) && pkt.written == 0 && pkt.frames == 0, "C19.load.empty_queue_emits_nothing");
        } else if a <= l {
            assert!(r == Err(Signals::CONGESTION) && pkt.written == 0 && pkt.frames == 0, "C19.load.too_small_packet_emits_nothing");
            assert!(queue_len(&o) == Some(1), "C19.load.unsent_datagram_stays_queued");
        } else {
            assert!(r.is_ok(), "C19.load.emits_when_it_fits");
            assert!(queue_len(&o) == Some(0), "C19.load.sent_datagram_leaves_queue");
            assert!(pkt.frames == 1, "C19.load.exactly_one_frame");
            let with_len_fits = a >= 1 + vsize(l) + l;
            let (enc_len, declared, dlen) = pkt.last.unwrap();
            assert!(declared == l as u64 && dlen == l, "C19.load.frame_length_is_datagram_length");
            assert!(enc_len == with_len_fits, "C19.load.lengthless_form_only_when_length_does_not_fit");
            assert!(!pkt.pad_after_write && !pkt.pad_nonzero, "C19.load.padding_comes_first");
            // first write: the frame type, one byte
            assert!(pkt.wlen[0] == 1, "C19.load.sup.type_is_one_byte");
            let payload_write;
            if with_len_fits {
                assert!(pkt.pad == 0, "C19.load.with_length_form_is_not_padded");
                assert!(pkt.wbytes[0][0] == 0x31, "C19.load.with_length_form_type_byte");
                assert!(pkt.nwrites == 3 && pkt.wlen[1] == vsize(l), "C19.load.with_length_form_writes_type_len_data");
                let lb = &pkt.wbytes[1];
                // RFC 9000 section 16: two size bits, then the value big-endian
                let mut decoded: u64 = (lb[0] & 0x3f) as u64;
                let mut k = 1;
                while k < 8 {
                    if k < vsize(l) {
                        decoded = (decoded << 8) | lb[k] as u64;
                    }
                    k += 1;
                }
                assert!(decoded == l as u64 && 1usize << (lb[0] >> 6) == vsize(l), "C19.load.length_field_is_varint_of_len");
                assert!(pkt.written == 1 + vsize(l) + l, "C19.load.with_length_form_writes_type_len_data");
                payload_write = 2;
            } else {
                assert!(pkt.wbytes[0][0] == 0x30, "C19.load.lengthless_form_type_byte");
                assert!(pkt.nwrites == 2, "C19.load.lengthless_form_writes_type_and_data");
                assert!(pkt.pad == a - 1 - l, "C19.load.lengthless_frame_is_padded_to_fill");
                assert!(pkt.written == a && pkt.space == 0, "C19.load.lengthless_frame_ends_the_packet");
                payload_write = 1;
                kani::cover!(pkt.pad > 0, "C19.load.reach_padding_before_lengthless");
            }
            assert!(pkt.wptr[payload_write] == ptr && pkt.wlen[payload_write] == l, "C19.load.payload_is_the_datagram_unchanged");
        }
        kani::cover!(has && a >= 1 + vsize(l) + l && l >= 64 && l < 16384, "C19.load.reach_two_byte_length");
        kani::cover!(has && a >= 1 + vsize(l) + l && l >= 16384 && l < (1 << 30), "C19.load.reach_four_byte_length");
        kani::cover!(has && a >= 1 + vsize(l) + l && l >= (1 << 30), "C19.load.reach_eight_byte_length");
        kani::cover!(has && a > l && a < 1 + vsize(l) + l, "C19.load.reach_lengthless");
        kani::cover!(has && a == 1 && l == 0, "C19.load.reach_empty_datagram_in_one_byte");
        kani::cover!(has && a == l && l > 0, "C19.load.reach_exactly_too_small");
        core::mem::forget(o);
    }

    /// THE PROPERTY, composed: a datagram accepted by `send_bytes` under the peer's limit M is emitted as a frame
    /// of total size <= M ("within the peer's size limit").  The with-length form costs 1 + varint(L) + L bytes,
    /// `send_bytes` only reserves 1 + L.
    /// FINDING C19.limit.emitted_frame_within_peer_max: for M - varint_size(L) <= L < M the datagram is accepted
    /// and (in a roomy packet) sent as a frame LARGER than M; a peer running this same code then closes the
    /// connection with PROTOCOL_VIOLATION (recv_datagram_contract).  Excluded here, pinned in
    /// `emitted_frame_exceeds_peer_max_finding`.
    #[kani::proof]
    #[kani::unwind(2)]
    #[kani::stub(qbase::net::tx::ArcSendWakers::wake_all_by, noop_wake)]
    #[kani::stub(alloc::fmt::format, stub_format)]
    #[kani::stub(tracing::callsite::DefaultCallsite::interest, stub_interest)]
    #[kani::stub(tracing::__macro_support::__is_enabled, stub_is_enabled)]
    #[kani::stub(tracing::Event::dispatch, stub_dispatch)]
    fn emitted_frame_within_peer_max() {
        let o = outgoing_with(VecDeque::new());
        let max: usize = kani::any();
        kani::assume(max != 0);
        let w = DatagramWriter { writer: o.0.clone(), max_datagram_frame_size: max };
        let (data, _p, l) = any_payload();
        kani::assume(w.send_bytes(data).is_ok());
        kani::assume(!(l + 1 + vsize(l) > max)); // bad region of the finding
        let mut pkt = Pkt::with_space(kani::any());
        if o.try_load_data_into(&mut pkt).is_ok() {
            let (enc_len, declared, _) = pkt.last.unwrap();
            let frame_size = 1 + if enc_len { vsize(declared as usize) } else { 0 } + declared as usize;
            assert!(frame_size <= max, "C19.limit.emitted_frame_within_peer_max");
            assert!(frame_size == pkt.written - pkt.pad, "C19.limit.sup.frame_size_accounted");
            kani::cover!(frame_size == max, "C19.limit.reach_frame_exactly_at_peer_max");
        }
        core::mem::forget(w);
        core::mem::forget(o);
    }

    #[kani::proof]
    #[kani::unwind(2)]
    #[kani::stub(qbase::net::tx::ArcSendWakers::wake_all_by, noop_wake)]
    #[kani::stub(alloc::fmt::format, stub_format)]
    #[kani::stub(tracing::callsite::DefaultCallsite::interest, stub_interest)]
    #[kani::stub(tracing::__macro_support::__is_enabled, stub_is_enabled)]
    #[kani::stub(tracing::Event::dispatch, stub_dispatch)]
    fn emitted_frame_exceeds_peer_max_finding() {
        let o = outgoing_with(VecDeque::new());
        let max: usize = kani::any();
        kani::assume(max != 0);
        let w = DatagramWriter { writer: o.0.clone(), max_datagram_frame_size: max };
        let (data, _p, l) = any_payload();
        kani::assume(w.send_bytes(data).is_ok());
        kani::assume(l + 1 + vsize(l) > max); // confined to the bad region
        let mut pkt = Pkt::with_space(kani::any());
        if o.try_load_data_into(&mut pkt).is_ok() {
            let (enc_len, declared, _) = pkt.last.unwrap();
            let frame_size = 1 + if enc_len { vsize(declared as usize) } else { 0 } + declared as usize;
            assert!(frame_size <= max, "C19.limit.emitted_frame_within_peer_max");
        }
        core::mem::forget(w);
        core::mem::forget(o);
    }
}
