// ---- spliced by /verif (contracts/c19_datagram) : contracts on the real incoming datagram queue -----------
//
// Bound: at most ONE datagram already queued.  Payload length symbolic 0..=2^32 (a `Bytes` over a static
// buffer; "unchanged" = same pointer and length, the code never copies payload bytes), local maximum any usize,
// form of the frame and the length the frame DECLARES (any varint, independent of the payload length) symbolic.
// Also carries the C16 obligations of this waiter/notifier protocol (poll_recv / recv_datagram /
// on_conn_error all run under the one Mutex of DatagramIncoming) and the C17 poison obligations.
#[cfg(kani)]
mod verif_c19_reader {
    use std::task::Context;

    use qbase::{error::AppError, varint::VarInt};

    use super::*;

    //@include ../c16_sendwaker/counting_waker.rs

    /// payload lengths are symbolic up to 4 GiB: a payload is a `Bytes` over a fresh (uninitialised) allocation of
    /// symbolic size.  None of the functions under contract reads payload bytes (they queue, clone and hand the
    /// slice on); "unchanged" is identity of (pointer, length).
    const DMAX: usize = 1 << 32;
    fn symbolic_len_slice(n: usize) -> &'static [u8] {
        unsafe {
            let p = std::alloc::alloc(std::alloc::Layout::from_size_align_unchecked(if n == 0 { 1 } else { n }, 1));
            core::slice::from_raw_parts(p, n)
        }
    }

    // `tracing::error!` expands to a callsite registration + thread-local dispatcher lookup that crashes the Kani
    // compiler (intrinsics.rs:243).  The three entry points of the expansion are stubbed: the event is disabled.
    fn stub_interest(_c: &'static tracing::callsite::DefaultCallsite) -> tracing::subscriber::Interest {
        tracing::subscriber::Interest::never()
    }
    fn stub_is_enabled(_m: &tracing::Metadata<'static>, _i: tracing::subscriber::Interest) -> bool {
        false
    }
    fn stub_dispatch<'a: 'a>(_m: &'static tracing::Metadata<'static>, _f: &'a tracing::field::ValueSet<'_>) {}

    /// stub for `<qbase::error::Error as Clone>::clone`: the derived clone copies the `Cow<'static, str>` reason
    /// (owned branch = String allocation + memcpy, which CBMC does not get through).  All errors in these
    /// harnesses are `Error::App` with an empty borrowed reason, for which this IS the clone.
    fn error_clone_stub(e: &Error) -> Error {
        match e {
            Error::App(a) => Error::App(AppError::new(VarInt::from_u64(a.error_code()).unwrap(), "")),
            Error::Quic(q) => Error::Quic(qbase::error::QuicError::with_default_fty(q.kind(), "")),
        }
    }

    /// stub for qbase's `impl From<Error> for std::io::Error` (= `io::Error::new(BrokenPipe, e)`): keeps the kind,
    /// drops the payload.  The real one boxes the error as `Box<dyn Error + Send + Sync>`; its type-erased drop
    /// function then becomes a candidate target of EVERY raw `fn(*const ())` call in the harness (every Waker
    /// clone/wake/drop), each dragging in the drop glue of all error types of the crate graph -- 15 min / 10 GB
    /// per harness.  Only `kind()` of the returned io::Error is under contract.
    fn stub_error_to_io(e: Error) -> io::Error {
        core::mem::forget(e);
        io::Error::from(io::ErrorKind::BrokenPipe)
    }

    /// stub for `format!` (human-readable text of the error; not under contract)
    fn stub_format(_args: core::fmt::Arguments<'_>) -> String {
        String::new()
    }

    fn any_payload_in(_tag: u8) -> (Bytes, usize) {
        let n: usize = kani::any();
        kani::assume(n <= DMAX);
        (Bytes::from_static(symbolic_len_slice(n)), n)
    }
    fn any_payload() -> (Bytes, usize) {
        any_payload_in(1)
    }

    /// size on the wire of a varint (RFC 9000 section 16)
    fn vsize(v: u64) -> usize {
        if v < (1 << 6) { 1 } else if v < (1 << 14) { 2 } else if v < (1 << 30) { 4 } else { 8 }
    }

    /// 0 nobody, 1 task a, 2 someone else
    fn registered(i: &DatagramIncoming, a: &Task) -> u8 {
        match i.0.lock().unwrap().as_ref().ok().and_then(|r| r.read_waker.as_ref()) {
            None => 0,
            Some(w) if a.is(w) => 1,
            Some(_) => 2,
        }
    }

    /// an arbitrary live incoming queue: any local maximum, zero or one datagram queued, reader task a asleep
    /// (its waker stored) or not
    fn any_incoming(a: &Task) -> (DatagramIncoming, usize, Option<(*const u8, usize)>, bool) {
        let local_max: usize = kani::any();
        let (q, first) = if kani::any() {
            let (d, n) = any_payload_in(2);
            let p = d.as_ptr();
            (VecDeque::from([d]), Some((p, n)))
        } else {
            (VecDeque::new(), None)
        };
        let asleep: bool = kani::any();
        let read_waker = if asleep { Some(a.waker()) } else { None };
        let i = DatagramIncoming(Arc::new(Mutex::new(Ok(RawDatagarmReader { local_max_size: local_max, rcvd_datagrams: q, read_waker }))));
        (i, local_max, first, asleep)
    }

    /// contract of `recv_datagram(frame, data)`:
    ///  size of the frame (type byte + length field if present + payload) > local max_datagram_frame_size
    ///      => Err(PROTOCOL_VIOLATION), nothing queued, nobody woken;
    ///  otherwise the payload is appended unchanged BEHIND what is queued (FIFO) and a sleeping reader is woken
    ///  exactly once.
    #[kani::proof]
    #[kani::stub(tracing::callsite::DefaultCallsite::interest, stub_interest)]
    #[kani::stub(tracing::__macro_support::__is_enabled, stub_is_enabled)]
    #[kani::stub(tracing::Event::dispatch, stub_dispatch)]
    #[kani::stub(<qbase::error::Error as core::clone::Clone>::clone, error_clone_stub)]
    #[kani::stub(<std::io::Error as core::convert::From<qbase::error::Error>>::from, stub_error_to_io)]
    #[kani::unwind(2)]
    #[kani::stub(alloc::fmt::format, stub_format)]
    fn recv_datagram_contract() {
        let a = Task::new();
        let (inc, local_max, first, asleep) = any_incoming(&a);
        let encode_len: bool = kani::any();
        let declared: u64 = kani::any();
        kani::assume(declared < (1 << 62));
        let frame = DatagramFrame::new(encode_len, VarInt::from_u64(declared).unwrap());
        let (data, n) = any_payload();
        let p = data.as_ptr();
        let wire_size = 1 + if encode_len { vsize(declared) } else { 0 } + n;

        let r = inc.recv_datagram(frame, data);

        let g = inc.0.lock().unwrap();
        let q = &g.as_ref().unwrap().rcvd_datagrams;
        let had = first.is_some() as usize;
        match &r {
            Err(e) => {
                assert!(wire_size > local_max, "C19.reader.recv.error_only_if_frame_exceeds_local_max");
                assert!(e.kind() == ErrorKind::ProtocolViolation, "C19.reader.recv.oversize_is_protocol_violation");
                assert!(q.len() == had, "C19.reader.recv.oversize_datagram_is_not_delivered");
                assert!(a.wakes() == 0, "C19.reader.recv.oversize_wakes_nobody");
            }
            Ok(()) => {
                assert!(wire_size <= local_max, "C19.reader.recv.accepted_only_within_local_max");
                assert!(q.len() == had + 1, "C19.reader.recv.queues_exactly_one_datagram");
                assert!(q[had].as_ptr() == p && q[had].len() == n, "C19.reader.recv.payload_queued_unchanged");
                if let Some((p0, n0)) = first {
                    assert!(q[0].as_ptr() == p0 && q[0].len() == n0, "C19.reader.recv.fifo_order_kept");
                }
                assert!(a.wakes() == asleep as u32, "C16.dgram_reader.recv_datagram_wakes_sleeping_reader_once");
                assert!(g.as_ref().unwrap().read_waker.is_none(), "C16.dgram_reader.sup.waker_consumed");
            }
        }
        kani::cover!(r.is_err() && wire_size == local_max + 1, "C19.reader.recv.reach_one_over_limit");
        kani::cover!(r.is_ok() && wire_size == local_max, "C19.reader.recv.reach_exactly_at_limit");
        kani::cover!(r.is_ok() && asleep && first.is_some(), "C19.reader.recv.reach_second_datagram_wakes");
        kani::cover!(r.is_err() && local_max == 0, "C19.reader.recv.reach_extension_disabled_locally");
        kani::cover!(r.is_ok() && encode_len && declared != n as u64, "C19.reader.recv.reach_declared_length_differs");
        drop(g);
        core::mem::forget(r);
        core::mem::forget(inc);
    }

    /// contract of `poll_recv` by task a (C16: Pending => the caller's waker is stored; C19: FIFO, unchanged).
    #[kani::proof]
    #[kani::stub(tracing::callsite::DefaultCallsite::interest, stub_interest)]
    #[kani::stub(tracing::__macro_support::__is_enabled, stub_is_enabled)]
    #[kani::stub(tracing::Event::dispatch, stub_dispatch)]
    #[kani::stub(<qbase::error::Error as core::clone::Clone>::clone, error_clone_stub)]
    #[kani::stub(<std::io::Error as core::convert::From<qbase::error::Error>>::from, stub_error_to_io)]
    #[kani::unwind(2)]
    fn poll_recv_contract() {
        let a = Task::new();
        let (inc, _local_max, first, _asleep) = any_incoming(&a);
        let reader = DatagramReader(inc.0.clone());
        let w = a.waker();
        let mut cx = Context::from_waker(&w);

        let r = reader.poll_recv(&mut cx);

        match (first, &r) {
            (Some((p0, n0)), std::task::Poll::Ready(Ok(b))) => {
                assert!(b.as_ptr() == p0 && b.len() == n0, "C19.reader.poll.delivers_front_datagram_unchanged");
                assert!(inc.0.lock().unwrap().as_ref().unwrap().rcvd_datagrams.is_empty(), "C19.reader.poll.delivered_datagram_leaves_queue");
            }
            (None, std::task::Poll::Pending) => {
                assert!(registered(&inc, &a) == 1, "C16.dgram_reader.pending_registers_callers_waker");
            }
            _ => assert!(false, "C19.reader.poll.ready_iff_datagram_queued"),
        }
        assert!(a.wakes() == 0, "C16.dgram_reader.poll_wakes_nobody");
        kani::cover!(first.is_some(), "C19.reader.poll.reach_ready");
        kani::cover!(first.is_none(), "C19.reader.poll.reach_pending");
        core::mem::forget(r);
        core::mem::forget(reader);
        core::mem::forget(inc);
    }

    /// contract of `on_conn_error(e)` and of everything after it (C17 + "closing wakes every sleeper"):
    /// a sleeping reader is woken once; the queue is poisoned with the FIRST error; poll_recv / new_reader /
    /// recv_datagram then fail with it and nothing more is delivered.
    #[kani::proof]
    #[kani::stub(tracing::callsite::DefaultCallsite::interest, stub_interest)]
    #[kani::stub(tracing::__macro_support::__is_enabled, stub_is_enabled)]
    #[kani::stub(tracing::Event::dispatch, stub_dispatch)]
    #[kani::stub(<qbase::error::Error as core::clone::Clone>::clone, error_clone_stub)]
    #[kani::stub(<std::io::Error as core::convert::From<qbase::error::Error>>::from, stub_error_to_io)]
    #[kani::unwind(2)]
    #[kani::stub(alloc::fmt::format, stub_format)]
    fn on_conn_error_contract() {
        let a = Task::new();
        let (inc, _local_max, _first, asleep) = any_incoming(&a);
        let reader = DatagramReader(inc.0.clone());
        let (e1, e2): (u32, u32) = (kani::any(), kani::any());

        inc.on_conn_error(&Error::App(AppError::new(VarInt::from_u32(e1), "")));
        assert!(a.wakes() == asleep as u32, "C16.dgram_reader.conn_error_wakes_sleeping_reader_once");
        inc.on_conn_error(&Error::App(AppError::new(VarInt::from_u32(e2), "")));
        assert!(a.wakes() == asleep as u32, "C16.dgram_reader.sup.second_error_wakes_nobody");
        let poisoned_with = match &*inc.0.lock().unwrap() {
            Err(Error::App(x)) => Some(x.error_code()),
            _ => None,
        };
        assert!(poisoned_with == Some(e1 as u64), "C17.datagram.reader.first_error_wins");

        match kani::any::<u8>() % 3 {
            0 => {
                let w = a.waker();
                let mut cx = Context::from_waker(&w);
                let r = reader.poll_recv(&mut cx);
                assert!(matches!(&r, std::task::Poll::Ready(Err(e)) if e.kind() == io::ErrorKind::BrokenPipe), "C17.datagram.reader.poll_fails_after_error");
                core::mem::forget(r);
            }
            1 => {
                let r = inc.new_reader();
                assert!(r.is_err(), "C17.datagram.reader.new_reader_fails_after_error");
                core::mem::forget(r);
            }
            _ => {
                let (data, _n) = any_payload();
                let r = inc.recv_datagram(DatagramFrame::new(false, VarInt::from_u32(0)), data);
                assert!(matches!(&r, Err(Error::App(x)) if x.error_code() == e1 as u64), "C17.datagram.reader.recv_after_error_is_refused_with_first_error");
                core::mem::forget(r);
            }
        }
        kani::cover!(asleep && e1 != e2, "C17.datagram.reader.reach_sleeper_and_two_errors");
        core::mem::forget(reader);
        core::mem::forget(inc);
    }

    /// `new_reader`: local maximum 0 (extension not offered) => Unsupported.
    #[kani::proof]
    #[kani::stub(tracing::callsite::DefaultCallsite::interest, stub_interest)]
    #[kani::stub(tracing::__macro_support::__is_enabled, stub_is_enabled)]
    #[kani::stub(tracing::Event::dispatch, stub_dispatch)]
    #[kani::stub(<qbase::error::Error as core::clone::Clone>::clone, error_clone_stub)]
    #[kani::stub(<std::io::Error as core::convert::From<qbase::error::Error>>::from, stub_error_to_io)]
    #[kani::unwind(2)]
    fn new_reader_contract() {
        let local_max: usize = kani::any();
        let inc = DatagramIncoming::new(local_max);
        let r = inc.new_reader();
        assert!(r.is_ok() == (local_max != 0), "C19.reader.new_reader.refused_iff_local_max_is_zero");
        if let Err(e) = &r {
            assert!(e.kind() == io::ErrorKind::Unsupported, "C19.reader.new_reader.zero_means_unsupported");
        }
        core::mem::forget(r);
        core::mem::forget(inc);
    }

    /// C16, inductive step for the single reader a (invariant while a sleeps: its waker is stored and the queue is
    /// empty -- established by a Pending poll, see poll_recv_contract): a datagram that arrives, or a connection
    /// error, wakes a, and a's next poll observes it.
    #[kani::proof]
    #[kani::stub(tracing::callsite::DefaultCallsite::interest, stub_interest)]
    #[kani::stub(tracing::__macro_support::__is_enabled, stub_is_enabled)]
    #[kani::stub(tracing::Event::dispatch, stub_dispatch)]
    #[kani::stub(<qbase::error::Error as core::clone::Clone>::clone, error_clone_stub)]
    #[kani::stub(<std::io::Error as core::convert::From<qbase::error::Error>>::from, stub_error_to_io)]
    #[kani::unwind(2)]
    #[kani::stub(alloc::fmt::format, stub_format)]
    fn lemma_no_lost_wakeup() {
        let a = Task::new();
        let inc = DatagramIncoming(Arc::new(Mutex::new(Ok(RawDatagarmReader {
            local_max_size: 1 + DMAX,
            rcvd_datagrams: VecDeque::new(),
            read_waker: Some(a.waker()),
        }))));
        let reader = DatagramReader(inc.0.clone());
        let w = a.waker();
        let mut cx = Context::from_waker(&w);
        if kani::any() {
            let (data, n) = any_payload();
            let p = data.as_ptr();
            assert!(inc.recv_datagram(DatagramFrame::new(false, VarInt::from_u32(n as u32)), data).is_ok(), "C16.dgram_reader.sup.fits");
            assert!(a.wakes() == 1, "C16.dgram_reader.no_lost_wakeup.datagram_wakes_sleeper");
            let r = reader.poll_recv(&mut cx);
            assert!(matches!(&r, std::task::Poll::Ready(Ok(b)) if b.as_ptr() == p && b.len() == n), "C16.dgram_reader.no_lost_wakeup.woken_reader_gets_the_datagram");
            core::mem::forget(r);
        } else {
            inc.on_conn_error(&Error::App(AppError::new(VarInt::from_u32(kani::any()), "")));
            assert!(a.wakes() == 1, "C16.dgram_reader.no_lost_wakeup.conn_error_wakes_sleeper");
            let r = reader.poll_recv(&mut cx);
            assert!(matches!(&r, std::task::Poll::Ready(Err(_))), "C16.dgram_reader.no_lost_wakeup.woken_reader_sees_error");
            core::mem::forget(r);
        }
        core::mem::forget(reader);
        core::mem::forget(inc);
    }
}
