    // ---- a packet buffer for the generic target `P` of try_load_data_into (contracts/c19_datagram) -----
    // `P: BufMut + RecordFrame<Frame<Bytes>, Bytes>`; the real targets (PacketWriter of qbase / qconnection)
    // need keys and headers.  This one is a plain byte array with a symbolic amount of space left, which
    // implements only the three REQUIRED methods of `BufMut` (put_slice / put_bytes / put_u8.. are bytes'
    // own default methods, verified as compiled code) and records what `record_frame` is told.
    const CAP: usize = 12;
    pub(crate) struct Pkt {
        pub buf: [u8; CAP],
        pub len: usize,
        pub limit: usize,
        pub frames: u32,
        pub last: Option<(bool, u64, usize)>, // (encode_len, declared len, data.len()) of the last frame
    }
    unsafe impl BufMut for Pkt {
        fn remaining_mut(&self) -> usize {
            self.limit - self.len
        }
        unsafe fn advance_mut(&mut self, cnt: usize) {
            assert!(cnt <= self.limit - self.len, "C19.sup.pkt_model_advance_within_space");
            self.len += cnt;
        }
        fn chunk_mut(&mut self) -> &mut bytes::buf::UninitSlice {
            let (len, limit) = (self.len, self.limit);
            bytes::buf::UninitSlice::new(&mut self.buf[len..limit])
        }
    }
    impl qbase::packet::RecordFrame<qbase::frame::Frame<Bytes>, Bytes> for Pkt {
        fn record_frame(&mut self, frame: &qbase::frame::Frame<Bytes>) {
            self.frames += 1;
            if let qbase::frame::Frame::Datagram(f, d) = frame {
                self.last = Some((f.encode_len(), f.len().into_u64(), d.len()));
            }
        }
    }
    impl Pkt {
        /// a packet with `used` bytes already written and room up to `limit` (both symbolic)
        pub fn any() -> Pkt {
            let len: usize = kani::any();
            let limit: usize = kani::any();
            kani::assume(len <= limit && limit <= CAP);
            Pkt { buf: [0xEE; CAP], len, limit, frames: 0, last: None }
        }
    }
