    // ---- a packet target for the generic `P` of try_load_data_into (contracts/c19_datagram) ---------------
    // `P: BufMut + RecordFrame<Frame<Bytes>, Bytes>`; the real targets (PacketWriter of qbase / qconnection) need
    // keys and headers.  This one has a symbolic amount of space and RECORDS what is written into it instead of
    // storing the bytes: the order of the writes, how many PADDING bytes came first, the bytes of every small
    // write (frame type, length field), and for the payload write the identity (pointer, length) of the slice.
    // "payload == the datagram, unchanged" is then pointer identity with the queued `Bytes` -- no byte copy, so
    // payload lengths up to 70_000 (1-, 2- and 4-byte length fields) are covered.
    // `put_u8/put_u16/put_u32/..` are bytes' own default methods (they call `put_slice`).
    pub(crate) const MAXW: usize = 4;
    pub(crate) struct Pkt {
        pub space: usize,                 // remaining_mut()
        pub written: usize,               // bytes written so far
        pub pad: usize,                   // zero bytes written by put_bytes(0, n)
        pub pad_calls: u32,
        pub pad_after_write: bool,        // a put_bytes came after some put_slice
        pub pad_nonzero: bool,            // put_bytes with a value other than 0
        pub nwrites: usize,               // number of put_slice calls
        pub wptr: [*const u8; MAXW],      // their source pointers,
        pub wlen: [usize; MAXW],          // lengths,
        pub wbytes: [[u8; 8]; MAXW],      // and contents (writes of <= 8 bytes only)
        pub frames: u32,                  // record_frame calls
        pub last: Option<(bool, u64, usize)>, // (encode_len, declared len, data.len()) of the last recorded frame
    }
    unsafe impl BufMut for Pkt {
        fn remaining_mut(&self) -> usize {
            self.space
        }
        unsafe fn advance_mut(&mut self, _cnt: usize) {
            unreachable!("C19.sup.pkt_model: every write goes through put_slice / put_bytes");
        }
        fn chunk_mut(&mut self) -> &mut bytes::buf::UninitSlice {
            unreachable!("C19.sup.pkt_model: every write goes through put_slice / put_bytes");
        }
        fn put_slice(&mut self, src: &[u8]) {
            assert!(src.len() <= self.space, "C19.load.never_writes_beyond_packet_space");
            assert!(self.nwrites < MAXW, "C19.sup.pkt_model_at_most_four_writes");
            let k = self.nwrites;
            self.wptr[k] = src.as_ptr();
            self.wlen[k] = src.len();
            // contents of small writes (unrolled: no loop for the verifier)
            let n = src.len();
            if n <= 8 {
                if n > 0 { self.wbytes[k][0] = src[0]; }
                if n > 1 { self.wbytes[k][1] = src[1]; }
                if n > 2 { self.wbytes[k][2] = src[2]; }
                if n > 3 { self.wbytes[k][3] = src[3]; }
                if n > 4 { self.wbytes[k][4] = src[4]; }
                if n > 5 { self.wbytes[k][5] = src[5]; }
                if n > 6 { self.wbytes[k][6] = src[6]; }
                if n > 7 { self.wbytes[k][7] = src[7]; }
            }
            self.nwrites += 1;
            self.space -= src.len();
            self.written += src.len();
        }
        fn put_bytes(&mut self, val: u8, cnt: usize) {
            assert!(cnt <= self.space, "C19.load.never_writes_beyond_packet_space");
            self.pad_calls += 1;
            self.pad_after_write |= self.nwrites > 0;
            self.pad_nonzero |= val != 0 && cnt > 0;
            self.pad += cnt;
            self.space -= cnt;
            self.written += cnt;
        }
    }
    impl qbase::packet::RecordFrame<qbase::frame::Frame<Bytes>, Bytes> for Pkt {
        fn record_frame(&mut self, frame: &qbase::frame::Frame<Bytes>) {
            self.frames += 1;
            if let qbase::frame::Frame::Datagram(f, d) = frame {
                self.last = Some((f.encode_len(), f.len().into_u64(), d.len()));
            }
        }
    }
    impl Pkt {
        pub fn with_space(space: usize) -> Pkt {
            Pkt {
                space,
                written: 0,
                pad: 0,
                pad_calls: 0,
                pad_after_write: false,
                pad_nonzero: false,
                nwrites: 0,
                wptr: [core::ptr::null(); MAXW],
                wlen: [0; MAXW],
                wbytes: [[0; 8]; MAXW],
                frames: 0,
                last: None,
            }
        }
    }
