// ---- spliced by /verif (contracts/c12_direction) : direction / stream-limit decisions of the real frame dispatcher ----
#[cfg(kani)]
mod verif_c12_direction {
    use qbase::{
        error::ErrorFrameType,
        frame::{MaxStreamDataFrame, StopSendingFrame, StreamDataBlockedFrame},
        sid::handy::ConsistentConcurrency,
    };

    use super::*;

    //@include ../_shared/kani_stubs.rs

    /// stub for `format!` / `Display`-driven `to_string()` (only the human readable reason of an error)
    fn stub_format(_args: core::fmt::Arguments<'_>) -> String {
        String::new()
    }

    fn stub_fmt_write(_out: &mut dyn core::fmt::Write, _args: core::fmt::Arguments<'_>) -> core::fmt::Result {
        Ok(())
    }

    /// stub for `DataStreams::try_accept_sid` in the harnesses where it must NOT be reached (frames on our own streams,
    /// and direction errors that are detected before the accept): reaching it fails the obligation. It cuts the
    /// stream-creation loop (HashMap/BTreeMap/VecDeque inserts) out of the symbolic execution.
    fn never_accept<TX>(_ds: &DataStreams<TX>, _sid: StreamId) -> Result<(), ExceedLimitError>
    where
        TX: SendFrame<StreamCtlFrame> + Clone + Send + 'static,
    {
        assert!(false, "C12.direction.no_stream_is_accepted_on_this_path");
        kani::assume(false);
        Ok(())
    }

    /// stubs for `DataStreams::{create_sender, create_recver}` where no stream may be created (refused stream id)
    fn never_create_sender<TX>(_ds: &DataStreams<TX>, _sid: StreamId, _buf_size: u64) -> ArcSender<Ext<TX>>
    where
        TX: SendFrame<StreamCtlFrame> + Clone + Send + 'static,
    {
        assert!(false, "C12.direction.refused_stream_creates_no_sender");
        kani::assume(false);
        unreachable!()
    }

    fn never_create_recver<TX>(_ds: &DataStreams<TX>, _sid: StreamId, _buf_size: u64) -> ArcRecver<Ext<TX>>
    where
        TX: SendFrame<StreamCtlFrame> + Clone + Send + 'static,
    {
        assert!(false, "C12.direction.refused_stream_creates_no_receiver");
        kani::assume(false);
        unreachable!()
    }

    /// stub for `RandomState::new` (keys of the HashMap input table come from a `getrandom` syscall that Kani cannot
    /// execute): fixed keys. RandomState is `{ k0: u64, k1: u64 }`; no contract depends on the key values.
    fn fixed_random_state() -> std::hash::RandomState {
        unsafe { core::mem::transmute::<[u64; 2], std::hash::RandomState>([0, 0]) }
    }

    /// frame sink for the generic `TX`; frames sent by the dispatcher are not observed in this unit
    #[derive(Debug, Clone)]
    struct Sink;

    impl SendFrame<StreamCtlFrame> for Sink {
        fn send_frame<I: IntoIterator<Item = StreamCtlFrame>>(&self, iter: I) {
            let mut it = iter.into_iter();
            let _ = it.next();
        }
    }

    fn any_role() -> Role {
        if kani::any() { Role::Client } else { Role::Server }
    }

    fn any_sid() -> StreamId {
        let raw: u64 = kani::any();
        kani::assume(raw < (1 << 62));
        StreamId::from(VarInt::from_u64(raw).unwrap())
    }

    fn any_varint() -> VarInt {
        let v: u64 = kani::any();
        kani::assume(v < (1 << 62));
        VarInt::from_u64(v).unwrap()
    }

    /// a `DataStreams` with empty stream tables: local role `role`; the peer may open `max_bi` / `max_uni`
    /// streams (our initial_max_streams_*); we may open none yet
    fn fresh_streams(role: Role, max_bi: u64, max_uni: u64) -> DataStreams<Sink> {
        DataStreams {
            ctrl_frames: Sink,
            role,
            stream_ids: StreamIds::new(
                role,
                max_bi,
                max_uni,
                0,
                0,
                Ext(Sink),
                Box::new(ConsistentConcurrency::new(max_bi, max_uni)),
                ArcSendWakers::default(),
            ),
            output: ArcOutput::new(),
            input: ArcInput::default(),
            listener: ArcListener::new(),
            tls_fin: AtomicBool::new(false),
            tx_wakers: ArcSendWakers::default(),
            initial_max_stream_data_bidi_local: kani::any(),
            initial_max_stream_data_bidi_remote: kani::any(),
            initial_max_stream_data_uni: kani::any(),
            metrics: None,
        }
    }

    #[derive(Clone, Copy, PartialEq, Eq)]
    enum Kind {
        Stream,
        Reset,
        StopSending,
        MaxStreamData,
        DataBlocked,
    }

    /// RESET_STREAM is handled by separate (thorough-tier) harnesses: its path does `HashMap::remove(&sid)` on the
    /// input table, i.e. SipHash of a symbolic key, which costs CBMC > 20 min
    fn any_kind_but_reset() -> Kind {
        match kani::any::<u8>() % 4 {
            0 => Kind::Stream,
            1 => Kind::StopSending,
            2 => Kind::MaxStreamData,
            _ => Kind::DataBlocked,
        }
    }

    /// SPEC (RFC 9000 2.1, 19.4, 19.5, 19.8, 19.10, 19.13): does a frame of this kind from the peer contradict the
    /// direction of stream `sid`, seen from an endpoint with role `me`?
    ///   STREAM / RESET_STREAM / STREAM_DATA_BLOCKED are sent by the sending side of a stream:
    ///        illegal on a stream only WE may send on  (initiated by us, unidirectional)
    ///   STOP_SENDING / MAX_STREAM_DATA are sent by the receiving side:
    ///        illegal on a stream only the PEER may send on (initiated by the peer, unidirectional)
    fn contradicts_direction(kind: Kind, sid: StreamId, me: Role) -> bool {
        let uni = sid.dir() == Dir::Uni;
        let ours = sid.role() == me;
        match kind {
            Kind::Stream | Kind::Reset | Kind::DataBlocked => uni && ours,
            Kind::StopSending | Kind::MaxStreamData => uni && !ours,
        }
    }

    /// feed one frame of the chosen kind on stream `sid` to the real dispatcher
    fn deliver(ds: &DataStreams<Sink>, kind: Kind, sid: StreamId) -> (Result<usize, QuicError>, ErrorFrameType) {
        match kind {
            Kind::Stream => {
                let mut f = StreamFrame::new(sid, any_varint().into_u64(), 0);
                f.set_eos_flag(kani::any());
                let ft = ErrorFrameType::from(f.frame_type());
                (ds.recv_data((f, Bytes::new())), ft)
            }
            Kind::Reset => deliver_reset(ds, sid),
            Kind::StopSending => {
                let f = StopSendingFrame::new(sid, any_varint());
                (ds.recv_stream_control(StreamCtlFrame::StopSending(f)), ErrorFrameType::from(f.frame_type()))
            }
            Kind::MaxStreamData => {
                let f = MaxStreamDataFrame::new(sid, any_varint());
                (ds.recv_stream_control(StreamCtlFrame::MaxStreamData(f)), ErrorFrameType::from(f.frame_type()))
            }
            Kind::DataBlocked => {
                let f = StreamDataBlockedFrame::new(sid, any_varint());
                (ds.recv_stream_control(StreamCtlFrame::StreamDataBlocked(f)), ErrorFrameType::from(f.frame_type()))
            }
        }
    }

    /// same without the RESET_STREAM arm (see any_kind_but_reset); feed one frame of the chosen kind on stream `sid` to the real dispatcher
    fn deliver_no_reset(ds: &DataStreams<Sink>, kind: Kind, sid: StreamId) -> (Result<usize, QuicError>, ErrorFrameType) {
        match kind {
            Kind::Stream => {
                let mut f = StreamFrame::new(sid, any_varint().into_u64(), 0);
                f.set_eos_flag(kani::any());
                let ft = ErrorFrameType::from(f.frame_type());
                (ds.recv_data((f, Bytes::new())), ft)
            }
            Kind::Reset => unreachable!(),
            Kind::StopSending => {
                let f = StopSendingFrame::new(sid, any_varint());
                (ds.recv_stream_control(StreamCtlFrame::StopSending(f)), ErrorFrameType::from(f.frame_type()))
            }
            Kind::MaxStreamData => {
                let f = MaxStreamDataFrame::new(sid, any_varint());
                (ds.recv_stream_control(StreamCtlFrame::MaxStreamData(f)), ErrorFrameType::from(f.frame_type()))
            }
            Kind::DataBlocked => {
                let f = StreamDataBlockedFrame::new(sid, any_varint());
                (ds.recv_stream_control(StreamCtlFrame::StreamDataBlocked(f)), ErrorFrameType::from(f.frame_type()))
            }
        }
    }

    fn deliver_reset(ds: &DataStreams<Sink>, sid: StreamId) -> (Result<usize, QuicError>, ErrorFrameType) {
        let f = ResetStreamFrame::new(sid, any_varint(), any_varint());
        (ds.recv_stream_control(StreamCtlFrame::ResetStream(f)), ErrorFrameType::from(f.frame_type()))
    }

    /// C12 "sends on a stream it may only receive on => STREAM_STATE_ERROR": every frame kind, every stream id,
    /// both roles, any stream limits
    #[kani::proof]
    #[kani::unwind(3)]
    #[kani::stub(qevent::telemetry::macro_support::build_and_emit_event, noop_emit)]
    #[kani::stub(std::fmt::format, stub_format)]
    #[kani::stub(core::fmt::write, stub_fmt_write)]
    #[kani::stub(std::hash::RandomState::new, fixed_random_state)]
    #[kani::stub(DataStreams::try_accept_sid, never_accept)]
    fn direction_violation_contract() {
        let kind = any_kind_but_reset();
        let role = any_role();
        let ds = fresh_streams(role, kani::any(), kani::any());
        let sid = any_sid();
        kani::assume(contradicts_direction(kind, sid, role));
        let (res, ft) = deliver_no_reset(&ds, kind, sid);
        match res {
            Err(e) => {
                assert!(e.kind() == ErrorKind::StreamState, "C12.direction.wrong_direction_is_stream_state_error");
                assert!(e.frame_type() == ft, "C12.direction.error_names_frame_type");
            }
            Ok(_) => assert!(false, "C12.direction.wrong_direction_is_refused"),
        }
        kani::cover!(kind == Kind::Stream, "C12.direction.reach_stream_on_own_uni");
        kani::cover!(kind == Kind::DataBlocked, "C12.direction.reach_blocked_on_own_uni");
        kani::cover!(kind == Kind::StopSending, "C12.direction.reach_stop_sending_on_peer_uni");
        kani::cover!(kind == Kind::MaxStreamData, "C12.direction.reach_max_stream_data_on_peer_uni");
        core::mem::forget(ds);
    }

    #[kani::proof]
    #[kani::unwind(3)]
    #[kani::stub(qevent::telemetry::macro_support::build_and_emit_event, noop_emit)]
    #[kani::stub(std::fmt::format, stub_format)]
    #[kani::stub(core::fmt::write, stub_fmt_write)]
    #[kani::stub(std::hash::RandomState::new, fixed_random_state)]
    #[kani::stub(DataStreams::try_accept_sid, never_accept)]
    fn direction_violation_contract_reset() {
        let kind = Kind::Reset;
        let role = any_role();
        let ds = fresh_streams(role, kani::any(), kani::any());
        let sid = any_sid();
        kani::assume(contradicts_direction(kind, sid, role));
        let (res, ft) = deliver(&ds, kind, sid);
        match res {
            Err(e) => {
                assert!(e.kind() == ErrorKind::StreamState, "C12.direction.wrong_direction_is_stream_state_error");
                assert!(e.frame_type() == ft, "C12.direction.error_names_frame_type");
            }
            Ok(_) => assert!(false, "C12.direction.wrong_direction_is_refused"),
        }
        kani::cover!(kind == Kind::Reset, "C12.direction.reach_reset_on_own_uni");
        kani::cover!(sid.dir() == Dir::Bi || sid.role() == role, "C12.direction.reset.reach");
        core::mem::forget(ds);
    }

    /// C12 "uses a stream beyond the advertised count => STREAM_LIMIT_ERROR": any frame kind that is legal for the
    /// direction, on a peer-initiated stream whose index is ABOVE the advertised count (index == count is the
    /// known off-by-one of RemoteStreamIds::try_accept_sid, pinned in c12_sid_remote)
    #[kani::proof]
    #[kani::unwind(3)]
    #[kani::stub(qevent::telemetry::macro_support::build_and_emit_event, noop_emit)]
    #[kani::stub(std::fmt::format, stub_format)]
    #[kani::stub(core::fmt::write, stub_fmt_write)]
    #[kani::stub(std::hash::RandomState::new, fixed_random_state)]
    #[kani::stub(DataStreams::create_sender, never_create_sender)]
    #[kani::stub(DataStreams::create_recver, never_create_recver)]
    fn stream_limit_contract() {
        let kind = any_kind_but_reset();
        let role = any_role();
        let max_bi: u64 = kani::any();
        let max_uni: u64 = kani::any();
        let ds = fresh_streams(role, max_bi, max_uni);
        let sid = any_sid();
        kani::assume(!contradicts_direction(kind, sid, role));
        kani::assume(sid.role() != role);
        kani::assume(sid.id() > if sid.dir() == Dir::Bi { max_bi } else { max_uni });
        let (res, ft) = deliver_no_reset(&ds, kind, sid);
        match res {
            Err(e) => {
                assert!(e.kind() == ErrorKind::StreamLimit, "C12.direction.beyond_stream_count_is_stream_limit_error");
                assert!(e.frame_type() == ft, "C12.direction.limit_error_names_frame_type");
            }
            Ok(_) => assert!(false, "C12.direction.beyond_stream_count_is_refused"),
        }
        kani::cover!(kind == Kind::Stream && sid.dir() == Dir::Uni, "C12.direction.reach_limit_stream_uni");
        kani::cover!(kind == Kind::StopSending && sid.dir() == Dir::Bi, "C12.direction.reach_limit_stop_sending_bi");
        kani::cover!(max_bi == 0 && sid.dir() == Dir::Bi, "C12.direction.reach_limit_zero");
        core::mem::forget(ds);
    }

    #[kani::proof]
    #[kani::unwind(3)]
    #[kani::stub(qevent::telemetry::macro_support::build_and_emit_event, noop_emit)]
    #[kani::stub(std::fmt::format, stub_format)]
    #[kani::stub(core::fmt::write, stub_fmt_write)]
    #[kani::stub(std::hash::RandomState::new, fixed_random_state)]
    #[kani::stub(DataStreams::create_sender, never_create_sender)]
    #[kani::stub(DataStreams::create_recver, never_create_recver)]
    fn stream_limit_contract_reset() {
        let kind = Kind::Reset;
        let role = any_role();
        let max_bi: u64 = kani::any();
        let max_uni: u64 = kani::any();
        let ds = fresh_streams(role, max_bi, max_uni);
        let sid = any_sid();
        kani::assume(!contradicts_direction(kind, sid, role));
        kani::assume(sid.role() != role);
        kani::assume(sid.id() > if sid.dir() == Dir::Bi { max_bi } else { max_uni });
        let (res, ft) = deliver(&ds, kind, sid);
        match res {
            Err(e) => {
                assert!(e.kind() == ErrorKind::StreamLimit, "C12.direction.beyond_stream_count_is_stream_limit_error");
                assert!(e.frame_type() == ft, "C12.direction.limit_error_names_frame_type");
            }
            Ok(_) => assert!(false, "C12.direction.beyond_stream_count_is_refused"),
        }
        kani::cover!(max_bi == 0 && sid.dir() == Dir::Bi, "C12.direction.reach_limit_zero");
        kani::cover!(sid.dir() == Dir::Bi || sid.role() == role, "C12.direction.reset.reach");
        core::mem::forget(ds);
    }

    /// no false alarms: a frame that fits the direction, on a stream WE initiated, is never answered with an error
    /// by the dispatcher itself (the tables are empty here: the stream is unknown / already closed => ignored)
    #[kani::proof]
    #[kani::unwind(3)]
    #[kani::stub(qevent::telemetry::macro_support::build_and_emit_event, noop_emit)]
    #[kani::stub(std::fmt::format, stub_format)]
    #[kani::stub(core::fmt::write, stub_fmt_write)]
    #[kani::stub(std::hash::RandomState::new, fixed_random_state)]
    #[kani::stub(DataStreams::try_accept_sid, never_accept)]
    fn legal_frame_on_own_stream_contract() {
        let kind = any_kind_but_reset();
        let role = any_role();
        let ds = fresh_streams(role, kani::any(), kani::any());
        let sid = any_sid();
        kani::assume(!contradicts_direction(kind, sid, role));
        kani::assume(sid.role() == role);
        let (res, _ft) = deliver_no_reset(&ds, kind, sid);
        assert!(matches!(res, Ok(0)), "C12.direction.legal_frame_on_own_stream_not_refused");
        kani::cover!(kind == Kind::StopSending && sid.dir() == Dir::Uni, "C12.direction.reach_stop_sending_own_uni");
        kani::cover!(kind == Kind::Stream && sid.dir() == Dir::Bi, "C12.direction.reach_stream_own_bidi");
        core::mem::forget(ds);
    }

    #[kani::proof]
    #[kani::unwind(3)]
    #[kani::stub(qevent::telemetry::macro_support::build_and_emit_event, noop_emit)]
    #[kani::stub(std::fmt::format, stub_format)]
    #[kani::stub(core::fmt::write, stub_fmt_write)]
    #[kani::stub(std::hash::RandomState::new, fixed_random_state)]
    #[kani::stub(DataStreams::try_accept_sid, never_accept)]
    fn legal_frame_on_own_stream_contract_reset() {
        let kind = Kind::Reset;
        let role = any_role();
        let ds = fresh_streams(role, kani::any(), kani::any());
        let sid = any_sid();
        kani::assume(!contradicts_direction(kind, sid, role));
        kani::assume(sid.role() == role);
        let (res, _ft) = deliver(&ds, kind, sid);
        assert!(matches!(res, Ok(0)), "C12.direction.legal_frame_on_own_stream_not_refused");
        kani::cover!(sid.dir() == Dir::Bi || sid.role() == role, "C12.direction.reset.reach");
        core::mem::forget(ds);
    }
}
