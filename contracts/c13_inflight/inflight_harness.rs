// ---- spliced by /verif (contracts/c13_inflight) : bytes-in-flight accounting of the real NewReno ----
// Property C13: "the bytes counted in flight always equal the sizes of the packets still outstanding".
// The sum over the per-space VecDeque<SentPacket> is outside Kani; the scalar halves are contracted so that
// the sum argument is a composition of these clauses:
//   ghost OUT = multiset of records with count_for_cc && state == Inflight;  invariant  bif == sum(OUT.sent_bytes)
//   send (in_flight)         : OUT += p,  bif += p.sent_bytes                      (on_packet_sent_cc)
//   ack of p in OUT          : OUT -= p,  bif -= p.sent_bytes                      (on_packet_acked, p Inflight)
//   ack of p not in OUT      : unchanged                                           (on_packet_acked, p Retransmitted / !count_for_cc)
//   loss of L subset of OUT  : OUT -= L,  bif -= sum(L)                            (on_packets_lost; caller sets Retransmitted)
//   discard of D subset OUT  : OUT -= D,  bif -= sum(D)                            (remove_from_bytes_in_flight)
// Because p in OUT implies p.sent_bytes <= bif (and sum(L) <= bif), the subtractions never go below zero: the
// contracts state the *un*-saturated equality under exactly that ghost precondition, so a `saturating_sub`
// cannot hide a mismatch, and the plain `-=` in remove_from_bytes_in_flight is an obligation (no underflow).
#[cfg(kani)]
mod verif_c13_inflight {
    use super::*;

    //@include ../_shared/kani_stubs.rs

    fn any_opt_instant() -> Option<Instant> {
        if kani::any() { Some(any_instant()) } else { None }
    }

    fn any_reno() -> (NewReno, usize) {
        let mtu: u16 = kani::any();
        kani::assume(mtu >= 1200); // RFC 9000 §14 / Path::new (MSS)
        let r = NewReno {
            max_datagram_size: Arc::new(AtomicU16::new(mtu)),
            ecn_ce_counters: kani::any(),
            bytes_in_flight: kani::any(),
            congestion_window: kani::any(),
            congestion_recovery_start_time: any_opt_instant(),
            ssthresh: kani::any(),
        };
        // type invariant of NewReno (contracted in c13_newreno): cwnd >= 2 * max_datagram_size
        kani::assume(r.congestion_window >= 2 * mtu as usize && r.congestion_window <= 1usize << 62);
        (r, mtu as usize)
    }

    fn any_state() -> State {
        match kani::any::<u8>() % 3 {
            0 => State::Inflight,
            1 => State::Acked,
            _ => State::Retransmitted,
        }
    }

    fn any_packet() -> SentPacket {
        let p = SentPacket {
            packet_number: kani::any(),
            time_sent: any_instant(),
            ack_eliciting: kani::any(),
            sent_bytes: kani::any(),
            state: any_state(),
            count_for_cc: kani::any(),
        };
        kani::assume(p.sent_bytes <= u16::MAX as usize); // built in a buffer of at most pmtu (u16) bytes
        p
    }

    /// B.4 OnPacketSentCC: adds exactly the packet's size; touches nothing else.
    #[kani::proof]
    fn on_packet_sent_cc_contract() {
        let (mut r, _) = any_reno();
        let p = any_packet();
        // ghost: bif is a sum of sizes of packets sent on this connection (< 2^62 bytes in total)
        kani::assume(r.bytes_in_flight <= 1usize << 62);
        let (bif, cwnd, ss, rec) = (r.bytes_in_flight, r.congestion_window, r.ssthresh, r.congestion_recovery_start_time);
        Control::on_packet_sent_cc(&mut r, &p);
        assert!(r.bytes_in_flight == bif + p.sent_bytes, "C13.inflight.sent.adds_exactly_sent_bytes");
        assert!(
            r.congestion_window == cwnd && r.ssthresh == ss && r.congestion_recovery_start_time == rec,
            "C13.inflight.sent.frame_window_unchanged"
        );
        kani::cover!(p.sent_bytes > 0, "C13.inflight.sent.reach_nonempty");
    }

    /// B.5 OnPacketAcked, accounting half: an outstanding packet leaves the count with exactly its size; a packet
    /// that is not outstanding (already declared lost, or never counted) leaves the count untouched.
    #[kani::proof]
    #[kani::stub(qevent::telemetry::macro_support::build_and_emit_event, noop_emit)]
    fn on_packet_acked_inflight_contract() {
        let (mut r, _) = any_reno();
        let p = any_packet();
        // on_ack_rcvd only passes records whose state is not Acked (call-site precondition, packets.rs)
        kani::assume(p.state != State::Acked);
        let outstanding = p.count_for_cc && p.state == State::Inflight;
        // ghost invariant: p in OUT => p.sent_bytes is one summand of bif
        kani::assume(!outstanding || r.bytes_in_flight >= p.sent_bytes);
        let bif = r.bytes_in_flight;
        r.on_packet_acked(&p);
        if outstanding {
            assert!(r.bytes_in_flight == bif - p.sent_bytes, "C13.inflight.acked.outstanding_packet_leaves_with_its_size");
        } else {
            assert!(r.bytes_in_flight == bif, "C13.inflight.acked.not_outstanding_packet_changes_nothing");
        }
        kani::cover!(outstanding && p.sent_bytes > 0, "C13.inflight.acked.reach_outstanding");
        kani::cover!(p.count_for_cc && p.state == State::Retransmitted, "C13.inflight.acked.reach_acked_after_declared_lost");
        kani::cover!(!p.count_for_cc, "C13.inflight.acked.reach_not_counted");
    }

    /// B.8 OnPacketsLost, accounting half, for up to three lost packets (all Inflight: detect_lost_packets' filter).
    #[kani::proof]
    #[kani::unwind(5)]
    #[kani::stub(qevent::telemetry::macro_support::build_and_emit_event, noop_emit)]
    #[kani::stub(tokio::time::Instant::now, any_instant)]
    fn on_packets_lost_inflight_contract() {
        let (mut r, _) = any_reno();
        let pkts = [any_packet(), any_packet(), any_packet()];
        let n: usize = kani::any();
        kani::assume(n <= 3);
        let mut sum = 0usize;
        let mut i = 0;
        while i < n {
            // call-site precondition: detect_lost_packets selects only Inflight records (it has just marked them)
            kani::assume(pkts[i].state == State::Inflight || pkts[i].state == State::Retransmitted);
            if pkts[i].count_for_cc {
                sum += pkts[i].sent_bytes;
            }
            i += 1;
        }
        kani::assume(sum <= r.bytes_in_flight); // ghost invariant: the lost packets are distinct members of OUT
        let bif = r.bytes_in_flight;
        r.on_packets_lost(&mut pkts[..n].iter(), kani::any());
        assert!(r.bytes_in_flight == bif - sum, "C13.inflight.lost.lost_packets_leave_with_their_sizes");
        kani::cover!(n == 3 && sum > 0, "C13.inflight.lost.reach_three");
        kani::cover!(n == 0, "C13.inflight.lost.reach_none");
    }

    /// RemoveFromBytesInFlight for up to three discarded packets (all Inflight: PacketSpace::discard's filter):
    /// exact subtraction, and the plain `-=` does not underflow (safety of this harness is a property obligation).
    #[kani::proof]
    #[kani::unwind(5)]
    fn remove_from_bytes_in_flight_contract() {
        let (mut r, _) = any_reno();
        let pkts = [any_packet(), any_packet(), any_packet()];
        let n: usize = kani::any();
        kani::assume(n <= 3);
        let mut sum = 0usize;
        let mut i = 0;
        while i < n {
            kani::assume(pkts[i].state == State::Inflight); // call-site precondition (PacketSpace::discard)
            if pkts[i].count_for_cc {
                sum += pkts[i].sent_bytes;
            }
            i += 1;
        }
        kani::assume(sum <= r.bytes_in_flight); // ghost invariant: the discarded packets are distinct members of OUT
        let (bif, cwnd, ss) = (r.bytes_in_flight, r.congestion_window, r.ssthresh);
        r.remove_from_bytes_in_flight(&mut pkts[..n].iter());
        assert!(r.bytes_in_flight == bif - sum, "C13.inflight.discard.discarded_packets_leave_with_their_sizes");
        assert!(r.congestion_window == cwnd && r.ssthresh == ss, "C13.inflight.discard.frame_window_unchanged");
        kani::cover!(n == 3 && sum > 0, "C13.inflight.discard.reach_three");
    }

    /// a record that is not outstanding must not be subtracted on discard. The function's own guard is
    /// `count_for_cc && state != Retransmitted`, i.e. it would subtract an *Acked* record a second time; the only
    /// caller filters on Inflight, so this is a representation fact about the guard, not reachable today.
    #[kani::proof]
    #[kani::unwind(3)]
    fn remove_from_bytes_in_flight_ignores_lost_records() {
        let (mut r, _) = any_reno();
        let p = any_packet();
        kani::assume(p.state == State::Retransmitted || !p.count_for_cc);
        let bif = r.bytes_in_flight;
        let one = [p];
        r.remove_from_bytes_in_flight(&mut one.iter());
        assert!(r.bytes_in_flight == bif, "C13.inflight.discard.lost_or_uncounted_record_changes_nothing");
        kani::cover!(one[0].state == State::Retransmitted && one[0].count_for_cc, "C13.inflight.discard.reach_lost_record");
    }
}
