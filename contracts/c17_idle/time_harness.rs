// ---- spliced by /verif (contracts/c17_idle) : contracts on the real idle timer ---------------------------
//
// C17: "An idle connection is closed after the negotiated idle timeout and NOT BEFORE."
// `IdleTimer::{on_sent,on_rcvd,health}` run under the Mutex of `ArcIdleTimer`; the clock
// (`tokio::time::Instant::now`) is stubbed by an arbitrary MONOTONE clock: every read returns any instant
// not earlier than the previous read, so an operation may take any amount of time between its reads.
#[cfg(kani)]
mod verif_c17_idle {
    use super::*;

    // (the shared stub file cannot be included here: it names `qevent`, which qbase does not depend on;
    //  `any_instant` below is the same text)
    #[repr(C)]
    struct VerifRawTs {
        secs: i64,
        nanos: u32,
    }

    /// an arbitrary point in time (std's unix `Instant` is `{ tv_sec: i64, tv_nsec: u32 < 10^9 }`)
    fn any_instant() -> Instant {
        let secs: i64 = kani::any();
        let nanos: u32 = kani::any();
        kani::assume(secs >= 0 && secs < (1i64 << 40) && nanos < 1_000_000_000);
        let i: std::time::Instant = unsafe { core::mem::transmute(VerifRawTs { secs, nanos }) };
        Instant::from_std(i)
    }

    static mut CLOCK: Option<Instant> = None;

    /// stub for `tokio::time::Instant::now`: arbitrary, but never going backwards
    fn mono_now() -> Instant {
        let t = any_instant();
        unsafe {
            if let Some(last) = CLOCK {
                kani::assume(t >= last);
            }
            CLOCK = Some(t);
        }
        t
    }
    /// the latest value the clock has shown
    fn clock() -> Instant {
        unsafe { CLOCK.unwrap() }
    }

    fn any_duration() -> Duration {
        let secs: u64 = kani::any();
        let nanos: u32 = kani::any();
        kani::assume(secs < (1u64 << 40) && nanos < 1_000_000_000);
        Duration::new(secs, nanos)
    }

    /// an instant of the past (not later than the clock's current value)
    fn any_past_instant() -> Instant {
        let t = any_instant();
        kani::assume(t <= clock());
        t
    }

    struct Pre {
        max_idle: Duration,
        defer: Duration,
        heartbeat: Duration,
        times: u32,
        last: Option<Instant>,
        idle_begin: Option<Instant>,
    }

    /// an arbitrary timer at an arbitrary current time: any configuration (max_idle_timeout 0 = disabled,
    /// any defer time, any heartbeat interval), any counters, any instants of the past.
    fn any_timer() -> (IdleTimer, Pre) {
        unsafe { CLOCK = None };
        let _ = mono_now(); // the current time
        let (max_idle, defer, heartbeat) = (any_duration(), any_duration(), any_duration());
        // `heartbeat_interval * (heartbeat_times + 1)` panics on Duration overflow: an interval below 2^31 s
        // (IdleConfig::new picks 1..=30 s; set_heartbeat_interval is unchecked) keeps the product in range
        kani::assume(heartbeat.as_secs() < (1u64 << 31));
        let cfg = ArcIdleConfig(Arc::new(RwLock::new(IdleConfig {
            max_idle_timeout: max_idle,
            defer_idle_timeout: defer,
            heartbeat_interval: heartbeat,
        })));
        let times: u32 = kani::any();
        // 2^32 heartbeats on one idle period do not happen (>= 1 s apart by suitable_heartbeat_interval);
        // excludes the `heartbeat_times + 1` overflow
        kani::assume(times < u32::MAX);
        let last = if kani::any() { Some(any_past_instant()) } else { None };
        let idle_begin = if kani::any() { Some(any_past_instant()) } else { None };
        let timer = IdleTimer { idle_config: cfg, heartbeat_times: times, last_effective_comm: last, idle_begin_at: idle_begin };
        (timer, Pre { max_idle, defer, heartbeat, times, last, idle_begin })
    }

    fn unchanged(t: &IdleTimer, p: &Pre) -> bool {
        t.heartbeat_times == p.times && t.last_effective_comm == p.last && t.idle_begin_at == p.idle_begin
    }

    /// contract of `health()`.
    ///  NOT BEFORE: Err(TimeOut) only if the timeout is enabled (!= 0), the idle period had begun (at t0) and
    ///              strictly more than the negotiated max_idle_timeout has passed since t0;
    ///  AFTER:      once the idle period has begun and more than max_idle_timeout has passed, the result is
    ///              Err(TimeOut) -- except that one due heartbeat / last-chance ping is reported first;
    ///  FRAME:      Err and Ok(None) change nothing; Ok(Some(Ping)) either starts the idle period now or counts
    ///              one heartbeat.
    #[kani::proof]
    #[kani::unwind(2)]
    #[kani::stub(tokio::time::Instant::now, mono_now)]
    fn health_contract() {
        let (mut timer, pre) = any_timer();
        let entry = clock();

        let r = timer.health();

        let exit = clock();
        match &r {
            Err(TimeOut) => {
                assert!(pre.max_idle != Duration::ZERO, "C17.idle.health.no_timeout_when_disabled");
                assert!(pre.idle_begin.is_some(), "C17.idle.health.no_timeout_before_idle_period_began");
                let t0 = pre.idle_begin.unwrap();
                assert!(exit.duration_since(t0) > pre.max_idle, "C17.idle.health.timeout_not_before_negotiated_time");
                assert!(unchanged(&timer, &pre), "C17.idle.health.timeout_changes_nothing");
            }
            Ok(None) => {
                assert!(unchanged(&timer, &pre), "C17.idle.health.idle_verdict_changes_nothing");
                // not timed out at the first clock read => really not yet due at entry
                if let (Some(t0), true) = (pre.idle_begin, pre.max_idle != Duration::ZERO) {
                    assert!(entry.duration_since(t0) <= pre.max_idle, "C17.idle.health.closed_after_timeout");
                }
            }
            Ok(Some(_ping)) => {
                let started_idle = pre.idle_begin.is_none()
                    && timer.idle_begin_at.is_some_and(|t| t >= entry && t <= exit)
                    && timer.heartbeat_times == pre.times
                    && timer.last_effective_comm == pre.last;
                let heartbeat = timer.heartbeat_times == pre.times + 1
                    && timer.idle_begin_at == pre.idle_begin
                    && timer.last_effective_comm == pre.last;
                assert!(started_idle || heartbeat, "C17.idle.health.ping_starts_idle_period_or_counts_heartbeat");
                assert!(pre.last.is_some(), "C17.idle.health.sup.ping_only_after_some_communication");
                if started_idle {
                    assert!(exit.duration_since(pre.last.unwrap()) > pre.defer, "C17.idle.health.idle_period_not_before_defer_time");
                }
            }
        }
        kani::cover!(r.is_err(), "C17.idle.health.reach_timeout");
        kani::cover!(matches!(r, Ok(None)) && pre.idle_begin.is_some() && pre.max_idle != Duration::ZERO, "C17.idle.health.reach_idle_not_yet_due");
        kani::cover!(matches!(r, Ok(Some(_))) && pre.idle_begin.is_none() && timer.idle_begin_at.is_some(), "C17.idle.health.reach_idle_period_starts");
        kani::cover!(matches!(r, Ok(Some(_))) && timer.heartbeat_times == pre.times + 1, "C17.idle.health.reach_heartbeat");
        kani::cover!(matches!(r, Ok(None)) && pre.max_idle == Duration::ZERO && pre.idle_begin.is_some(), "C17.idle.health.reach_disabled_never_times_out");
    }

    /// type invariant of the timer (holds for `ArcIdleConfig::timer()`, kept by all three operations): the idle
    /// period only begins after some effective communication, later than it by more than the defer time.
    fn inv(t: &IdleTimer, defer: Duration) -> bool {
        match (t.last_effective_comm, t.idle_begin_at) {
            (_, None) => true,
            (None, Some(_)) => false,
            (Some(l), Some(b)) => b >= l && b.duration_since(l) > defer,
        }
    }

    /// under the invariant the "after" half is exact: idle period begun and more than max_idle_timeout elapsed
    /// at entry  =>  Err(TimeOut) (no heartbeat can be due any more).  Also: every operation keeps `inv`.
    #[kani::proof]
    #[kani::unwind(2)]
    #[kani::stub(tokio::time::Instant::now, mono_now)]
    fn health_closes_after_timeout() {
        let (mut timer, pre) = any_timer();
        kani::assume(inv(&timer, pre.defer));
        let entry = clock();
        let due = pre.max_idle != Duration::ZERO && pre.idle_begin.is_some_and(|t0| entry.duration_since(t0) > pre.max_idle);
        let r = timer.health();
        if due {
            assert!(r.is_err(), "C17.idle.health.closed_after_timeout_exact");
        }
        assert!(inv(&timer, pre.defer), "C17.idle.inv.preserved_by_health");
        kani::cover!(due, "C17.idle.health.reach_due");
    }

    /// contracts of `on_sent` / `on_rcvd`: effective payload restarts everything (idle period cancelled);
    /// any other received packet restarts a running idle period at the time of receipt -- so a TimeOut is
    /// never reported earlier than max_idle_timeout after the last received packet; nothing else changes.
    #[kani::proof]
    #[kani::unwind(2)]
    #[kani::stub(tokio::time::Instant::now, mono_now)]
    fn on_sent_on_rcvd_contract() {
        let (mut timer, pre) = any_timer();
        let inv_before = inv(&timer, pre.defer);
        let entry = clock();
        let content = match kani::any::<u8>() % 3 {
            0 => PacketContent::EffectivePayload,
            1 => PacketContent::JustPing,
            _ => PacketContent::default(),
        };
        let effective = content == PacketContent::EffectivePayload;
        let sent: bool = kani::any();
        if sent {
            timer.on_sent(content);
        } else {
            timer.on_rcvd(content);
        }
        let exit = clock();
        if effective {
            assert!(timer.last_effective_comm.is_some_and(|t| t >= entry && t <= exit), "C17.idle.comm.effective_payload_restarts_timer");
            assert!(timer.heartbeat_times == 0 && timer.idle_begin_at.is_none(), "C17.idle.comm.effective_payload_cancels_idle_period");
        } else if sent {
            assert!(unchanged(&timer, &pre), "C17.idle.comm.other_sent_packets_change_nothing");
        } else {
            assert!(timer.heartbeat_times == pre.times && timer.last_effective_comm == pre.last, "C17.idle.comm.other_rcvd_packets_keep_counters");
            match pre.idle_begin {
                None => assert!(timer.idle_begin_at.is_none(), "C17.idle.comm.rcvd_does_not_start_idle_period"),
                Some(_) => assert!(timer.idle_begin_at.is_some_and(|t| t >= entry && t <= exit), "C17.idle.comm.rcvd_restarts_running_idle_period"),
            }
        }
        if inv_before {
            assert!(inv(&timer, pre.defer), "C17.idle.inv.preserved_by_on_sent_on_rcvd");
        }
        kani::cover!(effective && pre.idle_begin.is_some(), "C17.idle.comm.reach_cancel_idle");
        kani::cover!(!effective && !sent && pre.idle_begin.is_some(), "C17.idle.comm.reach_rcvd_during_idle");
    }

    /// the shared form: a timer made by `ArcIdleConfig::timer()` satisfies the invariant, reports nothing before
    /// any communication, and a later `negotiate_max_idle_timeout` is seen by the existing timer.
    #[kani::proof]
    #[kani::unwind(2)]
    #[kani::stub(tokio::time::Instant::now, mono_now)]
    fn arc_idle_timer_contract() {
        unsafe { CLOCK = None };
        let (local, defer, remote) = (any_duration(), any_duration(), any_duration());
        let cfg = ArcIdleConfig::new(local, defer);
        let timer = cfg.timer();
        assert!(inv(&timer.0.lock().unwrap(), defer), "C17.idle.inv.holds_initially");
        assert!(matches!(timer.health(), Ok(None)), "C17.idle.arc.fresh_timer_is_healthy");
        cfg.negotiate_max_idle_timeout(remote);
        let negotiated = cfg.0.read().unwrap().max_idle_timeout;
        // RFC 9000 10.1: the smaller of the two advertised values, 0 meaning "none advertised"
        let expect = if local == Duration::ZERO { remote } else if remote == Duration::ZERO { local } else { local.min(remote) };
        assert!(negotiated == expect, "C17.idle.arc.negotiated_timeout_is_min_of_nonzero");
        assert!(timer.0.lock().unwrap().idle_config.0.read().unwrap().max_idle_timeout == expect, "C17.idle.arc.timer_sees_negotiated_timeout");
    }
}
