// ---- spliced by /verif (contracts/c15_antiamp) : contracts on the real AntiAmplifier ---------------
// Property C15 (RFC 9000 §8.1): until the peer address is validated, bytes sent <= 3 * bytes received, on every
// prefix of the history; "the budget arithmetic never underflows into an effectively unlimited allowance".
//   ghost rcvd, sent (totals while NORMAL);  INV(NORMAL): credit == N*rcvd - sent  /\  sent <= N*rcvd
#[cfg(kani)]
mod verif_c15_antiamp {
    use super::*;

    const N: usize = DEFAULT_ANTI_FACTOR;
    type AA = AntiAmplifier<N>;

    fn credit(a: &AA) -> usize {
        a.credit.load(Ordering::Acquire)
    }

    fn state(a: &AA) -> u8 {
        a.state.load(Ordering::Acquire)
    }

    /// an amplifier in NORMAL state reached by a history with ghost totals (rcvd, sent), sent <= N*rcvd
    fn any_normal() -> (AA, usize, usize) {
        let rcvd: usize = kani::any();
        let sent: usize = kani::any();
        // documented precondition: N * (total bytes received) is representable (a connection moves < 2^62 bytes)
        kani::assume(rcvd <= (1usize << 62) / N);
        kani::assume(sent <= N * rcvd);
        let a = AA::new(ArcSendWaker::new());
        a.on_rcvd(rcvd);
        a.on_sent(sent);
        (a, rcvd, sent)
    }

    /// an amplifier in any of its three states
    fn any_aa() -> (AA, usize, usize) {
        let (a, rcvd, sent) = any_normal();
        match kani::any::<u8>() % 3 {
            0 => {}
            1 => a.grant(),
            _ => a.abort(),
        }
        (a, rcvd, sent)
    }

    /// `new`: NORMAL, no credit: nothing may be sent before something is received
    #[kani::proof]
    fn new_contract() {
        let a = AA::new(ArcSendWaker::new());
        assert!(state(&a) == AA::NORMAL && credit(&a) == 0, "C15.aa.new.starts_normal_without_credit");
        assert!(a.balance() == Err(Signals::CREDIT), "C15.aa.new.nothing_may_be_sent_before_anything_is_received");
    }

    /// the ghost invariant holds in every state `any_normal` constructs (sanity of the harness construction)
    #[kani::proof]
    fn invariant_established() {
        let (a, rcvd, sent) = any_normal();
        assert!(state(&a) == AA::NORMAL, "C15.aa.inv.sup.normal");
        assert!(credit(&a) == N * rcvd - sent, "C15.aa.inv.credit_is_three_times_received_minus_sent");
        kani::cover!(credit(&a) == 0 && rcvd > 0, "C15.aa.inv.reach_exhausted");
        kani::cover!(credit(&a) > 0, "C15.aa.inv.reach_credit");
    }

    /// on_rcvd(a): NORMAL => credit' == credit + N*a (so INV holds for rcvd' = rcvd + a); otherwise nothing changes
    #[kani::proof]
    fn on_rcvd_contract() {
        let (a, rcvd, sent) = any_aa();
        let amount: usize = kani::any();
        kani::assume(amount <= (1usize << 62) / N - rcvd); // same documented precondition on the new total
        let (c0, s0) = (credit(&a), state(&a));
        a.on_rcvd(amount);
        assert!(state(&a) == s0, "C15.aa.on_rcvd.state_unchanged");
        if s0 == AA::NORMAL {
            assert!(credit(&a) == c0 + N * amount, "C15.aa.on_rcvd.adds_three_times_received");
            assert!(credit(&a) == N * (rcvd + amount) - sent, "C15.aa.on_rcvd.invariant_preserved");
        } else {
            assert!(credit(&a) == c0, "C15.aa.on_rcvd.no_effect_once_granted_or_aborted");
        }
        kani::cover!(s0 == AA::NORMAL && amount > 0, "C15.aa.on_rcvd.reach_normal");
        kani::cover!(s0 == AA::GRANTED, "C15.aa.on_rcvd.reach_granted");
        kani::cover!(s0 == AA::ABORTED, "C15.aa.on_rcvd.reach_aborted");
    }

    /// balance(): the allowance handed to the sender is exactly the remaining budget N*rcvd - sent while the address
    /// is not validated, "wait for CREDIT" when it is zero, unlimited once granted, None once aborted. Pure.
    #[kani::proof]
    fn balance_contract() {
        let (a, rcvd, sent) = any_aa();
        let (c0, s0) = (credit(&a), state(&a));
        let r = a.balance();
        assert!(credit(&a) == c0 && state(&a) == s0, "C15.aa.balance.pure");
        if s0 == AA::NORMAL {
            if c0 == 0 {
                assert!(r == Err(Signals::CREDIT), "C15.aa.balance.exhausted_budget_blocks_sending");
            } else {
                assert!(r == Ok(Some(N * rcvd - sent)), "C15.aa.balance.allowance_is_three_times_received_minus_sent");
            }
        } else if s0 == AA::GRANTED {
            assert!(r == Ok(Some(usize::MAX)), "C15.aa.balance.unlimited_after_validation");
        } else {
            assert!(r == Ok(None), "C15.aa.balance.none_after_abort");
        }
        kani::cover!(s0 == AA::NORMAL && c0 == 0, "C15.aa.balance.reach_blocked");
        kani::cover!(s0 == AA::NORMAL && c0 > 0, "C15.aa.balance.reach_allowance");
        kani::cover!(s0 == AA::GRANTED, "C15.aa.balance.reach_granted");
        kani::cover!(s0 == AA::ABORTED, "C15.aa.balance.reach_aborted");
    }

    /// on_sent(a) under the caller obligation a <= credit (what balance() handed out): exact subtraction, INV holds
    /// for sent' = sent + a, in particular sent' <= N*rcvd.
    #[kani::proof]
    fn on_sent_contract() {
        let (a, rcvd, sent) = any_aa();
        let amount: usize = kani::any();
        let (c0, s0) = (credit(&a), state(&a));
        // CALLER OBLIGATION of the property ("never underflows"): the function itself has no guard; the region
        // amount > credit is the recorded finding, see `on_sent_overdraw_wraps` / `burst_two_segments_overdraw`
        kani::assume(s0 != AA::NORMAL || amount <= c0);
        a.on_sent(amount);
        assert!(state(&a) == s0, "C15.aa.on_sent.state_unchanged");
        if s0 == AA::NORMAL {
            assert!(credit(&a) == c0 - amount, "C15.aa.on_sent.subtracts_exactly_sent");
            assert!(sent + amount <= N * rcvd, "C15.aa.on_sent.total_sent_within_three_times_received");
            assert!(credit(&a) == N * rcvd - (sent + amount), "C15.aa.on_sent.invariant_preserved");
        } else {
            assert!(credit(&a) == c0, "C15.aa.on_sent.no_effect_once_granted_or_aborted");
        }
        kani::cover!(s0 == AA::NORMAL && amount == c0 && c0 > 0, "C15.aa.on_sent.reach_spend_all");
        kani::cover!(s0 == AA::GRANTED && amount > c0, "C15.aa.on_sent.reach_granted_unlimited");
    }

    /// grant / abort: only NORMAL -> GRANTED / ABORTED, absorbing, credit untouched
    #[kani::proof]
    fn grant_abort_contract() {
        let (a, _, _) = any_aa();
        let (c0, s0) = (credit(&a), state(&a));
        let do_grant: bool = kani::any();
        if do_grant { a.grant() } else { a.abort() }
        let s1 = state(&a);
        if s0 == AA::NORMAL {
            assert!(s1 == if do_grant { AA::GRANTED } else { AA::ABORTED }, "C15.aa.grant_abort.leaves_normal");
        } else {
            assert!(s1 == s0, "C15.aa.grant_abort.granted_and_aborted_are_absorbing");
        }
        assert!(credit(&a) == c0, "C15.aa.grant_abort.credit_untouched");
        // sending resumes as soon as the address is validated
        if s1 == AA::GRANTED {
            assert!(a.balance() == Ok(Some(usize::MAX)), "C15.aa.grant_abort.sending_resumes_after_grant");
        }
        kani::cover!(s0 == AA::NORMAL && do_grant && c0 == 0, "C15.aa.grant_abort.reach_grant_while_blocked");
        kani::cover!(s0 == AA::GRANTED && !do_grant, "C15.aa.grant_abort.reach_abort_after_grant");
    }

    /// sending resumes as soon as more is received: a blocked amplifier hands out credit after any non-empty datagram
    #[kani::proof]
    fn resumes_after_receive() {
        let (a, _, _) = any_normal();
        kani::assume(credit(&a) == 0);
        let amount: usize = kani::any();
        kani::assume(amount > 0 && amount <= 65535);
        a.on_rcvd(amount);
        assert!(a.balance() == Ok(Some(N * amount)), "C15.aa.resume.receiving_unblocks_with_three_times_received");
    }

    /// FINDING (expect_fail): on_sent has no guard. With amount > credit the `fetch_sub` wraps and the remaining
    /// allowance becomes ~2^64: "the budget arithmetic never underflows into an effectively unlimited allowance".
    #[kani::proof]
    fn on_sent_overdraw_wraps() {
        let (a, rcvd, sent) = any_normal();
        let amount: usize = kani::any();
        let c0 = credit(&a);
        kani::assume(amount > c0 && amount <= 64 * 1500); // the bad region: one burst of up to 64 segments of 1500 bytes
        a.on_sent(amount);
        let allowance = match a.balance() {
            Ok(Some(x)) => x,
            _ => 0,
        };
        assert!(allowance <= N * rcvd - sent, "C15.aa.on_sent.never_underflows_into_unlimited_allowance");
    }

    /// FINDING (expect_fail), the composition that produces the overdraw, as a sequence of the real calls in the
    /// order Burst::burst / Path::send_packets make them (the async/iterator code itself is outside Kani):
    ///   per segment: PacketsAssembler::new -> anti_amplifier.balance() (fresh, nothing has been deducted yet)
    ///                -> Constraints::new(credit, quota); assemble: constrain(buffer); commit(len)
    ///   after the burst: send_packets -> anti_amplifier.on_sent(sum of segment lengths)
    #[kani::proof]
    fn burst_two_segments_overdraw() {
        let a = AA::new(ArcSendWaker::new());
        let rcvd: usize = kani::any();
        kani::assume(rcvd >= 1 && rcvd <= 1500);
        a.on_rcvd(rcvd);
        let quota: usize = kani::any(); // congestion quota (>= mtu when a burst starts)
        kani::assume(quota >= 1200);
        let mut total = 0usize;
        let mut seg = 0;
        while seg < 2 {
            let Ok(Some(limit)) = a.balance() else { break };
            let mut c = crate::path::Constraints::new(limit, quota);
            let mut buffer = [0u8; 1200];
            let len = c.constrain(&mut buffer[..]).len(); // one packet filling what the constraints allow
            c.commit(len, true);
            total += len;
            seg += 1;
        }
        a.on_sent(total);
        // (equivalently: the credit counter has wrapped to ~2^64, i.e. credit(&a) > N * rcvd)
        assert!(total <= N * rcvd, "C15.burst.total_sent_within_three_times_received");
    }
}
