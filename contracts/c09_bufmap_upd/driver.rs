// ---- spliced by /verif (contracts/c09_bufmap_upd): paired native search for a failing input --------------
// Used ONLY after a proof obligation of the Verus unit has failed, to look for a concrete input on the real
// code; it never contributes a pass. Exhaustive small scope: every colour map over at most 6 bytes (each byte
// Flighting / Lost / Recved, then a never-sent tail), optionally with its leading acknowledged boundary dropped
// (as `shift` does), every non-empty ack / loss range inside [0, sent()), resend_flighting, sequences up to 3.
// Oracle = one colour per byte (Vec<Color>); only what a caller can observe through the colour view counts.
#[cfg(test)]
mod verif_drv_c09 {
    use super::*;

    #[derive(Clone, Copy, Debug)]
    enum Op {
        Ack(u64, u64),
        Loss(u64, u64),
        Resend,
    }

    /// colour of byte p as the real map encodes it: colour of the last boundary at or below p; acknowledged
    /// in front of the first boundary
    fn view(m: &BufMap) -> Vec<Color> {
        (0..m.1)
            .map(|p| {
                let mut c = Color::Recved;
                let mut best: Option<u64> = None;
                for s in m.0.iter() {
                    if s.offset() <= p && best.is_none_or(|b| s.offset() >= b) {
                        best = Some(s.offset());
                        c = s.color();
                    }
                }
                c
            })
            .collect()
    }

    fn build(colors: &[Color], drop_front: bool) -> BufMap {
        let mut d: VecDeque<State> = VecDeque::new();
        for (p, c) in colors.iter().enumerate() {
            if p == 0 || colors[p - 1] != *c {
                d.push_back(State::encode(p as u64, *c));
            }
        }
        if drop_front && d.front().is_some_and(|s| s.color() == Color::Recved) {
            d.pop_front();
        }
        BufMap(d, colors.len() as u64)
    }

    fn sent_of(model: &[Color]) -> u64 {
        model.iter().position(|c| *c == Color::Pending).unwrap_or(model.len()) as u64
    }

    fn run(init: &[Color], drop_front: bool, ops: &[Op]) -> Result<(), String> {
        let mut map = build(init, drop_front);
        let mut model: Vec<Color> = init.to_vec();
        if view(&map) != model {
            return Err("driver bug: initial view".into());
        }
        for (step, op) in ops.iter().enumerate() {
            let sent = sent_of(&model);
            match *op {
                Op::Ack(a, b) => {
                    if !(a < b && b <= sent) {
                        return Ok(()); // outside the precondition: sequence not applicable
                    }
                    map.ack_rcvd(&(a..b));
                    for p in a..b {
                        model[p as usize] = Color::Recved;
                    }
                }
                Op::Loss(a, b) => {
                    if !(a < b && b <= sent) {
                        return Ok(());
                    }
                    map.may_loss(&(a..b));
                    for p in a..b {
                        if model[p as usize] == Color::Flighting {
                            model[p as usize] = Color::Lost;
                        }
                    }
                }
                Op::Resend => {
                    map.resend_flighting();
                    for c in model.iter_mut() {
                        if *c == Color::Flighting {
                            *c = Color::Lost;
                        }
                    }
                }
            }
            if map.1 as usize != model.len() {
                return Err(format!("step {step}: size changed to {}", map.1));
            }
            let v = view(&map);
            if v != model {
                return Err(format!("step {step}: colours {:?} != expected {:?} (boundaries {:?})", v, model, map.0));
            }
            if map.sent() != sent_of(&model) {
                return Err(format!("step {step}: sent() = {} but never-sent data begins at {}", map.sent(), sent_of(&model)));
            }
            let all_acked = model.iter().all(|c| *c == Color::Recved);
            if (map.shift_peek() == map.1) != all_acked {
                return Err(format!("step {step}: first unacknowledged position {} vs all acknowledged = {all_acked}", map.shift_peek()));
            }
        }
        Ok(())
    }

    impl BufMap {
        /// what `shift` would return, without popping (read-only)
        fn shift_peek(&self) -> u64 {
            self.0.iter().find(|s| s.color() != Color::Recved).map(|s| s.offset()).unwrap_or(self.1)
        }
    }

    #[test]
    fn search() {
        // watchdog: a case that does not finish within 10 s is a hang of the real code
        use std::sync::{Arc, Mutex, atomic::{AtomicU64, Ordering}};
        let progress = Arc::new(AtomicU64::new(0));
        let current: Arc<Mutex<String>> = Arc::new(Mutex::new(String::new()));
        let (p2, c2) = (progress.clone(), current.clone());
        let worker = std::thread::spawn(move || search_all(&p2, &c2));
        let mut last = 0;
        let mut stuck = 0;
        loop {
            std::thread::sleep(std::time::Duration::from_millis(500));
            if worker.is_finished() {
                break;
            }
            let now = progress.load(Ordering::Relaxed);
            if now == last {
                stuck += 1;
                if stuck >= 20 {
                    println!("VERIF-WITNESS property=C09 {}: the real code does not return (no progress for 10 s)", current.lock().unwrap());
                    std::process::exit(1);
                }
            } else {
                stuck = 0;
                last = now;
            }
        }
        worker.join().unwrap();
    }

    fn search_all(progress: &std::sync::atomic::AtomicU64, current: &std::sync::Mutex<String>) {
        let sent_colors = [Color::Flighting, Color::Lost, Color::Recved];
        let mut count = 0u64;
        for size in 1..=6usize {
            let mut alphabet = vec![Op::Resend];
            for a in 0..size as u64 {
                for b in a + 1..=size as u64 {
                    alphabet.push(Op::Ack(a, b));
                    alphabet.push(Op::Loss(a, b));
                }
            }
            let n = alphabet.len();
            for sent in 0..=size {
                // every colouring of the sent prefix
                let combos = 3usize.pow(sent as u32);
                for code in 0..combos {
                    let mut init = vec![Color::Pending; size];
                    let mut c = code;
                    for slot in init.iter_mut().take(sent) {
                        *slot = sent_colors[c % 3];
                        c /= 3;
                    }
                    for drop_front in [false, true] {
                        if drop_front && init[0] != Color::Recved {
                            continue;
                        }
                        // sequences up to length 3 for small maps, 2 beyond (keeps the search under a minute)
                        let max_depth = if size <= 4 { 3 } else { 2 };
                        for depth in 1..=max_depth {
                            let mut idx = vec![0usize; depth];
                            'seqs: loop {
                                let ops: Vec<Op> = idx.iter().map(|i| alphabet[*i]).collect();
                                count += 1;
                                if count % 1024 == 0 {
                                    *current.lock().unwrap() = format!("init={:?} drop_front={} ops={:?}", init, drop_front, ops);
                                }
                                progress.store(count, std::sync::atomic::Ordering::Relaxed);
                                let (i2, o2) = (init.clone(), ops.clone());
                                if let Err(e) = std::panic::catch_unwind(move || run(&i2, drop_front, &o2)).unwrap_or_else(|_| Err("panicked".into())) {
                                    println!("VERIF-WITNESS property=C09 init={:?} drop_front={} ops={:?}: {}", init, drop_front, ops, e);
                                    std::process::exit(1);
                                }
                                let mut k = depth;
                                loop {
                                    if k == 0 {
                                        break 'seqs;
                                    }
                                    k -= 1;
                                    idx[k] += 1;
                                    if idx[k] < n {
                                        break;
                                    }
                                    idx[k] = 0;
                                }
                            }
                        }
                    }
                }
            }
        }
        println!("VERIF-SEARCH-DONE sequences={count} no failing input");
    }
}
