// ---- spliced by /verif (contracts/c07_pn) : contracts on the real packet-number codec -------------
#[cfg(kani)]
mod verif_c07_pn {
    use super::*;

    /// window (number of distinct wire values) of an encoded packet number
    fn win(p: PacketNumber) -> u64 {
        match p {
            PacketNumber::U8(_) => 1 << 8,
            PacketNumber::U16(_) => 1 << 16,
            PacketNumber::U24(_) => 1 << 24,
            PacketNumber::U32(_) => 1 << 32,
        }
    }

    /// the value that `put_packet_number` puts on the wire (U24 keeps only its low 24 bits)
    fn wire(p: PacketNumber) -> u64 {
        match p {
            PacketNumber::U8(x) => x as u64,
            PacketNumber::U16(x) => x as u64,
            PacketNumber::U24(x) => (x & 0x00ff_ffff) as u64,
            PacketNumber::U32(x) => x as u64,
        }
    }

    fn any_pn() -> PacketNumber {
        match kani::any::<u8>() % 4 {
            0 => PacketNumber::U8(kani::any()),
            1 => PacketNumber::U16(kani::any()),
            2 => PacketNumber::U24(kani::any()),
            _ => PacketNumber::U32(kani::any()),
        }
    }

    /// contract of `PacketNumber::encode` (RFC 9000 A.2): for every pn the sender may use, the chosen
    /// encoding has a window more than twice the unacknowledged distance and carries pn's low bits.
    #[kani::proof]
    fn encode_contract() {
        let pn: u64 = kani::any();
        let acked: u64 = kani::any();
        kani::assume(pn < (1u64 << 62) && acked <= pn && pn - acked < (1u64 << 31));
        let e = PacketNumber::encode(pn, acked);
        assert!(win(e) > 2 * (pn - acked), "C07.pn.encode.window_covers_twice_unacked");
        assert!(wire(e) == pn % win(e), "C07.pn.encode.wire_is_low_bits");
        assert!(e.size() >= 2, "C07.pn.encode.sup.min16bit");
        kani::cover!(e.size() == 2, "C07.pn.encode.reach2");
        kani::cover!(e.size() == 3, "C07.pn.encode.reach3");
        kani::cover!(e.size() == 4, "C07.pn.encode.reach4");
    }

    /// contract of `PacketNumber::decode` (RFC 9000 A.3)
    #[kani::proof]
    fn decode_contract() {
        let p = any_pn();
        let expected: u64 = kani::any();
        kani::assume(expected < (1u64 << 62));
        kani::assume(wire(p) == match p { PacketNumber::U24(x) => x as u64, _ => wire(p) }); // value as parsed from the wire
        let w = win(p);
        let r = p.decode(expected);
        assert!(r % w == wire(p), "C07.pn.decode.congruent_to_wire");
        // closest to expected: within half a window, except at the lower edge of the number space
        // (RFC 9000 A.3: a candidate below one window is never moved down)
        assert!(r <= expected + w / 2 || r < w, "C07.pn.decode.not_above_half_window");
        assert!(r + w / 2 > expected, "C07.pn.decode.not_below_half_window");
    }

    /// wire form: the bytes written by `put_packet_number` are exactly `size()` many and `take_pn_len`
    /// reads back the wire value.
    #[kani::proof]
    fn wire_roundtrip() {
        let p = any_pn();
        let mut buf = [0u8; 4];
        let mut w = &mut buf[..];
        w.put_packet_number(p);
        let written = 4 - w.len();
        assert!(written == p.size(), "C07.pn.wire.size_matches");
        let (rest, d) = take_pn_len(p.size() as u8)(&buf[..written]).unwrap();
        assert!(rest.is_empty(), "C07.pn.wire.consumes_all");
        assert!(d.size() == p.size() && wire(d) == wire(p), "C07.pn.wire.value_preserved");
        assert!(match d { PacketNumber::U24(x) => x < (1 << 24), _ => true }, "C07.pn.wire.sup.u24_parsed_is_24bit");
    }

    /// the property clause itself: the truncated number written on the wire is reconstructed to the
    /// full number by a receiver that has received every packet the sender knows to be acknowledged
    /// (acked <= expected) and nothing the sender has not sent yet (expected <= pn).
    #[kani::proof]
    fn lemma_roundtrip() {
        let pn: u64 = kani::any();
        let acked: u64 = kani::any();
        let expected: u64 = kani::any();
        kani::assume(pn < (1u64 << 62));
        kani::assume(acked <= expected && expected <= pn);
        kani::assume(pn - acked < (1u64 << 31));
        let e = PacketNumber::encode(pn, acked);
        let mut buf = [0u8; 4];
        let mut w = &mut buf[..];
        w.put_packet_number(e);
        let written = 4 - w.len();
        let (_, d) = take_pn_len(written as u8)(&buf[..written]).unwrap();
        assert!(d.decode(expected) == pn, "C07.pn.roundtrip.decode_of_wire_of_encode_is_pn");
        kani::cover!(expected == acked && acked == 0, "C07.pn.roundtrip.reach_nothing_acked");
        kani::cover!(written == 4, "C07.pn.roundtrip.reach4");
    }
}
