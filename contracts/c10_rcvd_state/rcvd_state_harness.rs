// ---- spliced by /verif (contracts/c10_rcvd_state) : contracts of the per-packet receive record `State` ----
#[cfg(kani)]
mod verif_c10_rcvd_state {
    use super::*;
    //@include ../_shared/kani_stubs.rs

    fn any_opt_instant() -> Option<Instant> {
        if kani::any() { Some(any_instant()) } else { None }
    }

    /// "An ACK frame the endpoint generates acknowledges only packet numbers it really received":
    /// gen_ack_frame_util puts a number into a range iff track_packet_in_ack_frame returns true; a record
    /// that never saw a packet (Empty) must answer false and stay Empty.
    #[kani::proof]
    fn track_empty_never_acknowledged() {
        let mut s = State::Empty;
        let pn: u64 = kani::any();
        let r = s.track_packet_in_ack_frame(pn);
        assert!(!r, "C10.rcvd.state.track.empty_is_not_acknowledged");
        assert!(s == State::Empty, "C10.rcvd.state.track.empty_stays_empty");
        // and the default record (what IndexDeque::insert fills gaps with) is Empty
        assert!(State::default() == State::Empty, "C10.rcvd.state.default_is_empty");
    }

    /// a confirmed record is still acknowledged (covers every received number still tracked) and unchanged
    #[kani::proof]
    fn track_confirmed_contract() {
        let e: bool = kani::any();
        let (t0, t1) = (any_instant(), any_instant());
        let mut s = State::AckConfirmed(e, t0, t1);
        let pn: u64 = kani::any();
        let r = s.track_packet_in_ack_frame(pn);
        assert!(r, "C10.rcvd.state.track.confirmed_is_acknowledged");
        assert!(s == State::AckConfirmed(e, t0, t1), "C10.rcvd.state.track.confirmed_unchanged");
    }

    // (PacketReceived -> AckSent builds a HashSet: SipHash with symbolic RandomState keys does not finish in
    //  CBMC within 10 min even for a concrete packet number -- that arm is listed unverified in unit.json)

    /// when may `rotate_queue` drop a record from the front: a record whose packet was received but whose
    /// acknowledgement is not yet confirmed is never dropped (it would otherwise stop being acknowledged and
    /// the number could be accepted a second time)
    #[kani::proof]
    fn could_expire_contract() {
        let now = any_instant();
        let e: bool = kani::any();
        let (t0, t1) = (any_instant(), any_instant());
        assert!(State::Empty.could_expire(now), "C10.rcvd.state.expire.empty");
        assert!(!State::PacketReceived(t0, any_opt_instant(), t1).could_expire(now), "C10.rcvd.state.expire.unacked_received_is_kept");
        let c = State::AckConfirmed(e, t0, t1);
        assert!(c.could_expire(now) == (!e || t1 < now), "C10.rcvd.state.expire.confirmed_table");
        kani::cover!(c.could_expire(now) && e, "C10.rcvd.state.expire.reach_eliciting_expired");
        kani::cover!(!c.could_expire(now), "C10.rcvd.state.expire.reach_eliciting_kept");
    }
}
