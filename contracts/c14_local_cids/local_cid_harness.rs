// ---- spliced by /verif (contracts/c14_local_cids) : contracts of LocalCids (ids we issue to the peer) ----
#[cfg(kani)]
mod verif_c14_local_cids {
    use core::cell::Cell;

    use super::*;

    /// Stand-in for the router side (`ISSUED`): counts what LocalCids asks of it.
    #[derive(Default)]
    struct Probe {
        generated: Cell<u32>,
        frames: Cell<u32>,
        last_seq: Cell<u64>,
        last_rpt: Cell<u64>,
        retired: Cell<u32>,
        last_retired_tag: Cell<u8>,
    }

    fn cid(tag: u8) -> ConnectionId {
        let mut bytes = [0u8; crate::cid::MAX_CID_SIZE];
        bytes[0] = tag;
        ConnectionId { len: 8, bytes }
    }

    impl GenUniqueCid for Probe {
        fn gen_unique_cid(&self) -> ConnectionId {
            self.generated.set(self.generated.get() + 1);
            cid(0x80 + self.generated.get() as u8)
        }
    }

    impl RetireCid for Probe {
        fn retire_cid(&self, cid: ConnectionId) {
            self.retired.set(self.retired.get() + 1);
            self.last_retired_tag.set(cid.bytes[0]);
        }
    }

    impl SendFrame<NewConnectionIdFrame> for Probe {
        fn send_frame<I: IntoIterator<Item = NewConnectionIdFrame>>(&self, iter: I) {
            for f in iter {
                self.frames.set(self.frames.get() + 1);
                self.last_seq.set(f.sequence());
                self.last_rpt.set(f.retire_prior_to());
            }
        }
    }

    fn stub_token() -> ResetToken {
        ResetToken::default()
    }

    fn stub_format(_args: core::fmt::Arguments<'_>) -> String {
        String::new()
    }

    // On the error paths the id table must not be touched at all.  Instead of letting CBMC encode the whole
    // mutation path (VecDeque of 38-byte records indexed by a symbolic number: 22 GB and no answer), the table
    // accessors are replaced by stubs that only RECORD that they were reached; the contracts assert the flag is
    // still clear (an assertion of unreachability, not an assumption).
    static TOUCHED: core::sync::atomic::AtomicBool = core::sync::atomic::AtomicBool::new(false);
    fn touched() -> bool {
        TOUCHED.load(core::sync::atomic::Ordering::Relaxed)
    }
    fn recording_get_mut<T, const LIMIT: u64>(_d: &mut IndexDeque<T, LIMIT>, _idx: u64) -> Option<&mut T> {
        TOUCHED.store(true, core::sync::atomic::Ordering::Relaxed);
        None
    }
    fn recording_push_back<T, const LIMIT: u64>(_d: &mut IndexDeque<T, LIMIT>, _v: T) -> Result<u64, crate::util::IndexError> {
        TOUCHED.store(true, core::sync::atomic::Ordering::Relaxed);
        Ok(0)
    }

    /// LocalCids whose issued ids are `first .. first + n` (n <= 2), all still active (tags 1, 2).
    fn local(first: u64, n: usize, limit: Option<u64>) -> LocalCids<Probe> {
        let mut cid_deque = IndexDeque::with_capacity(4);
        cid_deque.reset_offset(first);
        let mut i = 0;
        while i < n {
            cid_deque.push_back(Some((cid(1 + i as u8), ResetToken::default()))).unwrap();
            i += 1;
        }
        LocalCids { cid_deque, issued_cids: Probe::default(), active_cid_limit: limit }
    }

    fn frame(seq: u64) -> RetireConnectionIdFrame {
        RetireConnectionIdFrame::new(VarInt::from_u64(seq).unwrap())
    }

    fn active(lc: &LocalCids<Probe>) -> usize {
        let mut n = 0;
        let mut i = lc.cid_deque.offset();
        while i < lc.cid_deque.largest() {
            if matches!(lc.cid_deque.get(i), Some(Some(_))) {
                n += 1;
            }
            i += 1;
        }
        n
    }

    /// RETIRE_CONNECTION_ID for any seq >= the next number to issue, on a table whose earlier ids are rotated
    /// away (the error path reads only offset + len).  Returns (is_err, issued-before, state after).
    fn run_retire_unissued() -> (bool, u64, u64, LocalCids<Probe>) {
        let first: u64 = kani::any();
        let seq: u64 = kani::any();
        kani::assume(first < VARINT_MAX - 2 && seq <= VARINT_MAX);
        let mut lc = local(first, 0, Some(2));
        let issued = lc.cid_deque.largest();
        kani::assume(seq >= issued);
        let r = lc.recv_retire_cid_frame(frame(seq));
        kani::cover!(seq == issued, "C14.local.retire.reach_exactly_next");
        (r.is_err(), issued, first, lc)
    }

    /// "rejects retirement of a number it never issued": every seq >= the next number to issue is an error
    #[kani::proof]
    #[kani::unwind(4)]
    #[kani::stub(crate::token::ResetToken::random_gen, stub_token)] // rand's thread-local rng crashes the Kani compiler even when only statically reachable
    #[kani::stub(alloc::fmt::format, stub_format)]
    #[kani::stub(crate::util::IndexDeque::get_mut, recording_get_mut)]
    #[kani::stub(crate::util::IndexDeque::push_back, recording_push_back)]
    fn retire_unissued_contract() {
        let (is_err, issued, first, lc) = run_retire_unissued();
        assert!(is_err, "C14.local.retire.unissued_seq_rejected");
        assert!(lc.cid_deque.largest() == issued && lc.cid_deque.offset() == first && lc.cid_deque.len() == 0, "C14.local.retire.unissued_table_unchanged");
        core::mem::forget(lc); // Drop = clear(): retires every id (contract `clear_contract`)
    }

    /// ... and is not acted on: the table is not even looked at, no id generated, no frame, nothing retired
    #[kani::proof]
    #[kani::unwind(4)]
    #[kani::stub(crate::token::ResetToken::random_gen, stub_token)]
    #[kani::stub(alloc::fmt::format, stub_format)]
    #[kani::stub(crate::util::IndexDeque::get_mut, recording_get_mut)]
    #[kani::stub(crate::util::IndexDeque::push_back, recording_push_back)]
    fn retire_unissued_not_acted_on() {
        let (_is_err, _issued, _first, lc) = run_retire_unissued();
        assert!(!touched(), "C04.local_cid.retire.unissued_table_not_touched");
        let p = &lc.issued_cids;
        assert!(p.generated.get() == 0 && p.frames.get() == 0 && p.retired.get() == 0, "C04.local_cid.retire.unissued_not_acted_on");
        core::mem::forget(lc);
    }

    /// FINDING (confined): RFC 9000 §19.16 prescribes PROTOCOL_VIOLATION for a RETIRE_CONNECTION_ID whose
    /// sequence number was never sent; the code answers CONNECTION_ID_LIMIT_ERROR.
    #[kani::proof]
    #[kani::unwind(4)]
    #[kani::stub(crate::token::ResetToken::random_gen, stub_token)] // rand's thread-local rng crashes the Kani compiler even when only statically reachable
    #[kani::stub(alloc::fmt::format, stub_format)]
    fn retire_unissued_error_kind() {
        let mut lc = local(0, 1, Some(2));
        let r = lc.recv_retire_cid_frame(frame(1));
        kani::cover!(r.is_err(), "C04.local_cid.retire.reach_err");
        assert!(matches!(r.as_ref().map_err(|e| e.kind()), Err(ErrorKind::ProtocolViolation)), "C04.local_cid.retire.unissued_error_is_protocol_violation");
        core::mem::forget(lc);
    }

    /// "replaces each one the peer retires ... numbers them consecutively ... stops routing": retiring an
    /// active id retires exactly that id at the router, issues exactly one new id with the next number, and
    /// keeps the number of outstanding ids; retiring it again does nothing (retired exactly once).
    /// Concrete shape (ids 0 and 1 active = the state `LocalCids::new` leaves) and concrete `which`:
    /// a symbolic index into the VecDeque of 38-byte records exhausts CBMC's memory.
    fn retire_issued(which: u64) {
        let first: u64 = 0;
        let mut lc = local(first, 2, Some(2));
        let before = active(&lc);
        let r = lc.recv_retire_cid_frame(frame(first + which));
        assert!(r.is_ok(), "C14.local.retire.issued_seq_accepted");
        {
            let p = &lc.issued_cids;
            assert!(p.retired.get() == 1 && p.last_retired_tag.get() == 1 + which as u8, "C14.local.retire.router_told_exactly_that_id");
            assert!(p.generated.get() == 1 && p.frames.get() == 1, "C14.local.retire.exactly_one_replacement");
            assert!(p.last_seq.get() == first + 2, "C14.local.retire.replacement_numbered_consecutively");
            assert!(p.last_rpt.get() <= p.last_seq.get(), "C14.local.retire.frame_retire_prior_to_le_seq");
        }
        assert!(lc.cid_deque.largest() == first + 3, "C14.local.retire.next_number_advanced_by_one");
        assert!(active(&lc) == before, "C14.local.retire.outstanding_count_kept");
        assert!(lc.cid_deque.get(first + which).map_or(true, |v| v.is_none()), "C14.local.retire.id_no_longer_active");
        assert!(lc.cid_deque.offset() == if which == 0 { first + 1 } else { first }, "C14.local.retire.sup.window_slides_over_leading_retired");
        // duplicate RETIRE_CONNECTION_ID for the same number
        let r2 = lc.recv_retire_cid_frame(frame(first + which));
        assert!(r2.is_ok(), "C14.local.retire.duplicate_accepted");
        let p = &lc.issued_cids;
        assert!(p.retired.get() == 1 && p.generated.get() == 1 && p.frames.get() == 1, "C14.local.retire.retired_exactly_once");
        core::mem::forget(lc);
    }

    #[kani::proof]
    #[kani::unwind(5)]
    #[kani::stub(crate::token::ResetToken::random_gen, stub_token)]
    #[kani::stub(alloc::fmt::format, stub_format)]
    fn retire_issued_oldest() {
        retire_issued(0);
    }

    #[kani::proof]
    #[kani::unwind(5)]
    #[kani::stub(crate::token::ResetToken::random_gen, stub_token)]
    #[kani::stub(alloc::fmt::format, stub_format)]
    fn retire_issued_out_of_order() {
        retire_issued(1);
    }

    fn run_set_limit_below_2() -> (Result<(), Error>, u64, LocalCids<Probe>) {
        let limit: u64 = kani::any();
        let first: u64 = kani::any();
        kani::assume(limit < 2 && first < VARINT_MAX - 2);
        let mut lc = local(first, 0, None);
        let r = lc.set_limit(limit);
        kani::cover!(limit == 1, "C14.local.set_limit.reach_error");
        (r, first, lc)
    }

    /// set_limit, error path (complete): a peer limit below 2 is a TRANSPORT_PARAMETER_ERROR
    #[kani::proof]
    #[kani::unwind(4)]
    #[kani::stub(crate::token::ResetToken::random_gen, stub_token)]
    #[kani::stub(alloc::fmt::format, stub_format)]
    #[kani::stub(crate::util::IndexDeque::push_back, recording_push_back)]
    fn set_limit_below_2_contract() {
        let (r, first, lc) = run_set_limit_below_2();
        assert!(matches!(r.as_ref().map_err(|e| e.kind()), Err(ErrorKind::TransportParameter)), "C14.local.set_limit.below_2_is_transport_parameter_error");
        assert!(lc.cid_deque.largest() == first && lc.active_cid_limit.is_none(), "C14.local.set_limit.error_leaves_state");
        core::mem::forget(lc);
    }

    /// ... and nothing is issued
    #[kani::proof]
    #[kani::unwind(4)]
    #[kani::stub(crate::token::ResetToken::random_gen, stub_token)]
    #[kani::stub(alloc::fmt::format, stub_format)]
    #[kani::stub(crate::util::IndexDeque::push_back, recording_push_back)]
    fn set_limit_below_2_not_acted_on() {
        let (_r, _first, lc) = run_set_limit_below_2();
        let p = &lc.issued_cids;
        assert!(!touched() && p.generated.get() == 0 && p.frames.get() == 0, "C04.local_cid.set_limit.rejected_not_acted_on");
        core::mem::forget(lc);
    }

    /// set_limit, accepting path: ids are issued up to exactly the limit ("never more outstanding than the
    /// peer's limit"), numbered consecutively.  NOTE the exact-count clause is also the C04 cost statement:
    /// the number of generated ids / frames is limit - 2 with no cap whatsoever.
    fn set_limit_ok(limit: u64) {
        let mut lc = local(0, 2, None); // the state LocalCids::new leaves: ids 0 and 1
        let r = lc.set_limit(limit);
        let p = &lc.issued_cids;
        assert!(r.is_ok(), "C14.local.set_limit.accepts_2_or_more");
        assert!(active(&lc) as u64 == limit, "C14.local.set_limit.outstanding_equals_limit");
        assert!(lc.cid_deque.largest() == limit && p.frames.get() as u64 == limit - 2 && p.generated.get() as u64 == limit - 2, "C14.local.set_limit.issues_exactly_up_to_limit");
        assert!(limit == 2 || p.last_seq.get() == limit - 1, "C14.local.set_limit.numbered_consecutively");
        assert!(lc.active_cid_limit == Some(limit), "C14.local.set_limit.limit_recorded");
        core::mem::forget(lc);
    }

    #[kani::proof]
    #[kani::unwind(6)]
    #[kani::stub(crate::token::ResetToken::random_gen, stub_token)]
    #[kani::stub(alloc::fmt::format, stub_format)]
    fn set_limit_2() {
        set_limit_ok(2);
    }

    #[kani::proof]
    #[kani::unwind(6)]
    #[kani::stub(crate::token::ResetToken::random_gen, stub_token)]
    #[kani::stub(alloc::fmt::format, stub_format)]
    fn set_limit_4() {
        set_limit_ok(4);
    }

    /// clear (also run on Drop): every still-active id is retired at the router exactly once ("stops routing
    /// packets to an ID once ... the connection is gone"), a second clear does nothing.
    #[kani::proof]
    #[kani::unwind(5)]
    fn clear_contract() {
        let first: u64 = 0;
        let mut lc = local(first, 2, Some(2));
        lc.clear();
        assert!(lc.issued_cids.retired.get() == 2, "C14.local.clear.every_active_id_retired_once");
        assert!(lc.cid_deque.len() == 0 && lc.cid_deque.offset() == first + 2, "C14.local.clear.table_empty");
        lc.clear();
        assert!(lc.issued_cids.retired.get() == 2, "C14.local.clear.second_clear_retires_nothing");
        drop(lc); // Drop::drop -> clear() again
    }
}
