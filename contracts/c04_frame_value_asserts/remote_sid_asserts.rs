// ---- spliced by /verif (contracts/c04_frame_value_asserts) : expect sites fed by STREAMS_BLOCKED values ----
#[cfg(kani)]
mod verif_c04_fva_remote {
    use super::*;

    #[derive(Debug, Default, Clone)]
    struct Sink;
    impl SendFrame<MaxStreamsFrame> for Sink {
        fn send_frame<I: IntoIterator<Item = MaxStreamsFrame>>(&self, _iter: I) {}
    }

    fn remote(max: [u64; 2]) -> RemoteStreamIds<Sink> {
        let role = if kani::any() { Role::Client } else { Role::Server };
        RemoteStreamIds {
            role,
            max,
            unallocated: [StreamId(role as u64), StreamId(2 | (role as u64))],
            ctrl: Box::new(crate::sid::handy::DemandConcurrency),
            max_tx: Sink,
        }
    }

    fn blocked(v: u64) -> StreamsBlockedFrame {
        let dir = if kani::any() { Dir::Bi } else { Dir::Uni };
        StreamsBlockedFrame::with(dir, VarInt::from_u64(v).unwrap())
    }

    /// every STREAMS_BLOCKED value except the single largest varint: `max_streams + 1` and
    /// `VarInt::from_u64(..).expect("max_streams must be less than VARINT_MAX")` do not panic
    /// (what the value does to the limit is C12's business, unit c12_sid_remote)
    #[kani::proof]
    #[kani::unwind(3)]
    fn streams_blocked_value_cannot_panic() {
        let m: [u64; 2] = [kani::any(), kani::any()];
        let mut r = remote(m);
        let v: u64 = kani::any();
        kani::assume(v < (1u64 << 62) - 1); // the point 2^62 - 1 is the confined finding below
        r.recv_streams_blocked_frame(blocked(v));
        kani::cover!(v == (1u64 << 62) - 2, "C04.sid.streams_blocked.reach_top_minus_one");
        core::mem::forget(r);
    }

    /// FINDING (confined): STREAMS_BLOCKED(2^62 - 1) is accepted by the decoder (no 2^60 bound, RFC 9000 §19.14
    /// prescribes FRAME_ENCODING_ERROR) and with the default DemandConcurrency strategy reaches
    /// `VarInt::from_u64(2^62).expect(..)`: a remote-triggered panic.
    #[kani::proof]
    #[kani::unwind(3)]
    fn streams_blocked_max_varint_panics() {
        let m: [u64; 2] = [kani::any(), kani::any()];
        let mut r = remote(m);
        r.recv_streams_blocked_frame(blocked((1u64 << 62) - 1));
        core::mem::forget(r);
    }
}
