// ---- spliced by /verif (contracts/c04_frame_value_asserts) : assert!/expect sites fed by MAX_STREAMS values ----
#[cfg(kani)]
mod verif_c04_fva_local {
    use super::*;

    #[derive(Debug, Default, Clone)]
    struct Sink;
    impl SendFrame<StreamsBlockedFrame> for Sink {
        fn send_frame<I: IntoIterator<Item = StreamsBlockedFrame>>(&self, _iter: I) {}
    }

    /// stub for `ArcSendWakers::wake_all_by` (BTreeMap walk; waking is not part of this contract)
    fn noop_wake(_w: &ArcSendWakers, _s: Signals) {}

    /// `assert!(val <= MAX_STREAMS_LIMIT)` in increase_limit, `assert!(id <= MAX_STREAMS_LIMIT)` in StreamId::new and
    /// the `VarInt::from_u64(..).expect(..)` in `From<StreamId> for VarInt` are unreachable for every MAX_STREAMS
    /// value the frame decoder lets through (max_streams_frame_with_dir rejects > 2^60 - 1) in every state
    /// satisfying the allocator invariant max <= 2^60 - 1; and the invariant is preserved.
    #[kani::proof]
    #[kani::unwind(3)]
    #[kani::stub(crate::net::tx::ArcSendWakers::wake_all_by, noop_wake)]
    fn max_streams_value_cannot_panic() {
        let max: [u64; 2] = [kani::any(), kani::any()];
        let un: [u64; 2] = [kani::any(), kani::any()];
        kani::assume(max[0] <= MAX_STREAMS_LIMIT && max[1] <= MAX_STREAMS_LIMIT); // invariant (re-established below)
        kani::assume(un[0] <= MAX_STREAMS_LIMIT + 1 && un[1] <= MAX_STREAMS_LIMIT + 1);
        let role = if kani::any() { Role::Client } else { Role::Server };
        let mut l = LocalStreamIds {
            role,
            max,
            unallocated: un,
            wakers: [VecDeque::with_capacity(2), VecDeque::with_capacity(2)],
            blocked: Sink,
            tx_wakers: ArcSendWakers::default(),
        };
        let dir = if kani::any() { Dir::Bi } else { Dir::Uni };
        let v: u64 = kani::any();
        kani::assume(v <= MAX_STREAMS_LIMIT); // postcondition of the MAX_STREAMS decoder
        l.recv_max_streams_frame(MaxStreamsFrame::with(dir, VarInt::from_u64(v).unwrap()));
        assert!(l.max[0] <= MAX_STREAMS_LIMIT && l.max[1] <= MAX_STREAMS_LIMIT, "C04.sid.max_streams.limit_invariant_preserved");
        // what poll_alloc_sid does next with the new limit: index < max
        let id: u64 = kani::any();
        kani::assume(id < l.max[dir as usize]);
        let sid = StreamId::new(role, dir, id);
        let wire: VarInt = sid.into();
        assert!(wire.into_u64() >> 2 == id, "C04.sid.max_streams.stream_id_encodable");
        kani::cover!(v == MAX_STREAMS_LIMIT && id == MAX_STREAMS_LIMIT - 1, "C04.sid.max_streams.reach_top");
        core::mem::forget(l);
    }
}
