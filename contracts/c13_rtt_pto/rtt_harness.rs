// ---- spliced by /verif (contracts/c13_rtt_pto) : contract of the real PTO base computation ---------
// Property C13: "... or probed by a timeout whose interval doubles until the connection is abandoned".
// RFC 9002 §6.2.1: PTO = smoothed_rtt + max(4*rttvar, kGranularity) [+ max_ack_delay], §6.2.2/A.8: the
// period is multiplied by 2^pto_count.
#[cfg(kani)]
mod verif_c13_rtt_pto {
    use super::*;

    /// an arbitrary duration below 2^22 s (48 days)
    fn any_duration() -> Duration {
        let secs: u64 = kani::any();
        let nanos: u32 = kani::any();
        kani::assume(secs < (1 << 22) && nanos < 1_000_000_000);
        Duration::new(secs, nanos)
    }

    /// used by the controller-level harnesses in congestion.rs (the tuple field is private to this module)
    impl ArcRtt {
        pub(crate) fn verif_any() -> Self {
            ArcRtt(Arc::new(Mutex::new(any_rtt())))
        }
    }

    fn any_rtt() -> Rtt {
        Rtt {
            max_ack_delay: any_duration(),
            first_rtt_sample: None,
            latest_rtt: any_duration(),
            // assumption (recorded): RTT estimates are differences of clock readings of one process, < 2^22 s
            smoothed_rtt: any_duration(),
            rttvar: any_duration(),
            min_rtt: any_duration(),
        }
    }

    /// base case: base_pto(0) == smoothed_rtt + max(4*rttvar, kGranularity = 1 ms)  (RFC 9002 §6.2.1).
    /// Together with `base_pto_doubles` (induction step, which also exercises every count 0..=7 for shift /
    /// Duration overflow) this gives base_pto(c) - smoothed_rtt == max(4*rttvar, 1 ms) * 2^c for every count the
    /// controller reaches before the connection is abandoned (do_tick gives up when the count exceeds 6).
    /// (A single harness with the closed form and a symbolic count does not terminate in 10 min: two symbolic
    /// 64-bit Duration multiplications.)
    #[kani::proof]
    fn base_pto_contract() {
        let rtt = any_rtt();
        let before = rtt.clone();
        let d = rtt.base_pto(0);
        let unit = (rtt.rttvar * 4).max(Duration::from_millis(1));
        assert!(d == rtt.smoothed_rtt + unit, "C13.pto.base.count_zero_is_srtt_plus_max_4rttvar_granularity");
        assert!(d - rtt.smoothed_rtt >= Duration::from_millis(1), "C13.pto.base.at_least_granularity");
        assert!(
            rtt.smoothed_rtt == before.smoothed_rtt && rtt.rttvar == before.rttvar,
            "C13.pto.base.sup.pure"
        );
        kani::cover!(rtt.rttvar == Duration::ZERO, "C13.pto.base.reach_granularity_floor");
        kani::cover!(rtt.rttvar > Duration::from_millis(1), "C13.pto.base.reach_rttvar_term");
    }

    /// the interval doubles with every unanswered probe: base_pto(c+1) - srtt == 2 * (base_pto(c) - srtt), c <= 6
    #[kani::proof]
    fn base_pto_doubles() {
        let rtt = any_rtt();
        let c: u32 = kani::any();
        kani::assume(c <= 6);
        let d0 = rtt.base_pto(c);
        let d1 = rtt.base_pto(c + 1);
        assert!(d1 - rtt.smoothed_rtt == (d0 - rtt.smoothed_rtt) * 2, "C13.pto.base.interval_doubles_per_count");
        assert!(d1 > d0, "C13.pto.base.strictly_longer");
        kani::cover!(c == 6, "C13.pto.base.reach_last_doubling");
    }
}
