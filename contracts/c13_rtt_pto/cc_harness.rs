// ---- spliced by /verif (contracts/c13_rtt_pto) : PTO backoff / abandon on the real controller -------
#[cfg(kani)]
mod verif_c13_cc {
    use std::sync::atomic::AtomicU16;

    use super::*;
    use crate::status::HandshakeStatus;

    //@include ../_shared/kani_stubs.rs

    /// `Rtt::try_backoff_rtt` contains a `tracing::trace!` call site (crashes the Kani compiler, like qevent::event!)
    /// and f32 arithmetic; it only touches the RTT estimate before the first sample. Stubbed out (recorded).
    fn noop_backoff(_rtt: &ArcRtt) {}

    /// abstraction of `on_loss_detection_timeout` by its contract (`pto_timeout_contract` + reading: both exits
    /// return `self.pto_count`; the loss-time exit leaves it unchanged, the PTO exit adds one). Used only to keep
    /// `do_tick_contract` tractable (the real body under a Mutex does not finish in 15 min).
    static mut TIMEOUT_RAN: bool = false;

    fn timeout_by_contract(cc: &mut CongestionController) -> u32 {
        unsafe { TIMEOUT_RAN = true };
        if kani::any() {
            cc.pto_count += 1;
        }
        cc.pto_count
    }

    struct NoFeedback;
    impl Feedback for NoFeedback {
        fn may_loss(&self, _trigger: PacketLostTrigger, _pns: &mut dyn Iterator<Item = u64>) {}
    }

    fn any_epoch() -> Epoch {
        match kani::any::<u8>() % 3 {
            0 => Epoch::Initial,
            1 => Epoch::Handshake,
            _ => Epoch::Data,
        }
    }

    /// max_ack_delay: transport parameter, < 2^14 ms (RFC 9000 §18.2)
    fn any_max_ack_delay() -> Duration {
        let ms: u64 = kani::any();
        kani::assume(ms < (1 << 14));
        Duration::from_millis(ms)
    }

    /// a freshly initialised controller (no packets outstanding in any space) in an arbitrary handshake phase,
    /// with an arbitrary RTT estimate
    fn fresh_cc(max_ack_delay: Duration, any_rtt: bool) -> (CongestionController, Arc<HandshakeStatus>) {
        let hs = Arc::new(HandshakeStatus::new(kani::any()));
        if kani::any() {
            hs.got_handshake_key();
        }
        if kani::any() {
            hs.received_handshake_ack();
        }
        if kani::any() {
            hs.handshake_confirmed();
        }
        let status = PathStatus::new(hs.clone(), Arc::new(AtomicU16::new(MSS as u16)));
        if kani::any() {
            status.release_anti_amplification_limit();
        }
        let fb: Arc<dyn Feedback> = Arc::new(NoFeedback);
        let mut cc = CongestionController::init(
            Algorithm::NewReno,
            max_ack_delay,
            [fb.clone(), fb.clone(), fb],
            status,
            ArcSendWaker::new(),
        );
        if any_rtt {
            cc.rtt = ArcRtt::verif_any();
        }
        (cc, hs)
    }

    /// get_pto(epoch) == base_pto(pto_count) [+ max_ack_delay * 2^pto_count in the application space]
    #[kani::proof]
    #[kani::unwind(5)] // Epoch loops have 3 iterations; bounds the (infeasible) spin loop of std's Mutex::lock_contended
    #[kani::stub(tokio::time::Instant::now, any_instant)]
    #[kani::stub(qevent::telemetry::macro_support::build_and_emit_event, noop_emit)]
    fn get_pto_contract() {
        let mad = any_max_ack_delay();
        let (mut cc, _) = fresh_cc(mad, true);
        let c: u32 = kani::any();
        kani::assume(c <= 7);
        cc.pto_count = c;
        let epoch = any_epoch();
        let d = cc.get_pto(epoch);
        let base = cc.rtt.base_pto(c); // contracted in verif_c13_rtt_pto
        if epoch == Epoch::Data {
            assert!(d == base + mad * (1u32 << c), "C13.pto.get_pto.data_space_adds_backed_off_max_ack_delay");
        } else {
            assert!(d == base, "C13.pto.get_pto.handshake_spaces_use_base_pto");
        }
        core::mem::forget(cc);
        kani::cover!(epoch == Epoch::Data && c == 7, "C13.pto.get_pto.reach_data_7");
    }

    /// A.9 OnLossDetectionTimeout without a pending loss time: exactly one more probe is requested, the backoff
    /// count goes up by exactly one and is what the caller gets back.
    #[kani::proof]
    #[kani::unwind(5)] // Epoch loops have 3 iterations; bounds the (infeasible) spin loop of std's Mutex::lock_contended
    #[kani::stub(tokio::time::Instant::now, any_instant)]
    #[kani::stub(qevent::telemetry::macro_support::build_and_emit_event, noop_emit)]
    #[kani::stub(crate::rtt::ArcRtt::try_backoff_rtt, noop_backoff)]
    fn pto_timeout_contract() {
        let (mut cc, hs) = fresh_cc(any_max_ack_delay(), false);
        let c: u32 = kani::any();
        kani::assume(c <= 6);
        cc.pto_count = c;
        let has_hs_key: bool = cc.path_status.has_handshake_key();
        let _ = hs;
        let before = cc.need_send_ack_eliciting_packets;
        let r = cc.on_loss_detection_timeout();
        assert!(r == c + 1 && cc.pto_count == c + 1, "C13.pto.timeout.count_increments_by_one");
        let after = cc.need_send_ack_eliciting_packets;
        // nothing ack-eliciting in flight: anti-deadlock probe in Handshake (with keys) or Initial (RFC 9002 A.9)
        let e = if has_hs_key { 1 } else { 0 };
        assert!(after[e] == before[e] + 1, "C13.pto.timeout.one_probe_requested");
        assert!(
            after[(e + 1) % 3] == before[(e + 1) % 3] && after[(e + 2) % 3] == before[(e + 2) % 3],
            "C13.pto.timeout.no_probe_in_other_spaces"
        );
        core::mem::forget(cc);
        kani::cover!(has_hs_key, "C13.pto.timeout.reach_handshake_probe");
        kani::cover!(!has_hs_key, "C13.pto.timeout.reach_initial_probe");
    }

    /// Transport::do_tick: when the timer fires, the PTO count is advanced; more than 6 unanswered probes make the
    /// tick fail (Path::drive propagates the error and the path is given up) -- "until the connection is abandoned".
    #[kani::proof]
    #[kani::unwind(5)] // Epoch loops have 3 iterations; bounds the (infeasible) spin loop of std's Mutex::lock_contended
    #[kani::stub(tokio::time::Instant::now, any_instant)]
    #[kani::stub(qevent::telemetry::macro_support::build_and_emit_event, noop_emit)]
    #[kani::stub(CongestionController::on_loss_detection_timeout, timeout_by_contract)]
    fn do_tick_contract() {
        let (mut cc, _) = fresh_cc(any_max_ack_delay(), false);
        let c: u32 = kani::any();
        kani::assume(c <= 7);
        cc.pto_count = c;
        let armed: bool = kani::any();
        cc.loss_detection_timer = if armed { Some(any_instant()) } else { None };
        let arc = ArcCC(Arc::new(Mutex::new(cc)));
        let r = crate::Transport::do_tick(&arc);
        let after = arc.0.lock().unwrap().pto_count;
        let ran = unsafe { TIMEOUT_RAN };
        assert!(after == c || (ran && after == c + 1), "C13.pto.tick.count_advances_only_by_a_timeout_and_by_one");
        assert!(armed || !ran, "C13.pto.tick.no_timeout_without_armed_timer");
        // "until the connection is abandoned": the tick fails exactly when a timeout ran and left more than 6 probes
        assert!(r.is_err() == (ran && after > 6), "C13.pto.tick.fails_iff_more_than_six_unanswered_probes");
        if let Err(TooManyPtos(n)) = r {
            assert!(n == after, "C13.pto.tick.sup.error_carries_count");
        }
        core::mem::forget(arc); // skip the drop glue of the whole controller (not under contract)
        kani::cover!(r.is_err(), "C13.pto.tick.reach_abandon");
        kani::cover!(r.is_ok() && after == c + 1, "C13.pto.tick.reach_probe");
        kani::cover!(r.is_ok() && armed && after == c, "C13.pto.tick.reach_not_yet_due");
    }
}
