// ---- spliced by /verif (contracts/c18_idle_0rtt) : contract on Parameters::negotiated_max_idle_timeout -----
// Same modelling device as contracts/c18_cid_binding: the HashMap-backed role-typed sets are replaced by an
// oracle keyed on the (never used) hasher keys of each set; see unit.json "assumptions".
#[cfg(kani)]
mod verif_c18_idle_param {
    use std::collections::HashMap;

    use super::*;
    use crate::role::{Client, Server};

    type Set<R> = super::core::Parameters<R>;

    const MARK_CLIENT_SET: u64 = 0xc11e;
    const MARK_SERVER_SET: u64 = 0x5e4e;
    static mut CLIENT_IDLE: Option<Duration> = None; // max_idle_timeout stored in the client's set, if any
    static mut SERVER_IDLE: Option<Duration> = None;

    fn fixed_random_state() -> std::hash::RandomState {
        unsafe { std::mem::transmute::<[u64; 2], std::hash::RandomState>([1u64, 2u64]) }
    }

    fn mark<Role>(this: &Set<Role>) -> u64 {
        let keys: [u64; 2] = unsafe { std::mem::transmute_copy(this.map.hasher()) };
        keys[0]
    }

    impl<Role> Set<Role> {
        /// same shape as the real `get`: stored value, else the id's default, then the typed conversion
        fn oracle_get_idle<V>(&self, id: ParameterId) -> Option<V>
        where
            V: TryFrom<ParameterValue>,
        {
            let (c, s) = unsafe { (CLIENT_IDLE, SERVER_IDLE) };
            let stored = match (id, mark(self)) {
                (ParameterId::MaxIdleTimeout, MARK_CLIENT_SET) => c.map(ParameterValue::Duration),
                (ParameterId::MaxIdleTimeout, MARK_SERVER_SET) => s.map(ParameterValue::Duration),
                _ => None,
            };
            stored.or_else(|| id.default_value()).and_then(|v| v.try_into().ok())
        }
    }

    fn marked_set<R: Default>(mark: u64) -> Set<R> {
        let mut s = Set::<R>::default();
        s.map = HashMap::with_hasher(unsafe { std::mem::transmute::<[u64; 2], std::hash::RandomState>([mark, 0]) });
        s
    }

    fn any_opt_ms() -> Option<Duration> {
        // what `be_parameter_value` produces for a Duration-typed id: whole milliseconds below 2^62
        let ms: u64 = kani::any();
        kani::assume(ms <= crate::varint::VARINT_MAX);
        if kani::any() { Some(Duration::from_millis(ms)) } else { None }
    }

    fn spec_effective(a: Duration, b: Duration) -> Option<Duration> {
        let z = Duration::ZERO;
        if a == z && b == z {
            None // no idle timeout
        } else if a == z {
            Some(b)
        } else if b == z {
            Some(a)
        } else if a <= b {
            Some(a)
        } else {
            Some(b)
        }
    }

    /// requires nothing;  ensures  None <=> the peer's set is not (yet) accepted (`state` lacks the peer's bit);
    ///           otherwise the RFC 9000 §10.1 effective value, "no timeout" (Duration::MAX here) iff both are zero;
    ///           an absent parameter counts as 0 (RFC 9000 §18.2 default).
    #[kani::proof]
    #[kani::stub(std::hash::RandomState::new, fixed_random_state)]
    #[kani::stub(crate::param::core::Parameters::get, crate::param::core::Parameters::oracle_get_idle)]
    fn negotiated_max_idle_timeout_contract() {
        let (c, s) = (any_opt_ms(), any_opt_ms());
        unsafe {
            CLIENT_IDLE = c;
            SERVER_IDLE = s;
        }
        let is_client: bool = kani::any();
        let peer_accepted: bool = kani::any();
        let both = Parameters::CLIENT_READY | Parameters::SERVER_READY;
        let p = Parameters {
            state: if peer_accepted { both } else if is_client { Parameters::CLIENT_READY } else { Parameters::SERVER_READY },
            client: Arc::new(marked_set::<Client>(MARK_CLIENT_SET)),
            server: Arc::new(marked_set::<Server>(MARK_SERVER_SET)),
            remembered: None,
            requirements: if is_client {
                Requirements::Client { initial_scid: None, retry_scid: None, origin_dcid: ConnectionId::default() }
            } else {
                Requirements::Server { initial_scid: None }
            },
            wakers: Vec::new(),
        };
        let r = p.negotiated_max_idle_timeout();
        let (cv, sv) = (c.unwrap_or(Duration::ZERO), s.unwrap_or(Duration::ZERO));
        if !peer_accepted {
            assert!(r.is_none(), "C18.idle.param.none_until_peer_parameters_accepted");
        } else {
            match spec_effective(cv, sv) {
                None => assert!(r == Some(Duration::MAX), "C18.idle.param.no_timeout_iff_both_zero"),
                Some(d) => assert!(r == Some(d), "C18.idle.param.effective_is_smaller_nonzero"),
            }
            assert!(
                (r == Some(Duration::MAX)) == (cv == Duration::ZERO && sv == Duration::ZERO),
                "C18.idle.param.no_timeout_only_if_both_zero"
            );
        }
        kani::cover!(peer_accepted && c.is_none() && s.is_none(), "C18.idle.param.reach_both_absent");
        kani::cover!(peer_accepted && is_client && c.is_none() && s.is_some() && sv != Duration::ZERO, "C18.idle.param.reach_only_peer");
        kani::cover!(peer_accepted && !is_client && cv != Duration::ZERO && sv != Duration::ZERO && cv < sv, "C18.idle.param.reach_peer_smaller");
        kani::cover!(!peer_accepted && is_client, "C18.idle.param.reach_not_ready");
        std::mem::forget(p);
    }
}
