// ---- spliced by /verif (contracts/c18_idle_0rtt) : contract on IdleConfig::negotiate_max_idle_timeout ------
// RFC 9000 §10.1: "Each endpoint advertises a max_idle_timeout, but the effective value at an endpoint is
// computed as the minimum of the two advertised values (or the sole advertised value, if only one endpoint
// advertises a non-zero value). ... Idle timeout is disabled when both endpoints omit this transport parameter
// or specify a value of 0."   In `IdleConfig`, `max_idle_timeout == 0` means disabled (`timeout_after`).
#[cfg(kani)]
mod verif_c18_idle_config {
    use super::*;

    fn any_duration() -> Duration {
        let secs: u64 = kani::any();
        let nanos: u32 = kani::any();
        kani::assume(nanos < 1_000_000_000); // type invariant of Duration
        Duration::new(secs, nanos)
    }

    /// smaller non-zero of the two, zero iff both are zero (written on (secs, nanos) pairs, not with Duration::min)
    fn spec_effective(a: Duration, b: Duration) -> Duration {
        let za = a.as_secs() == 0 && a.subsec_nanos() == 0;
        let zb = b.as_secs() == 0 && b.subsec_nanos() == 0;
        if za {
            b
        } else if zb {
            a
        } else if (a.as_secs(), a.subsec_nanos()) <= (b.as_secs(), b.subsec_nanos()) {
            a
        } else {
            b
        }
    }

    #[kani::proof]
    fn negotiate_contract() {
        let local = any_duration();
        let remote = any_duration(); // peer's max_idle_timeout as `Parameters::get` yields it (0 when absent)
        let defer = any_duration();
        let mut cfg = IdleConfig::new(local, defer);
        assert!(cfg.max_idle_timeout == local, "C18.idle.config.new_keeps_local_value");
        cfg.negotiate_max_idle_timeout(remote);
        let eff = cfg.max_idle_timeout;
        assert!(eff == spec_effective(local, remote), "C18.idle.config.effective_is_smaller_nonzero");
        assert!(
            (eff == Duration::ZERO) == (local == Duration::ZERO && remote == Duration::ZERO),
            "C18.idle.config.disabled_iff_both_zero"
        );
        assert!(eff == local || eff == remote, "C18.idle.config.effective_is_one_of_the_two");
        assert!(local == Duration::ZERO || eff <= local, "C18.idle.config.never_above_own_nonzero_value");
        assert!(remote == Duration::ZERO || eff <= remote, "C18.idle.config.never_above_peer_nonzero_value");
        assert!(cfg.defer_idle_timeout == defer, "C18.idle.config.defer_timeout_unchanged");
        // heartbeat interval is re-derived from the effective value (project policy: half of it, within 1s..=30s)
        assert!(
            cfg.heartbeat_interval == IdleConfig::suitable_heartbeat_interval(eff),
            "C18.idle.config.sup.heartbeat_follows_effective_value"
        );
        assert!(
            cfg.heartbeat_interval >= Duration::from_secs(1) && cfg.heartbeat_interval <= Duration::from_secs(30),
            "C18.idle.config.sup.heartbeat_within_1s_30s"
        );
        kani::cover!(local == Duration::ZERO && remote == Duration::ZERO, "C18.idle.config.reach_both_zero");
        kani::cover!(local == Duration::ZERO && remote != Duration::ZERO, "C18.idle.config.reach_only_peer");
        kani::cover!(local != Duration::ZERO && remote == Duration::ZERO, "C18.idle.config.reach_only_local");
        kani::cover!(local != Duration::ZERO && remote != Duration::ZERO && remote < local, "C18.idle.config.reach_peer_smaller");
        kani::cover!(local != Duration::ZERO && remote != Duration::ZERO && local < remote, "C18.idle.config.reach_local_smaller");
        kani::cover!(local.as_secs() == remote.as_secs() && local.subsec_nanos() < remote.subsec_nanos() && local != Duration::ZERO, "C18.idle.config.reach_subsecond_difference");
    }

    /// the shared wrapper used by the connection (`qconnection/src/builder.rs:662`) delegates unchanged
    #[kani::proof]
    fn arc_negotiate_contract() {
        let local = any_duration();
        let remote = any_duration();
        let cfg = ArcIdleConfig::new(local, any_duration());
        cfg.negotiate_max_idle_timeout(remote);
        let eff = cfg.0.read().unwrap().max_idle_timeout;
        assert!(eff == spec_effective(local, remote), "C18.idle.arc_config.effective_is_smaller_nonzero");
        kani::cover!(eff == Duration::ZERO, "C18.idle.arc_config.reach_disabled");
        kani::cover!(eff == remote && eff != local, "C18.idle.arc_config.reach_peer_value");
    }
}
