// ---- spliced by /verif (contracts/c18_idle_0rtt) : contract on ServerParameters::is_0rtt_accepted ----------
// RFC 9000 §7.4.1: a client that attempts 0-RTT remembers initial_max_data, initial_max_stream_data_{bidi_local,
// bidi_remote,uni}, initial_max_streams_{bidi,uni}, active_connection_id_limit (and max_datagram_frame_size,
// RFC 9221 §3); "A server MUST NOT reduce any limits ... from those remembered"; a client that sees a reduced
// limit treats it as an error / must not honour the remembered set. An absent parameter has its RFC default.
// The two HashMap-backed sets are replaced by an oracle keyed on their (never used) hasher keys.
#[cfg(kani)]
mod verif_c18_zero_rtt {
    use super::*;

    const MARK_REMEMBERED: u64 = 0x01d;
    const MARK_NEW: u64 = 0x4e3;
    static mut REMEMBERED: [Option<u64>; 8] = [None; 8];
    static mut NEW: [Option<u64>; 8] = [None; 8];

    fn fixed_random_state() -> std::hash::RandomState {
        unsafe { std::mem::transmute::<[u64; 2], std::hash::RandomState>([1u64, 2u64]) }
    }

    /// the eight limits of RFC 9000 §7.4.1 / RFC 9221 §3 and their §18.2 defaults
    fn slot(id: ParameterId) -> Option<(usize, u64)> {
        match id {
            ParameterId::InitialMaxData => Some((0, 0)),
            ParameterId::InitialMaxStreamDataBidiLocal => Some((1, 0)),
            ParameterId::InitialMaxStreamDataBidiRemote => Some((2, 0)),
            ParameterId::InitialMaxStreamDataUni => Some((3, 0)),
            ParameterId::InitialMaxStreamsBidi => Some((4, 0)),
            ParameterId::InitialMaxStreamsUni => Some((5, 0)),
            ParameterId::ActiveConnectionIdLimit => Some((6, 2)),
            ParameterId::MaxDatagramFrameSize => Some((7, 0)),
            _ => None,
        }
    }

    impl<Role> Parameters<Role> {
        /// same shape as the real `get`: stored value, else the id's default, then the typed conversion
        fn oracle_get_0rtt<V>(&self, id: ParameterId) -> Option<V>
        where
            V: TryFrom<ParameterValue>,
        {
            let keys: [u64; 2] = unsafe { std::mem::transmute_copy(self.map.hasher()) };
            let (old, new) = unsafe { (REMEMBERED, NEW) };
            let stored = match (slot(id), keys[0]) {
                (Some((i, _)), MARK_REMEMBERED) => old[i],
                (Some((i, _)), MARK_NEW) => new[i],
                _ => None,
            };
            stored
                .map(|x| ParameterValue::VarInt(VarInt::from_u64(x).unwrap()))
                .or_else(|| id.default_value())
                .and_then(|v| v.try_into().ok())
        }
    }

    fn marked_set(mark: u64) -> ServerParameters {
        let mut s = ServerParameters::default();
        s.map = HashMap::with_hasher(unsafe { std::mem::transmute::<[u64; 2], std::hash::RandomState>([mark, 0]) });
        s
    }

    fn any_assignment() -> [Option<u64>; 8] {
        let mut a = [None; 8];
        let mut i = 0;
        while i < 8 {
            if kani::any() {
                let x: u64 = kani::any();
                kani::assume(x <= VARINT_MAX); // VarInt invariant: the set only holds what `be_varint` decoded
                a[i] = Some(x);
            }
            i += 1;
        }
        // validated oracle (C18.values.validate): active_connection_id_limit, if present, is >= 2
        kani::assume(a[6].map_or(true, |x| x >= 2));
        a
    }

    #[kani::proof]
    #[kani::unwind(10)]
    #[kani::stub(std::hash::RandomState::new, fixed_random_state)]
    #[kani::stub(crate::param::core::Parameters::get, crate::param::core::Parameters::oracle_get_0rtt)]
    fn is_0rtt_accepted_contract() {
        let (old, new) = (any_assignment(), any_assignment());
        unsafe {
            REMEMBERED = old;
            NEW = new;
        }
        let remembered = marked_set(MARK_REMEMBERED);
        let fresh = marked_set(MARK_NEW);
        let accepted = remembered.is_0rtt_accepted(&fresh);

        const DEFAULTS: [u64; 8] = [0, 0, 0, 0, 0, 0, 2, 0];
        let mut no_limit_reduced = true;
        let mut i = 0;
        while i < 8 {
            if old[i].unwrap_or(DEFAULTS[i]) > new[i].unwrap_or(DEFAULTS[i]) {
                no_limit_reduced = false;
            }
            i += 1;
        }
        assert!(!accepted || no_limit_reduced, "C18.zero_rtt.accepted_only_if_no_limit_reduced");
        assert!(accepted || !no_limit_reduced, "C18.zero_rtt.accepted_if_no_limit_reduced");
        kani::cover!(accepted, "C18.zero_rtt.reach_accepted");
        kani::cover!(!accepted && old[0] > new[0], "C18.zero_rtt.reach_reduced_max_data");
        kani::cover!(!accepted && old[7].is_some() && new[7].is_none(), "C18.zero_rtt.reach_datagram_withdrawn");
        kani::cover!(!accepted && old[6] > Some(2) && new[6].is_none(), "C18.zero_rtt.reach_cid_limit_back_to_default");
        kani::cover!(accepted && old[4] == new[4] && old[4].is_some(), "C18.zero_rtt.reach_equal_limits");
        std::mem::forget((remembered, fresh));
    }
}
