// ---- spliced by /verif (contracts/c04_update_largest) : contract of SentRotateGuard::update_largest ----
#[cfg(kani)]
mod verif_c04_update_largest {
    use qbase::varint::VarInt;

    use super::*;

    /// A sent journal that has handed out the packet numbers `0..next_pn` (all records already rotated
    /// away: `update_largest` reads only `IndexDeque::largest()` = offset + len) and has seen
    /// `largest_acked` acknowledged.
    fn journal(next_pn: u64, largest_acked: u64) -> ArcSentJournal<u8> {
        let mut j = SentJournal::<u8>::default();
        j.sent_packets.reset_offset(next_pn);
        j.largest_acked_pktno = largest_acked;
        ArcSentJournal(Arc::new(Mutex::new(j)))
    }

    fn any_ack(largest: u64) -> AckFrame {
        let first: u64 = kani::any();
        let delay: u64 = kani::any();
        kani::assume(first <= VARINT_MAX && delay <= VARINT_MAX);
        AckFrame::new(
            VarInt::from_u64(largest).unwrap(),
            VarInt::from_u64(delay).unwrap(),
            VarInt::from_u64(first).unwrap(),
            Vec::new(),
            None,
        )
    }

    fn run(next_pn: u64, old: u64, largest: u64) -> (Result<(), QuicError>, u64, u64, usize, usize) {
        let j = journal(next_pn, old);
        let ack = any_ack(largest);
        let mut g = j.rotate();
        let r = g.update_largest(&ack);
        let after = (
            g.inner.largest_acked_pktno,
            g.inner.sent_packets.largest(),
            g.inner.sent_packets.len(),
            g.inner.queue.len(),
        );
        // the guard's Drop runs SentJournal::resize, whose tracing::trace! site crashes the Kani compiler
        // (intrinsics.rs:243); resize is not part of this contract
        core::mem::forget(g);
        (r, after.0, after.1, after.2, after.3)
    }

    /// RFC 9000 §13.1: "An endpoint SHOULD treat receipt of an acknowledgment for a packet it did not send as
    /// a connection error of type PROTOCOL_VIOLATION".  `next_pn` is the number the NEXT packet will get,
    /// so every `largest >= next_pn` acknowledges a packet never sent.
    #[kani::proof]
    #[kani::unwind(2)] // std Mutex::lock_contended spin loop (unreachable: the mutex is never contended) must be cut
    fn update_largest_contract() {
        let next_pn: u64 = kani::any();
        let old: u64 = kani::any();
        let largest: u64 = kani::any();
        kani::assume(next_pn <= VARINT_MAX); // IndexDeque<_, VARINT_MAX> invariant
        kani::assume(old <= next_pn); // journal invariant established by update_largest itself (see finding below)
        kani::assume(largest <= VARINT_MAX); // VarInt
        // known finding, confined in `update_largest_accepts_next_unsent_pn`
        kani::assume(largest != next_pn);
        let (r, acked, nxt, len, qlen) = run(next_pn, old, largest);
        if largest >= next_pn {
            assert!(r.is_err(), "C04.ack.update_largest.unsent_pn_is_error");
            assert!(r.as_ref().err().map(|e| e.kind()) == Some(ErrorKind::ProtocolViolation), "C04.ack.update_largest.error_is_protocol_violation");
            assert!(acked == old, "C04.ack.update_largest.error_leaves_largest_acked");
        } else {
            assert!(r.is_ok(), "C10.ack.update_largest.sent_pn_accepted");
            assert!(acked == core::cmp::max(old, largest), "C10.ack.update_largest.largest_acked_is_max");
        }
        assert!(nxt == next_pn && len == 0 && qlen == 0, "C04.ack.update_largest.journal_unchanged");
        kani::cover!(r.is_err(), "C04.ack.update_largest.reach_err");
        kani::cover!(r.is_ok() && largest > old, "C04.ack.update_largest.reach_advance");
        kani::cover!(r.is_ok() && largest < old, "C04.ack.update_largest.reach_stale");
    }

    /// FINDING (confined): the guard is `ack.largest > sent_packets.largest()` where `largest()` is the
    /// number of the next packet to send, so an ACK for exactly the next, not yet sent, packet number is
    /// accepted (smallest witness: nothing sent at all, ACK{largest = 0}) and becomes `largest_acked`.
    #[kani::proof]
    #[kani::unwind(2)] // std Mutex::lock_contended spin loop (unreachable: the mutex is never contended) must be cut
    fn update_largest_accepts_next_unsent_pn() {
        let next_pn: u64 = kani::any();
        let old: u64 = kani::any();
        kani::assume(next_pn <= VARINT_MAX && old <= next_pn);
        let (r, _acked, _, _, _) = run(next_pn, old, next_pn);
        kani::cover!(next_pn == 0, "C04.ack.update_largest.reach_nothing_sent");
        assert!(r.is_err(), "C04.ack.update_largest.next_unsent_pn_is_error");
    }
}
