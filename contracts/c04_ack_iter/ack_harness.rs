// ---- spliced by /verif (contracts/c04_ack_iter) : contract of AckFrame::iter (RFC 9000 §19.3.1) ----
#[cfg(kani)]
mod verif_c04_ack_iter {
    use super::*;

    fn any_varint() -> VarInt {
        let x: u64 = kani::any();
        kani::assume(x <= crate::varint::VARINT_MAX); // type invariant of VarInt (all the decoder can produce)
        VarInt::from_u64(x).unwrap()
    }

    /// An ACK frame with `n` (gap, range) pairs, every field a full-domain VarInt.
    fn any_frame(n: usize) -> AckFrame {
        let mut ranges = Vec::new();
        let mut i = 0;
        while i < n {
            ranges.push((any_varint(), any_varint()));
            i += 1;
        }
        AckFrame::new(any_varint(), any_varint(), any_varint(), ranges, None)
    }

    /// RFC 9000 §19.3.1 decoding, written with checked arithmetic: `None` as soon as a computed
    /// packet number would be negative ("MUST generate a connection error of type FRAME_ENCODING_ERROR").
    /// Result `k`-th entry: (smallest, largest) of range k.
    fn rfc_ranges(f: &AckFrame) -> Option<[(u64, u64); 4]> {
        let mut out = [(0u64, 0u64); 4];
        let largest = f.largest();
        let mut smallest = largest.checked_sub(f.first_range())?;
        out[0] = (smallest, largest);
        let mut k = 0;
        while k < f.ranges().len() {
            let (gap, len) = f.ranges()[k];
            // largest_k = previous_smallest - gap - 2
            let l = smallest.checked_sub(gap.into_u64())?.checked_sub(2)?;
            smallest = l.checked_sub(len.into_u64())?;
            out[k + 1] = (smallest, l);
            k += 1;
        }
        Some(out)
    }

    fn check_against_rfc(f: &AckFrame, n: usize) {
        let spec = rfc_ranges(f).unwrap();
        let mut it = f.iter();
        let mut k = 0;
        let mut prev_left: u64 = 0;
        while k <= n {
            let r = it.next();
            assert!(r.is_some(), "C10.ack.iter.yields_one_range_per_field_pair");
            let r = r.unwrap();
            assert!(*r.start() == spec[k].0 && *r.end() == spec[k].1, "C10.ack.iter.range_equals_rfc_19_3_1");
            assert!(*r.start() <= *r.end() && *r.end() <= f.largest(), "C04.ack.iter.range_within_0_largest");
            if k > 0 {
                // descending and disjoint, with at least one unacknowledged number in between
                assert!(*r.end() + 2 <= prev_left, "C10.ack.iter.descending_disjoint");
            }
            prev_left = *r.start();
            k += 1;
        }
        assert!(it.next().is_none(), "C10.ack.iter.no_extra_range");
    }

    /// Base case + induction step, full domain: the first range is `[largest - first_range, largest]`
    /// and ONE scan step from an arbitrary previous left end (`largest - first_range` ranges over every
    /// value in [0, 2^62)) yields `[left - gap - 2 - range, left - gap - 2]`, for every frame whose
    /// computed numbers are non-negative.
    #[kani::proof]
    #[kani::unwind(4)]
    fn iter_first_and_step() {
        let n: usize = if kani::any() { 0 } else { 1 };
        let f = any_frame(n);
        kani::assume(rfc_ranges(&f).is_some()); // well-formed frame (the ill-formed region is `iter_illformed_*` below)
        check_against_rfc(&f, n);
        kani::cover!(n == 0, "C10.ack.iter.reach_single_range");
        kani::cover!(n == 1 && f.ranges()[0].0.into_u64() == 0 && f.ranges()[0].1.into_u64() == 0, "C10.ack.iter.reach_gap0_range0");
        // a well-formed frame can denote 2^62 packet numbers in one range: whoever walks the range
        // number by number does work proportional to the field, not to its own state
        kani::cover!(n == 0 && f.first_range() == crate::varint::VARINT_MAX, "C04.ack.iter.reach_range_of_2pow62_numbers");
    }

    /// Composition: up to 3 (gap, range) pairs, values full domain.
    #[kani::proof]
    #[kani::unwind(6)]
    fn iter_three_ranges() {
        let n: usize = kani::any();
        kani::assume(n <= 3);
        let f = any_frame(n);
        kani::assume(rfc_ranges(&f).is_some());
        check_against_rfc(&f, n);
        kani::cover!(n == 3, "C10.ack.iter.reach_three_pairs");
        kani::cover!(n == 3 && f.iter().last().map(|r| *r.start()) == Some(0), "C10.ack.iter.reach_down_to_zero");
    }

    /// FINDING (confined): frames whose ranges compute a negative packet number.  Nothing between the
    /// decoder and the handlers rejects them (`ack_frame_with_ecn` does not validate, the frame
    /// dispatchers in qconnection/src/space/{initial,handshake,data}.rs hand the frame to
    /// `cc.on_ack_rcvd` / `rcvd_journal.on_rcvd_ack`, both of which call `iter()`), so the property
    /// clause "acknowledging a negative packet number is an error and costs bounded work" requires
    /// `iter()` itself to be safe.  It is not: unchecked `largest - first_range` / `left - gap - 2` /
    /// `right - range` (debug: panic; release: wrap to ranges near 2^64).
    #[kani::proof]
    #[kani::unwind(4)]
    fn iter_illformed_frame() {
        let n: usize = if kani::any() { 0 } else { 1 };
        let f = any_frame(n);
        kani::assume(rfc_ranges(&f).is_none());
        kani::cover!(n == 0 && f.largest() == 0 && f.first_range() == 1, "C04.ack.iter.illformed.reach_first_range_exceeds_largest");
        kani::cover!(n == 1 && f.first_range() == 0, "C04.ack.iter.illformed.reach_gap_below_zero");
        let mut it = f.iter();
        let mut k = 0;
        while k <= n {
            if let Some(r) = it.next() {
                assert!(*r.end() <= f.largest(), "C04.ack.iter.illformed.no_range_above_largest");
            }
            k += 1;
        }
    }

    /// FINDING (confined), decoder side: `ack_frame_with_ecn` returns Ok for wire bytes whose first range
    /// is larger than the largest acknowledged (RFC 9000 §19.3.1: FRAME_ENCODING_ERROR).  Concrete witness
    /// bytes (a symbolic version of this harness takes 8 min in the nom bit parser): largest = 0, delay = 0,
    /// range count = 0, first range = 1, i.e. the frame acknowledges packet number -1.
    #[kani::proof]
    #[kani::unwind(10)]
    fn parse_admits_negative_pn() {
        let buf = [0u8, 0u8, 0u8, 1u8];
        let r = ack_frame_with_ecn(Ecn::None)(&buf[..]);
        kani::cover!(r.is_ok(), "C04.ack.parse.reach_ok");
        assert!(r.is_err(), "C04.ack.parse.negative_pn_rejected");
    }
}
