// ---- spliced by /verif (contracts/c16_sendwaker) : contracts on the real SendWaker protocol ---------
//
// `SendWaker` is only ever touched through `ArcSendWaker`, i.e. under ONE `Mutex`; so every schedule of
// waiters and notifiers is a *sequence* of the two atomic operations `poll_wait_for` / `wake_by`.
// The harnesses below prove a contract for each operation from an ARBITRARY pre-state, and an
// invariant that is (a) established by a `Pending` poll, (b) preserved by every operation that does not
// wake the sleeper, (c) strong enough to force a wake-up on a matching signal.  (a)+(b)+(c) is an
// induction over the length of the schedule: unbounded, no interleaving left out.
#[cfg(kani)]
mod verif_c16_sendwaker {
    use std::{future::Future, task::Context};

    use super::*;

    //@include counting_waker.rs

    /// who is registered in the slot: 0 nobody, 1 task a, 2 task b
    fn registered(sw: &SendWaker, a: &Task, b: &Task) -> u8 {
        match sw.waker.as_ref() {
            None => 0,
            Some(w) if a.is(w) => 1,
            Some(w) if b.is(w) => 2,
            Some(_) => 3,
        }
    }

    /// an arbitrary `SendWaker`: any state bits (all 16, also the ones no `Signals` constant names),
    /// the waker slot empty or holding task a or task b.  No invariant is assumed at all.
    fn any_send_waker(a: &Task, b: &Task) -> SendWaker {
        let waker = match kani::any::<u8>() % 3 {
            0 => None,
            1 => Some(a.waker()),
            _ => Some(b.waker()),
        };
        SendWaker { waker, state: kani::any() }
    }

    fn any_signals() -> Signals {
        Signals::from_bits_retain(kani::any())
    }

    /// contract of `poll_wait_for(S)` from any pre-state, polled by task a:
    /// none of the awaited conditions signalled  =>  Pending, a's waker is registered, state' == !S,
    /// otherwise Ready and the signals are consumed (state' == 0).  Nobody is woken by a poll.
    #[kani::proof]
    fn poll_wait_for_contract() {
        let (a, b) = (Task::new(), Task::new());
        let mut sw = any_send_waker(&a, &b);
        let s = any_signals();
        let (old_state, old_reg) = (sw.state, registered(&sw, &a, &b));
        let w = a.waker();
        let mut cx = Context::from_waker(&w);

        let r = sw.poll_wait_for(&mut cx, s);

        if old_state & s.bits() == 0 {
            assert!(r.is_pending(), "C16.sendwaker.poll.pending_iff_no_awaited_signal_set");
            assert!(registered(&sw, &a, &b) == 1, "C16.sendwaker.poll.pending_registers_callers_waker");
            assert!(sw.waker.as_ref().is_some_and(|x| x.will_wake(&w)), "C16.sendwaker.poll.pending_registers_callers_waker.will_wake");
            assert!(sw.state == !s.bits(), "C16.sendwaker.poll.pending_state_awaits_exactly_s");
            assert!(sw.state & s.bits() == 0, "C16.sendwaker.poll.sup.pending_awaited_bits_clear");
        } else {
            assert!(r.is_ready(), "C16.sendwaker.poll.ready_iff_some_awaited_signal_set");
            assert!(sw.state == 0, "C16.sendwaker.poll.ready_consumes_signals");
            assert!(registered(&sw, &a, &b) == old_reg, "C16.sendwaker.poll.ready_keeps_registration");
        }
        assert!(a.wakes() == 0 && b.wakes() == 0, "C16.sendwaker.poll.wakes_nobody");
        // no waker handle leaked or double-dropped: one in the harness (`w`) + one per occupied slot
        let in_slot_a = (registered(&sw, &a, &b) == 1) as u32;
        let in_slot_b = (registered(&sw, &a, &b) == 2) as u32;
        assert!(a.live() == 1 + in_slot_a && b.live() == in_slot_b, "C16.sendwaker.poll.sup.no_handle_leak");

        kani::cover!(r.is_pending() && old_reg == 0, "C16.sendwaker.poll.reach_pending_first_registration");
        kani::cover!(r.is_pending() && old_reg == 1, "C16.sendwaker.poll.reach_pending_same_task");
        kani::cover!(r.is_pending() && old_reg == 2, "C16.sendwaker.poll.reach_pending_replaces_other_task");
        kani::cover!(r.is_ready(), "C16.sendwaker.poll.reach_ready");
        kani::cover!(r.is_pending() && s.is_empty(), "C16.sendwaker.poll.reach_pending_on_empty_set");
    }

    /// contract of `wake_by(s)` from any pre-state: state' == state | s, the registration is untouched,
    /// the registered waker is woken (exactly once) iff s sets a bit that was clear, nobody else is woken.
    #[kani::proof]
    fn wake_by_contract() {
        let (a, b) = (Task::new(), Task::new());
        let mut sw = any_send_waker(&a, &b);
        let s = any_signals();
        let (old_state, old_reg) = (sw.state, registered(&sw, &a, &b));

        sw.wake_by(s);

        assert!(sw.state == old_state | s.bits(), "C16.sendwaker.wake_by.state_accumulates_signal");
        assert!(registered(&sw, &a, &b) == old_reg, "C16.sendwaker.wake_by.keeps_registration");
        let news = s.bits() & !old_state != 0;
        let wa = (news && old_reg == 1) as u32;
        let wb = (news && old_reg == 2) as u32;
        assert!(a.wakes() == wa && b.wakes() == wb, "C16.sendwaker.wake_by.wakes_registered_iff_new_bit");
        assert!(a.live() == (old_reg == 1) as u32 && b.live() == (old_reg == 2) as u32, "C16.sendwaker.wake_by.sup.no_handle_leak");

        kani::cover!(news && old_reg == 1, "C16.sendwaker.wake_by.reach_wakes");
        kani::cover!(news && old_reg == 0, "C16.sendwaker.wake_by.reach_new_bit_nobody_registered");
        kani::cover!(!news && old_reg == 1 && !s.is_empty(), "C16.sendwaker.wake_by.reach_already_set_no_wake");
    }

    /// invariant "task t sleeps on S and has not been notified yet": its waker is the registered one,
    /// none of the bits of S is set and every other bit is set (state == !S: exactly S is awaited).
    fn asleep_on(sw: &SendWaker, t: &Task, s: Signals) -> bool {
        sw.waker.as_ref().is_some_and(|w| t.is(w)) && sw.state == !s.bits()
    }

    /// (a) establishment: a `Pending` poll from ANY state puts the structure into `asleep_on(S)`.
    #[kani::proof]
    fn lemma_pending_establishes_invariant() {
        let (a, b) = (Task::new(), Task::new());
        let mut sw = any_send_waker(&a, &b);
        let s = any_signals();
        let w = a.waker();
        let mut cx = Context::from_waker(&w);
        if sw.poll_wait_for(&mut cx, s).is_pending() {
            assert!(asleep_on(&sw, &a, s), "C16.sendwaker.inv.established_by_pending_poll");
        }
        kani::cover!(asleep_on(&sw, &a, s) && !s.is_empty(), "C16.sendwaker.inv.reach_asleep");
    }

    /// (b)+(c) the inductive step, single waiter (task a is the only task that ever polls this
    /// SendWaker -- documented use: one `Burst` loop per path), from ANY state with a asleep on S:
    ///  * `wake_by(s)` with s & S != 0 wakes a                      -- NO LOST WAKE-UP,
    ///    and a's next `poll_wait_for(S)` is Ready                  -- the woken task observes the condition;
    ///  * `wake_by(s)` with s & S == 0 keeps a asleep on S, not woken (no spurious wake, invariant kept);
    ///  * a re-poll by a itself (spurious wake-up, other S2) either is Ready or leaves a asleep on S2.
    #[kani::proof]
    fn lemma_no_lost_wakeup() {
        let (a, b) = (Task::new(), Task::new());
        let mut sw = any_send_waker(&a, &b);
        let s = any_signals();
        kani::assume(asleep_on(&sw, &a, s)); // the invariant (induction hypothesis)
        let w = a.waker();
        let mut cx = Context::from_waker(&w);

        if kani::any() {
            // a notifier runs
            let sig = any_signals();
            sw.wake_by(sig);
            if sig.bits() & s.bits() != 0 {
                assert!(a.wakes() == 1, "C16.sendwaker.no_lost_wakeup.matching_signal_wakes_sleeper");
                assert!(sw.poll_wait_for(&mut cx, s).is_ready(), "C16.sendwaker.no_lost_wakeup.woken_task_observes_condition");
                kani::cover!(true, "C16.sendwaker.no_lost_wakeup.reach_matching_signal");
            } else {
                assert!(a.wakes() == 0, "C16.sendwaker.no_lost_wakeup.sup.unrelated_signal_does_not_wake");
                assert!(asleep_on(&sw, &a, s), "C16.sendwaker.inv.preserved_by_unrelated_signal");
                kani::cover!(!sig.is_empty(), "C16.sendwaker.no_lost_wakeup.reach_unrelated_signal");
            }
        } else {
            // the sleeper itself is polled again (spuriously), possibly for another set
            let s2 = any_signals();
            let r = sw.poll_wait_for(&mut cx, s2);
            assert!(r.is_ready() || asleep_on(&sw, &a, s2), "C16.sendwaker.inv.preserved_by_repoll");
            assert!(a.wakes() == 0, "C16.sendwaker.inv.sup.repoll_wakes_nobody");
            kani::cover!(r.is_pending() && s2.bits() != s.bits(), "C16.sendwaker.inv.reach_repoll_other_set");
            kani::cover!(r.is_ready(), "C16.sendwaker.inv.reach_repoll_ready");
        }
    }

    /// the check-then-register window: a condition that is signalled after the task looked at it but
    /// BEFORE it registers is not lost either -- from ANY state, `wake_by(s)` followed (after any number
    /// of further notifications) by `poll_wait_for(S)`, s & S != 0, is Ready.
    #[kani::proof]
    fn lemma_signal_before_register_is_observed() {
        let (a, b) = (Task::new(), Task::new());
        let mut sw = any_send_waker(&a, &b);
        let (s, sig, later) = (any_signals(), any_signals(), any_signals());
        kani::assume(sig.bits() & s.bits() != 0);
        sw.wake_by(sig);
        sw.wake_by(later); // notifications only accumulate (wake_by_contract: state' == state | s)
        let w = a.waker();
        let mut cx = Context::from_waker(&w);
        assert!(sw.poll_wait_for(&mut cx, s).is_ready(), "C16.sendwaker.no_lost_wakeup.signal_before_register_observed");
    }

    /// caller obligations made explicit (witnesses, not defects of `SendWaker` itself):
    ///  * waiting for the EMPTY set can never be ended by any `wake_by` -- `wait_for(Signals::empty())`
    ///    sleeps until the task is dropped;
    ///  * a second task polling the same SendWaker replaces the first registration: the first sleeper is
    ///    then not woken by its signal (single-waiter precondition).
    #[kani::proof]
    fn caller_obligations() {
        let (a, b) = (Task::new(), Task::new());
        let mut sw = any_send_waker(&a, &b);
        let wa = a.waker();
        let mut cxa = Context::from_waker(&wa);
        if kani::any() {
            let r = sw.poll_wait_for(&mut cxa, Signals::empty());
            assert!(r.is_pending(), "C16.sendwaker.obligation.sup.empty_set_is_always_pending");
            sw.wake_by(any_signals());
            assert!(a.wakes() == 0, "C16.sendwaker.obligation.sup.empty_set_is_never_woken");
            assert!(sw.poll_wait_for(&mut cxa, Signals::empty()).is_pending(), "C16.sendwaker.obligation.sup.empty_set_never_ready");
        } else {
            let s = any_signals();
            kani::assume(!s.is_empty());
            kani::assume(sw.poll_wait_for(&mut cxa, s).is_pending());
            let wb = b.waker();
            let mut cxb = Context::from_waker(&wb);
            kani::assume(sw.poll_wait_for(&mut cxb, s).is_pending());
            sw.wake_by(s);
            kani::cover!(a.wakes() == 0 && b.wakes() == 1, "C16.sendwaker.obligation.reach_second_waiter_steals_wakeup");
        }
    }

    /// the shared form: `ArcSendWaker::{wait_for, wake_by}` are exactly the two operations under the lock
    /// (the future returned by `wait_for` registers the polling task and completes after a matching signal).
    // unwind bound: the code is loop-free; the bound only cuts the (infeasible) recursive drop glue of
    // `Box<dyn Error>` candidates CBMC otherwise unrolls forever; unwinding assertions stay on.
    #[kani::proof]
    #[kani::unwind(3)]
    fn arc_send_waker_contract() {
        let a = Task::new();
        let w = a.waker();
        let mut cx = Context::from_waker(&w);
        let arc = ArcSendWaker::new();
        let other = arc.clone(); // the notifier's handle
        let s = any_signals();
        let pre = any_signals(); // something signalled before the task starts waiting
        other.wake_by(pre);
        {
            let mut fut = core::pin::pin!(arc.wait_for(s));
            let r1 = fut.as_mut().poll(&mut cx);
            assert!(r1.is_ready() == (pre.bits() & s.bits() != 0), "C16.sendwaker.arc.first_poll_ready_iff_presignalled");
            if r1.is_pending() {
                let sig = any_signals();
                other.wake_by(sig);
                assert!((a.wakes() == 1) == (sig.bits() & s.bits() != 0), "C16.sendwaker.arc.woken_iff_matching_signal");
                let r2 = fut.as_mut().poll(&mut cx);
                assert!(r2.is_ready() == (sig.bits() & s.bits() != 0), "C16.sendwaker.arc.ready_iff_matching_signal");
                kani::cover!(r2.is_ready(), "C16.sendwaker.arc.reach_woken_then_ready");
                kani::cover!(r2.is_pending() && !sig.is_empty(), "C16.sendwaker.arc.reach_still_pending");
            }
        }
    }
}
