    // ---- counting waker (contracts/c16_sendwaker/counting_waker.rs, included by the C16/C19 units) ----
    // A `Task` stands for one sleeping task. Its `Waker` is built from a `RawWakerVTable`; the data
    // pointer is the address of the `Task`, so `Waker::will_wake` observes *identity*, and the vtable
    // functions count wake-ups / clones / drops, so "was woken" and "no waker leaked" are observable.
    // The `Task` must not move after `waker()` was called (it is only ever used from a `let` binding).
    pub(crate) struct Task {
        pub wakes: core::cell::Cell<u32>,
        pub clones: core::cell::Cell<u32>,
        pub drops: core::cell::Cell<u32>,
    }

    static TASK_VT: core::task::RawWakerVTable =
        core::task::RawWakerVTable::new(task_clone, task_wake, task_wake_by_ref, task_drop);

    unsafe fn task_clone(p: *const ()) -> core::task::RawWaker {
        let t = unsafe { &*(p as *const Task) };
        t.clones.set(t.clones.get() + 1);
        core::task::RawWaker::new(p, &TASK_VT)
    }
    unsafe fn task_wake(p: *const ()) {
        // `Waker::wake(self)` consumes the waker: one wake-up and one release
        let t = unsafe { &*(p as *const Task) };
        t.wakes.set(t.wakes.get() + 1);
        t.drops.set(t.drops.get() + 1);
    }
    unsafe fn task_wake_by_ref(p: *const ()) {
        let t = unsafe { &*(p as *const Task) };
        t.wakes.set(t.wakes.get() + 1);
    }
    unsafe fn task_drop(p: *const ()) {
        let t = unsafe { &*(p as *const Task) };
        t.drops.set(t.drops.get() + 1);
    }

    #[allow(dead_code)]
    impl Task {
        pub fn new() -> Self {
            Task {
                wakes: core::cell::Cell::new(0),
                clones: core::cell::Cell::new(0),
                drops: core::cell::Cell::new(0),
            }
        }
        /// a fresh handle (counts as one clone, so that `live()` is the number of handles alive)
        pub fn waker(&self) -> core::task::Waker {
            self.clones.set(self.clones.get() + 1);
            unsafe {
                core::task::Waker::from_raw(core::task::RawWaker::new(
                    self as *const Task as *const (),
                    &TASK_VT,
                ))
            }
        }
        pub fn wakes(&self) -> u32 {
            self.wakes.get()
        }
        /// number of `Waker` handles of this task that are still alive somewhere
        pub fn live(&self) -> u32 {
            self.clones.get() - self.drops.get()
        }
        /// does `w` wake this task? (identity, the same test `Waker::will_wake` makes)
        pub fn is(&self, w: &core::task::Waker) -> bool {
            w.data() == self as *const Task as *const ()
        }
    }
