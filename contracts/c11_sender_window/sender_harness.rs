// ---- spliced by /verif (contracts/c11_sender_window) : stream-level send window never shrinks ----
#[cfg(kani)]
mod verif_c11_sender_window {
    use super::*;

    /// stub for `ArcSendWakers::wake_all_by` (BTreeMap range walk: CBMC does not terminate on it); liveness only
    fn noop_wake(_w: &ArcSendWakers, _s: Signals) {}

    fn any_sid() -> StreamId {
        let raw: u64 = kani::any();
        kani::assume(raw <= VARINT_MAX);
        StreamId::from(VarInt::from_u64(raw).unwrap())
    }

    fn larger(a: u64, b: u64) -> u64 {
        if a > b { a } else { b }
    }

    /// `ReadySender::{new, update_window, revise_max_stream_data}` on a stream that has not written yet
    /// (exactly the state in which Listener::poll_accept_bi_stream installs the peer's initial window, and in which a
    ///  MAX_STREAM_DATA for a fresh stream arrives)
    #[kani::proof]
    #[kani::unwind(3)]
    #[kani::stub(qbase::net::tx::ArcSendWakers::wake_all_by, noop_wake)]
    fn ready_window_contract() {
        let cap: u64 = kani::any();
        let v: u64 = kani::any();
        kani::assume(cap <= VARINT_MAX && v <= VARINT_MAX); // both are varints (transport parameter / MAX_STREAM_DATA)
        let mut s = ReadySender::new(any_sid(), cap, (), ArcSendWakers::default(), None);
        assert!(s.sndbuf.max_data() == cap, "C11.sender.new.window_is_given_initial_limit");
        if kani::any() {
            s.update_window(v);
            assert!(s.sndbuf.max_data() >= cap, "C11.sender.ready.update_window.never_shrinks");
            assert!(s.sndbuf.max_data() == larger(cap, v), "C11.sender.ready.update_window.is_largest_advertised");
        } else {
            let rejected: bool = kani::any();
            s.revise_max_stream_data(rejected, v);
            assert!(rejected || s.sndbuf.max_data() >= cap, "C11.sender.ready.revise.never_shrinks_unless_rejected");
            assert!(s.sndbuf.max_data() == if rejected { v } else { larger(cap, v) }, "C11.sender.ready.revise.rejected_takes_new_parameter");
        }
        assert!(s.sndbuf.written() == 0 && s.sndbuf.sent() == 0, "C11.sender.ready.update_window.sup.no_data_appears");
        kani::cover!(v > cap, "C11.sender.ready.reach_raise");
        kani::cover!(v < cap, "C11.sender.ready.reach_stale");
        core::mem::forget(s);
    }

    /// the same for `SendingSender::{update_window, revise_max_stream_data}`
    #[kani::proof]
    #[kani::unwind(3)]
    #[kani::stub(qbase::net::tx::ArcSendWakers::wake_all_by, noop_wake)]
    fn sending_window_contract() {
        let cap: u64 = kani::any();
        let v: u64 = kani::any();
        kani::assume(cap <= VARINT_MAX && v <= VARINT_MAX);
        let mut s = SendingSender {
            stream_id: any_sid(),
            sndbuf: SendBuf::with_capacity(cap),
            flush_waker: None,
            shutdown_waker: None,
            broker: (),
            tx_wakers: ArcSendWakers::default(),
            writable_waker: if kani::any() { Some(Waker::noop().clone()) } else { None },
            metrics: None,
        };
        if kani::any() {
            s.update_window(v);
            assert!(s.sndbuf.max_data() >= cap, "C11.sender.sending.update_window.never_shrinks");
            assert!(s.sndbuf.max_data() == larger(cap, v), "C11.sender.sending.update_window.is_largest_advertised");
            assert!(s.writable_waker.is_none() || !(v > cap), "C11.sender.sending.update_window.sup.writer_woken_when_room");
        } else {
            let rejected: bool = kani::any();
            s.revise_max_stream_data(rejected, v);
            assert!(s.sndbuf.max_data() == if rejected { v } else { larger(cap, v) }, "C11.sender.sending.revise.rejected_takes_new_parameter");
        }
        kani::cover!(v > cap, "C11.sender.sending.reach_raise");
        core::mem::forget(s);
    }

    /// `ArcSender::{new, update_window}` (what DataStreams::recv_stream_control(MAX_STREAM_DATA) and the listener call)
    #[kani::proof]
    #[kani::unwind(3)]
    #[kani::stub(qbase::net::tx::ArcSendWakers::wake_all_by, noop_wake)]
    fn arc_update_window_contract() {
        let cap: u64 = kani::any();
        let v: u64 = kani::any();
        kani::assume(cap <= VARINT_MAX);
        kani::assume(v <= VARINT_MAX); // documented precondition: `assert!(max_stream_data <= VARINT_MAX)`
        let a = ArcSender::new(any_sid(), cap, (), ArcSendWakers::default(), None);
        a.update_window(v);
        {
            let g = a.sender();
            match g.as_ref() {
                Ok(Sender::Ready(s)) => {
                    assert!(s.sndbuf.max_data() == larger(cap, v), "C11.sender.arc.update_window.is_largest_advertised");
                }
                _ => assert!(false, "C11.sender.arc.new_starts_ready"),
            }
        }
        core::mem::forget(a);
    }
}
