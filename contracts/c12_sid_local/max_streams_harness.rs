// ---- spliced by /verif (contracts/c12_sid_local) : MAX_STREAMS parser establishes increase_limit's precondition ----
#[cfg(kani)]
mod verif_c12_max_streams {
    use super::*;

    /// contract of `max_streams_frame_with_dir`: a parsed MAX_STREAMS value is never above MAX_STREAMS_LIMIT
    /// (= the `assert!(val <= MAX_STREAMS_LIMIT)` precondition of `LocalStreamIds::increase_limit`, so a peer cannot
    /// trigger that assertion with a frame), keeps the requested direction, and consumes exactly the varint.
    #[kani::proof]
    #[kani::unwind(10)]
    fn max_streams_parser_contract() {
        let buf: [u8; 9] = kani::any();
        let dir = if kani::any() { Dir::Bi } else { Dir::Uni };
        let n = 1usize << (buf[0] >> 6); // varint length announced by the first byte
        let mut val: u64 = (buf[0] & 0x3f) as u64;
        let mut i = 1;
        while i < n {
            val = (val << 8) | buf[i] as u64;
            i += 1;
        }
        match max_streams_frame_with_dir(dir)(&buf[..]) {
            Ok((rest, f)) => {
                let (d, v) = match f {
                    MaxStreamsFrame::Bi(v) => (Dir::Bi, v.into_u64()),
                    MaxStreamsFrame::Uni(v) => (Dir::Uni, v.into_u64()),
                };
                assert!(v <= MAX_STREAMS_LIMIT, "C12.max_streams.parse.value_within_stream_count_limit");
                assert!(d == dir, "C12.max_streams.parse.keeps_direction");
                assert!(v == val && rest.len() == 9 - n, "C12.max_streams.parse.value_is_the_varint_on_the_wire");
                assert!(MaxStreamsFrame::with(dir, VarInt::from_u64(v).unwrap()) == f, "C12.max_streams.with.builds_same_frame");
            }
            Err(_) => {
                assert!(val > MAX_STREAMS_LIMIT, "C12.max_streams.parse.rejects_only_oversized_counts");
            }
        }
        kani::cover!(val == MAX_STREAMS_LIMIT, "C12.max_streams.parse.reach_top");
        kani::cover!(val > MAX_STREAMS_LIMIT, "C12.max_streams.parse.reach_reject");
        kani::cover!(n == 1, "C12.max_streams.parse.reach_one_byte");
    }
}
