// ---- spliced by /verif (contracts/c12_sid_local) : contracts on the real local-stream-id allocator ----
#[cfg(kani)]
mod verif_c12_sid_local {
    use core::cell::Cell;

    use super::*;

    /// trivial STREAMS_BLOCKED sink for the generic `BLOCKED` parameter (one frame per call, loop-free)
    #[derive(Debug, Default, Clone)]
    struct Sink {
        n: Cell<u32>,
        last_dir: Cell<u8>,
        last: Cell<u64>,
    }

    impl SendFrame<StreamsBlockedFrame> for Sink {
        fn send_frame<I: IntoIterator<Item = StreamsBlockedFrame>>(&self, iter: I) {
            let mut it = iter.into_iter();
            if let Some(f) = it.next() {
                self.n.set(self.n.get() + 1);
                match f {
                    StreamsBlockedFrame::Bi(v) => {
                        self.last_dir.set(0);
                        self.last.set(v.into_u64());
                    }
                    StreamsBlockedFrame::Uni(v) => {
                        self.last_dir.set(1);
                        self.last.set(v.into_u64());
                    }
                }
            }
            assert!(it.next().is_none(), "C12.local_sid.sup.sink_gets_one_frame_per_call");
        }
    }

    /// stub for `ArcSendWakers::wake_all_by` (BTreeMap range walk: CBMC does not terminate on it);
    /// waking the sending task is liveness, not part of the C12 contract
    fn noop_wake(_w: &ArcSendWakers, _s: Signals) {}

    fn any_role() -> Role {
        if kani::any() { Role::Client } else { Role::Server }
    }

    fn any_dir() -> Dir {
        if kani::any() { Dir::Bi } else { Dir::Uni }
    }

    /// arbitrary allocator state. Type invariants taken from the code:
    ///   max[d] <= MAX_STREAMS_LIMIT   (`increase_limit` asserts it for every value it installs)
    ///   unallocated[d] <= 2^60        (incremented only while < max[d])
    /// `unallocated <= max` is NOT assumed here (it does not hold after a rejected 0-RTT attempt); harnesses that
    /// need it say so. Waker queues start empty.
    fn any_local() -> LocalStreamIds<Sink> {
        let max: [u64; 2] = [kani::any(), kani::any()];
        let un: [u64; 2] = [kani::any(), kani::any()];
        kani::assume(max[0] <= MAX_STREAMS_LIMIT && max[1] <= MAX_STREAMS_LIMIT);
        kani::assume(un[0] <= MAX_STREAMS_LIMIT + 1 && un[1] <= MAX_STREAMS_LIMIT + 1);
        LocalStreamIds {
            role: any_role(),
            max,
            unallocated: un,
            wakers: [VecDeque::with_capacity(2), VecDeque::with_capacity(2)],
            blocked: Sink::default(),
            tx_wakers: ArcSendWakers::default(),
        }
    }

    /// contract of `LocalStreamIds::poll_alloc_sid` (C12: never opens more streams than the peer allows;
    /// STREAMS_BLOCKED when blocked)
    #[kani::proof]
    #[kani::unwind(3)]
    #[kani::stub(crate::net::tx::ArcSendWakers::wake_all_by, noop_wake)]
    fn poll_alloc_sid_contract() {
        let mut l = any_local();
        let dir = any_dir();
        let idx = dir as usize;
        let (max0, un0, role0) = (l.max, l.unallocated, l.role);
        let mut cx = Context::from_waker(Waker::noop());
        let r = l.poll_alloc_sid(&mut cx, dir);
        assert!(l.max[0] == max0[0] && l.max[1] == max0[1] && l.role == role0, "C12.local_sid.poll_alloc_sid.limits_and_role_unchanged");
        assert!(l.unallocated[1 - idx] == un0[1 - idx], "C12.local_sid.poll_alloc_sid.other_direction_unchanged");
        match r {
            Poll::Ready(Some(sid)) => {
                // the i-th stream (index i) may be opened only if i < advertised count
                assert!(sid.id() < max0[idx], "C12.local_sid.poll_alloc_sid.allocated_index_below_peer_limit");
                assert!(sid.id() == un0[idx], "C12.local_sid.poll_alloc_sid.allocates_next_unused_index");
                assert!(sid.role() == role0 && sid.dir() == dir, "C12.local_sid.poll_alloc_sid.sid_has_own_role_and_requested_direction");
                assert!(l.unallocated[idx] == un0[idx] + 1, "C12.local_sid.poll_alloc_sid.cursor_advances_by_one");
                assert!(l.blocked.n.get() == 0 && l.wakers[idx].is_empty(), "C12.local_sid.poll_alloc_sid.no_blocked_frame_when_allocating");
            }
            Poll::Ready(None) => {
                assert!(un0[idx] > MAX_STREAMS_LIMIT, "C12.local_sid.poll_alloc_sid.none_only_when_id_space_exhausted");
                assert!(l.unallocated[idx] == un0[idx] && l.blocked.n.get() == 0, "C12.local_sid.poll_alloc_sid.none_changes_nothing");
            }
            Poll::Pending => {
                assert!(un0[idx] >= max0[idx], "C12.local_sid.poll_alloc_sid.pending_only_at_limit");
                assert!(l.unallocated[idx] == un0[idx], "C12.local_sid.poll_alloc_sid.pending_allocates_nothing");
                assert!(l.blocked.n.get() == 1 && l.blocked.last.get() == max0[idx] && l.blocked.last_dir.get() == idx as u8,
                        "C12.local_sid.poll_alloc_sid.pending_emits_streams_blocked_with_current_limit");
                assert!(l.wakers[idx].len() == 1 && l.wakers[1 - idx].is_empty(), "C12.local_sid.poll_alloc_sid.pending_registers_waker");
            }
        }
        // complete case split
        assert!(matches!(r, Poll::Ready(Some(_))) == (un0[idx] < max0[idx] && un0[idx] <= MAX_STREAMS_LIMIT),
                "C12.local_sid.poll_alloc_sid.allocates_iff_below_limit");
        // the allocation invariant is kept whenever it held
        assert!(un0[idx] > max0[idx] || l.unallocated[idx] <= l.max[idx], "C12.local_sid.poll_alloc_sid.keeps_unallocated_le_max");
        kani::cover!(matches!(r, Poll::Ready(Some(_))), "C12.local_sid.poll_alloc_sid.reach_alloc");
        kani::cover!(matches!(r, Poll::Pending) && max0[idx] == 0, "C12.local_sid.poll_alloc_sid.reach_blocked_at_zero");
        kani::cover!(matches!(r, Poll::Ready(None)), "C12.local_sid.poll_alloc_sid.reach_exhausted");
        core::mem::forget(l);
    }

    /// contract of the MAX_STREAMS receive path `recv_max_streams_frame` -> `increase_limit`
    /// (limit never lowered by a frame; becomes the largest value advertised), waker queue empty
    #[kani::proof]
    #[kani::unwind(3)]
    #[kani::stub(crate::net::tx::ArcSendWakers::wake_all_by, noop_wake)]
    fn recv_max_streams_frame_contract() {
        let mut l = any_local();
        let dir = any_dir();
        let idx = dir as usize;
        let (max0, un0) = (l.max, l.unallocated);
        let v: u64 = kani::any();
        // documented precondition: `assert!(val <= MAX_STREAMS_LIMIT)`; established by the frame parser
        // (max_streams_frame_with_dir rejects larger values, see max_streams_parser_contract)
        kani::assume(v <= MAX_STREAMS_LIMIT);
        l.recv_max_streams_frame(MaxStreamsFrame::with(dir, VarInt::from_u64(v).unwrap()));
        assert!(l.max[idx] >= max0[idx], "C12.local_sid.recv_max_streams.never_lowers_limit");
        assert!(l.max[idx] == if v > max0[idx] { v } else { max0[idx] }, "C12.local_sid.recv_max_streams.limit_is_largest_advertised");
        assert!(l.max[1 - idx] == max0[1 - idx], "C12.local_sid.recv_max_streams.other_direction_unchanged");
        assert!(l.unallocated[0] == un0[0] && l.unallocated[1] == un0[1], "C12.local_sid.recv_max_streams.allocates_nothing");
        assert!(l.blocked.n.get() == 0, "C12.local_sid.recv_max_streams.emits_no_frame");
        kani::cover!(v > max0[idx], "C12.local_sid.recv_max_streams.reach_raise");
        kani::cover!(v < max0[idx], "C12.local_sid.recv_max_streams.reach_stale");
        core::mem::forget(l);
    }

    // NOTE "blocked, then MAX_STREAMS raises the limit, then the retry allocates": a harness with ONE waker queued in
    // the VecDeque<Waker> (`increase_limit` drains it) was tried: CBMC runs out of memory (> 30 GB). The clause follows
    // from the two contracts above: recv_max_streams installs max' = v > max = unallocated, and poll_alloc_sid on that
    // state returns index `unallocated` < v. Releasing the waiters themselves is liveness and stays unverified.

    /// `revise_max_streams` + `opened_streams`. Contract (doc comment of ArcLocalStreamIds::opened_streams and the
    /// use in DataStreams::try_load_data_into_once: "streams beyond max_streams are not allowed to be sent"):
    /// the number of streams reported as usable never exceeds the peer's limit.
    /// FINDING region excluded here and pinned in `revise_rejected_opened_streams_finding`:
    /// zero_rtt_rejected && more streams were opened in 0-RTT than the new limit allows.
    #[kani::proof]
    #[kani::unwind(3)]
    #[kani::stub(crate::net::tx::ArcSendWakers::wake_all_by, noop_wake)]
    fn revise_max_streams_contract() {
        let mut l = any_local();
        let (max0, un0) = (l.max, l.unallocated);
        kani::assume(un0[0] <= max0[0] && un0[1] <= max0[1]); // invariant before the handshake completes
        let rejected: bool = kani::any();
        let b: u64 = kani::any();
        let u: u64 = kani::any();
        // documented precondition (assert in increase_limit); NOT established by the transport-parameter parser
        // (C18: initial_max_streams_* > 2^60-1 reaches this assert) - recorded as an assumption
        kani::assume(b <= MAX_STREAMS_LIMIT && u <= MAX_STREAMS_LIMIT);
        kani::assume(!(rejected && (un0[0] > b || un0[1] > u))); // known bad region
        l.revise_max_streams(rejected, b, u);
        assert!(rejected || (l.max[0] >= max0[0] && l.max[1] >= max0[1]), "C12.local_sid.revise_max_streams.never_lowers_unless_rejected");
        assert!(!rejected || (l.max[0] == b && l.max[1] == u), "C12.local_sid.revise_max_streams.rejected_takes_new_parameters");
        assert!(l.unallocated[0] == un0[0] && l.unallocated[1] == un0[1], "C12.local_sid.revise_max_streams.allocates_nothing");
        assert!(l.opened_streams(Dir::Bi) <= l.max[0] && l.opened_streams(Dir::Uni) <= l.max[1],
                "C12.local_sid.opened_streams.never_above_peer_limit");
        assert!(l.opened_streams(Dir::Bi) == un0[0] && l.opened_streams(Dir::Uni) == un0[1],
                "C12.local_sid.opened_streams.is_number_of_allocated_streams");
        kani::cover!(rejected && b < max0[0], "C12.local_sid.revise_max_streams.reach_rejected_lower");
        kani::cover!(!rejected && b > max0[0], "C12.local_sid.revise_max_streams.reach_raise");
        core::mem::forget(l);
    }

    /// FINDING (confined): after a rejected 0-RTT attempt with a smaller new limit, `opened_streams` still reports
    /// every stream opened in 0-RTT, so `try_load_data_into_once`'s `stream_allowed` filter lets streams with
    /// index >= the peer's limit be (re)sent in 1-RTT.
    #[kani::proof]
    #[kani::unwind(3)]
    #[kani::stub(crate::net::tx::ArcSendWakers::wake_all_by, noop_wake)]
    fn revise_rejected_opened_streams_finding() {
        let mut l = any_local();
        let un0 = l.unallocated;
        kani::assume(un0[0] <= l.max[0] && un0[1] <= l.max[1]);
        let b: u64 = kani::any();
        let u: u64 = kani::any();
        kani::assume(b <= MAX_STREAMS_LIMIT && u <= MAX_STREAMS_LIMIT);
        kani::assume(un0[0] > b || un0[1] > u);
        l.revise_max_streams(true, b, u);
        let ok = l.opened_streams(Dir::Bi) <= l.max[0] && l.opened_streams(Dir::Uni) <= l.max[1];
        core::mem::forget(l);
        assert!(ok, "C12.local_sid.opened_streams.rejected_0rtt_never_above_peer_limit");
    }

    /// `StreamId::{new, role, dir, id}` bit layout (RFC 9000 2.1, table 1) and the VarInt conversions
    #[kani::proof]
    fn stream_id_layout_contract() {
        let role = any_role();
        let dir = any_dir();
        let id: u64 = kani::any();
        kani::assume(id <= MAX_STREAMS_LIMIT); // documented precondition (assert in StreamId::new)
        let s = StreamId::new(role, dir, id);
        assert!(s.role() == role && s.dir() == dir && s.id() == id, "C12.sid.new.accessors_return_components");
        let ty = (s.0 & 3) as u8;
        let want = match (role, dir) {
            (Role::Client, Dir::Bi) => 0u8,
            (Role::Server, Dir::Bi) => 1,
            (Role::Client, Dir::Uni) => 2,
            (Role::Server, Dir::Uni) => 3,
        };
        assert!(ty == want && s.0 >> 2 == id, "C12.sid.new.two_low_bits_are_rfc_stream_type");
        assert!(s.0 < (1 << 62), "C12.sid.new.fits_varint");
        let v: VarInt = s.into();
        assert!(StreamId::from(v) == s && v.into_u64() == s.0, "C12.sid.varint_conversion_is_identity");
        // every wire value decomposes and recomposes to itself (new is a bijection onto the varint range)
        let raw: u64 = kani::any();
        kani::assume(raw < (1 << 62));
        let w = StreamId::from(VarInt::from_u64(raw).unwrap());
        assert!(StreamId::new(w.role(), w.dir(), w.id()) == w, "C12.sid.decompose_recompose_identity");
        // ids of one type are ordered by index and 4 apart
        let n = unsafe { w.next_unchecked() };
        assert!(n.role() == w.role() && n.dir() == w.dir() && n.id() == w.id() + 1, "C12.sid.next_is_next_index_same_type");
    }

    /// `ArcLocalStreamIds::new` -> `LocalStreamIds::new`: nothing allocated, limits as given (the remembered /
    /// peer-advertised initial_max_streams_*), role kept
    #[kani::proof]
    #[kani::unwind(3)]
    fn arc_new_contract() {
        let mb: u64 = kani::any();
        let mu: u64 = kani::any();
        let role = any_role();
        kani::assume(role == Role::Client || (mb == 0 && mu == 0)); // debug_assert in `new`: only a client remembers limits
        let a = ArcLocalStreamIds::new(role, mb, mu, Sink::default(), ArcSendWakers::default());
        {
            let g = a.0.lock().unwrap();
            assert!(g.role() == role, "C12.local_sid.arc.new_keeps_role");
            assert!(g.opened_streams(Dir::Bi) == 0 && g.opened_streams(Dir::Uni) == 0, "C12.local_sid.arc.new_nothing_allocated");
            assert!(g.max[0] == mb && g.max[1] == mu, "C12.local_sid.arc.new_installs_initial_limits");
            assert!(g.wakers[0].is_empty() && g.wakers[1].is_empty() && g.blocked.n.get() == 0, "C12.local_sid.arc.new_no_waiters_no_frames");
        }
        core::mem::forget(a);
    }

    /// the Arc wrappers only lock and forward: `ArcLocalStreamIds::poll_alloc_sid` / `recv_frame(MaxStreamsFrame)`
    #[kani::proof]
    #[kani::unwind(3)]
    #[kani::stub(crate::net::tx::ArcSendWakers::wake_all_by, noop_wake)]
    fn arc_wrapper_forwards() {
        let l = any_local();
        let (max0, un0, role0) = (l.max, l.unallocated, l.role);
        let a = ArcLocalStreamIds(Arc::new(Mutex::new(l)));
        let dir = any_dir();
        let idx = dir as usize;
        if kani::any() {
            let mut cx = Context::from_waker(Waker::noop());
            match a.poll_alloc_sid(&mut cx, dir) {
                Poll::Ready(Some(sid)) => assert!(un0[idx] < max0[idx] && sid == StreamId::new(role0, dir, un0[idx]),
                                                  "C12.local_sid.arc.poll_alloc_sid_allocates_next_index_below_limit"),
                Poll::Pending => assert!(un0[idx] >= max0[idx], "C12.local_sid.arc.poll_alloc_sid_blocks_only_at_limit"),
                Poll::Ready(None) => assert!(un0[idx] > MAX_STREAMS_LIMIT, "C12.local_sid.arc.poll_alloc_sid_none_only_when_exhausted"),
            }
        } else {
            let v: u64 = kani::any();
            kani::assume(v <= MAX_STREAMS_LIMIT);
            let ok = a.recv_frame(MaxStreamsFrame::with(dir, VarInt::from_u64(v).unwrap()));
            assert!(ok.is_ok(), "C12.local_sid.arc.max_streams_is_never_an_error");
        }
        core::mem::forget(a);
    }
}
