// ---- spliced by /verif (contracts/c05_cid_sid_token) : contracts on the EndpointAddr wire codec -------
// wire form: Direct = one socket address, Agent = agent socket address followed by the outer socket
// address, both of the family announced by the enclosing header (one family bit, one relay bit).
#[cfg(kani)]
mod verif_c05_addr {
    use std::net::{IpAddr, Ipv4Addr, Ipv6Addr};

    use super::*;
    use crate::net::AddrFamily;

    fn any_family() -> Family {
        if kani::any() { Family::V4 } else { Family::V6 }
    }

    fn any_wire_addr(family: Family) -> SocketAddr {
        let port: u16 = kani::any();
        match family {
            Family::V4 => SocketAddr::new(IpAddr::V4(Ipv4Addr::from(kani::any::<u32>())), port),
            Family::V6 => SocketAddr::new(IpAddr::V6(Ipv6Addr::from(kani::any::<u128>())), port),
        }
    }

    /// round trip of Direct and same-family Agent endpoints (a mixed-family Agent has no wire form: the
    /// header carries a single family bit and `encoding_size` is `unimplemented!` for it -- see unit.json)
    #[kani::proof]
    #[kani::unwind(40)]
    fn endpoint_roundtrip_contract() {
        let family = any_family();
        let relay: bool = kani::any();
        let ep = if relay {
            EndpointAddr::with_agent(any_wire_addr(family), any_wire_addr(family))
        } else {
            EndpointAddr::direct(any_wire_addr(family))
        };
        let announced = ep.encoding_size();
        let orig: [u8; 38] = kani::any();
        let mut buf = orig;
        let written = {
            let mut w = &mut buf[..36];
            w.put_endpoint_addr(ep);
            36 - w.len()
        };
        assert!(written == announced, "C05.endpoint.put.written_eq_announced_size");
        assert!(written <= 36, "C05.endpoint.put.written_le_max");
        let unit = match family { Family::V4 => 6, Family::V6 => 18 };
        assert!(written == if relay { 2 * unit } else { unit }, "C05.endpoint.put.size_is_sum_of_socket_addrs");
        let mut i = 0;
        while i < 38 {
            assert!(i < written || buf[i] == orig[i], "C05.endpoint.put.writes_nothing_beyond_size");
            i += 1;
        }
        match be_endpoint_addr(&buf[..written], relay as u8, family) {
            Ok((rest, d)) => {
                assert!(d == ep, "C05.endpoint.roundtrip.value_equal");
                assert!(rest.is_empty(), "C05.endpoint.roundtrip.consumes_exactly_written");
            }
            Err(_) => assert!(false, "C05.endpoint.roundtrip.decodes"),
        }
        kani::cover!(relay && family == Family::V6, "C05.endpoint.roundtrip.reach_agent_v6");
        kani::cover!(relay && family == Family::V4, "C05.endpoint.roundtrip.reach_agent_v4");
        kani::cover!(!relay && family == Family::V6, "C05.endpoint.roundtrip.reach_direct_v6");
        kani::cover!(!relay && family == Family::V4, "C05.endpoint.roundtrip.reach_direct_v4");
    }

    /// decode totality on every input of length 0..=38, every relay byte, both families: Ok <=> the
    /// announced shape is available and exactly that many bytes are consumed; the decoded endpoint is
    /// always same-family (so its `encoding_size` cannot hit `unimplemented!`) and announces the consumed size.
    #[kani::proof]
    #[kani::unwind(40)]
    fn endpoint_decode_total_contract() {
        let buf: [u8; 38] = kani::any();
        let n: usize = kani::any();
        kani::assume(n <= 38);
        let family = any_family();
        let relay: u8 = kani::any();
        let unit = match family { Family::V4 => 6, Family::V6 => 18 };
        let need = if relay != 0 { 2 * unit } else { unit };
        let input = &buf[..n];
        match be_endpoint_addr(input, relay, family) {
            Ok((rest, ep)) => {
                assert!(n >= need && rest.len() + need == n, "C03.endpoint.decode.ok_only_if_available_consumes_exactly");
                assert!(core::ptr::eq(rest.as_ptr(), input[need..].as_ptr()), "C03.endpoint.decode.rest_is_suffix_of_input");
                assert!(matches!(ep, EndpointAddr::Agent { .. }) == (relay != 0), "C03.endpoint.decode.shape_follows_relay_flag");
                match ep {
                    EndpointAddr::Direct { addr } => assert!(addr.family() == family, "C03.endpoint.decode.family_as_requested"),
                    EndpointAddr::Agent { agent, outer } => assert!(agent.family() == family && outer.family() == family, "C03.endpoint.decode.family_as_requested"),
                }
                assert!(ep.encoding_size() == need, "C05.endpoint.decode.reencode_same_size");
            }
            Err(nom::Err::Error(_)) => assert!(n < need, "C03.endpoint.decode.error_only_if_short"),
            Err(_) => assert!(false, "C03.endpoint.decode.no_incomplete_no_failure"),
        }
        kani::cover!(relay != 0 && family == Family::V6 && n == 36, "C03.endpoint.decode.reach_agent_v6_exact");
        kani::cover!(relay != 0 && family == Family::V6 && n == 35, "C03.endpoint.decode.reach_agent_v6_short");
        kani::cover!(relay == 0 && family == Family::V4 && n == 38, "C03.endpoint.decode.reach_direct_v4_with_rest");
        kani::cover!(relay > 1, "C03.endpoint.decode.reach_relay_byte_other_than_1");
        kani::cover!(n == 0, "C03.endpoint.decode.reach_empty");
    }
}
