// ---- spliced by /verif (contracts/c05_cid_sid_token) : contracts on the stateless-reset-token codec ---
// RFC 9000 §10.3 / §19.15: the Stateless Reset Token is a fixed 128-bit value.
#[cfg(kani)]
mod verif_c05_token {
    use super::*;

    #[kani::proof]
    #[kani::unwind(20)]
    fn roundtrip_contract() {
        let raw: [u8; RESET_TOKEN_SIZE] = kani::any();
        let token = ResetToken::new(&raw); // precondition: exactly 16 bytes (try_into().unwrap())
        assert!(token.encoding_size() == RESET_TOKEN_SIZE && RESET_TOKEN_SIZE == 16, "C05.token.encoding_size_is_16");
        let orig: [u8; 18] = kani::any();
        let mut buf = orig;
        let written = {
            let mut w = &mut buf[..17];
            w.put_reset_token(&token);
            17 - w.len()
        };
        assert!(written == token.encoding_size(), "C05.token.put.written_eq_announced_size");
        let mut i = 0;
        while i < 18 {
            if i < 16 {
                assert!(buf[i] == raw[i], "C05.token.put.wire_bytes");
            } else {
                assert!(buf[i] == orig[i], "C05.token.put.writes_nothing_beyond_size");
            }
            i += 1;
        }
        match be_reset_token(&buf[..written]) {
            Ok((rest, d)) => assert!(d == token && rest.is_empty(), "C05.token.roundtrip.value_equal_consumes_all"),
            Err(_) => assert!(false, "C05.token.roundtrip.decodes"),
        }
        match be_reset_token(&buf[..]) {
            Ok((rest, d)) => assert!(d == token && rest.len() == 2, "C05.token.roundtrip.ignores_following_bytes"),
            Err(_) => assert!(false, "C05.token.roundtrip.decodes_with_following_bytes"),
        }
    }

    /// decode totality on every input of length 0..=18: Ok <=> at least 16 bytes, consumes exactly 16;
    /// otherwise an error (note: `nom::bytes::complete::take`, so a short input is `Err::Error(Eof)`, not
    /// `Incomplete` -- callers that only expect `Incomplete` must handle this); `ResetToken::new`'s
    /// `try_into().unwrap()` is unreachable.
    #[kani::proof]
    #[kani::unwind(20)]
    fn decode_total_contract() {
        let buf: [u8; 18] = kani::any();
        let n: usize = kani::any();
        kani::assume(n <= 18);
        let input = &buf[..n];
        match be_reset_token(input) {
            Ok((rest, t)) => {
                assert!(n >= 16 && rest.len() + 16 == n, "C03.token.decode.ok_only_if_16_available_consumes_16");
                assert!(core::ptr::eq(rest.as_ptr(), input[16..].as_ptr()), "C03.token.decode.rest_is_suffix_of_input");
                let mut i = 0;
                while i < 16 {
                    assert!(t[i] == buf[i], "C03.token.decode.bytes_are_wire_bytes");
                    i += 1;
                }
            }
            Err(nom::Err::Error(e)) => {
                assert!(n < 16, "C03.token.decode.error_only_if_short");
                assert!(e.code == nom::error::ErrorKind::Eof, "C03.token.decode.sup.short_input_is_error_eof_not_incomplete");
            }
            Err(_) => assert!(false, "C03.token.decode.no_incomplete_no_failure"),
        }
        kani::cover!(n == 15, "C03.token.decode.reach_15");
        kani::cover!(n == 16, "C03.token.decode.reach_16");
        kani::cover!(n == 18, "C03.token.decode.reach_18");
        kani::cover!(n == 0, "C03.token.decode.reach_empty");
    }
}
