// ---- spliced by /verif (contracts/c05_cid_sid_token) : contracts on the socket-address wire codec -----
// wire form (project specific, used by ADD_ADDRESS / PUNCH_* frames and the STUN-like messages):
// port (16, network order) followed by the IPv4 (32) or IPv6 (128) address; the family is carried by the
// enclosing frame type.
#[cfg(kani)]
mod verif_c05_net {
    use super::*;

    fn any_family() -> Family {
        if kani::any() { Family::V4 } else { Family::V6 }
    }

    /// a socket address that has a wire form: IPv6 flowinfo / scope_id have no field on the wire,
    /// so they are 0 for every address the decoder can produce (see unit.json "assumptions")
    fn any_wire_addr(family: Family) -> SocketAddr {
        let port: u16 = kani::any();
        match family {
            Family::V4 => SocketAddr::new(IpAddr::V4(Ipv4Addr::from(kani::any::<u32>())), port),
            Family::V6 => SocketAddr::new(IpAddr::V6(Ipv6Addr::from(kani::any::<u128>())), port),
        }
    }

    /// round trip: written == encoding_size() <= max_encoding_size() == 18; decode in the address's
    /// family yields an equal address and consumes exactly the written bytes.
    #[kani::proof]
    #[kani::unwind(22)]
    fn socket_addr_roundtrip_contract() {
        let family = any_family();
        let addr = any_wire_addr(family);
        assert!(addr.family() == family, "C05.sockaddr.family_matches");
        let orig: [u8; 20] = kani::any();
        let mut buf = orig;
        let written = {
            let mut w = &mut buf[..18];
            w.put_socket_addr(&addr);
            18 - w.len()
        };
        assert!(written == addr.encoding_size(), "C05.sockaddr.put.written_eq_announced_size");
        assert!(addr.encoding_size() <= addr.max_encoding_size() && addr.max_encoding_size() == 18, "C05.sockaddr.put.size_le_announced_max");
        assert!(written == match family { Family::V4 => 6, Family::V6 => 18 }, "C05.sockaddr.put.size_is_2_plus_ip");
        assert!(buf[0] == (addr.port() >> 8) as u8 && buf[1] == addr.port() as u8, "C05.sockaddr.put.port_network_order");
        let mut i = 0;
        while i < 20 {
            assert!(i < written || buf[i] == orig[i], "C05.sockaddr.put.writes_nothing_beyond_size");
            i += 1;
        }
        match be_socket_addr(&buf[..written], family) {
            Ok((rest, d)) => {
                assert!(d == addr, "C05.sockaddr.roundtrip.value_equal");
                assert!(rest.is_empty(), "C05.sockaddr.roundtrip.consumes_exactly_written");
            }
            Err(_) => assert!(false, "C05.sockaddr.roundtrip.decodes"),
        }
        kani::cover!(family == Family::V4, "C05.sockaddr.roundtrip.reach_v4");
        kani::cover!(family == Family::V6, "C05.sockaddr.roundtrip.reach_v6");
    }

    /// decode totality on every input of length 0..=20 for both families: Ok <=> 2 + 4 / 2 + 16 bytes are
    /// available, consumes exactly that many, the decoded value re-encodes to the same bytes; otherwise an
    /// error (`number::complete` parsers: `Err::Error(Eof)`), never a panic.
    #[kani::proof]
    #[kani::unwind(22)]
    fn socket_addr_decode_total_contract() {
        let buf: [u8; 20] = kani::any();
        let n: usize = kani::any();
        kani::assume(n <= 20);
        let family = any_family();
        let need = match family { Family::V4 => 6, Family::V6 => 18 };
        let input = &buf[..n];
        match be_socket_addr(input, family) {
            Ok((rest, addr)) => {
                assert!(n >= need && rest.len() + need == n, "C03.sockaddr.decode.ok_only_if_available_consumes_exactly");
                assert!(core::ptr::eq(rest.as_ptr(), input[need..].as_ptr()), "C03.sockaddr.decode.rest_is_suffix_of_input");
                assert!(addr.family() == family, "C03.sockaddr.decode.family_as_requested");
                assert!(addr.port() == ((buf[0] as u16) << 8 | buf[1] as u16), "C03.sockaddr.decode.port_network_order");
                assert!(addr.encoding_size() == need, "C05.sockaddr.decode.reencode_same_size");
                let mut out = [0u8; 18];
                {
                    let mut w = &mut out[..];
                    w.put_socket_addr(&addr);
                }
                let mut i = 0;
                while i < 18 {
                    assert!(i >= need || out[i] == buf[i], "C05.sockaddr.decode.reencode_same_bytes");
                    i += 1;
                }
            }
            Err(nom::Err::Error(_)) => assert!(n < need, "C03.sockaddr.decode.error_only_if_short"),
            Err(_) => assert!(false, "C03.sockaddr.decode.no_incomplete_no_failure"),
        }
        kani::cover!(family == Family::V4 && n == 5, "C03.sockaddr.decode.reach_v4_short");
        kani::cover!(family == Family::V4 && n == 6, "C03.sockaddr.decode.reach_v4_exact");
        kani::cover!(family == Family::V6 && n == 17, "C03.sockaddr.decode.reach_v6_short");
        kani::cover!(family == Family::V6 && n == 20, "C03.sockaddr.decode.reach_v6_with_rest");
        kani::cover!(n == 0, "C03.sockaddr.decode.reach_empty");
    }
}
