// ---- spliced by /verif (contracts/c05_cid_sid_token) : contracts on the StreamId wire codec -----------
// RFC 9000 §2.1: a stream id is a 62-bit integer encoded as a variable-length integer; bit 0 = initiator,
// bit 1 = direction.
#[cfg(kani)]
mod verif_c05_sid {
    use super::*;

    /// `StreamId::new` packs (role, dir, index) per RFC 9000 §2.1 and the accessors invert it;
    /// the value stays below 2^62 so `VarInt::from(StreamId)`'s expect is unreachable.
    #[kani::proof]
    fn new_contract() {
        let role = if kani::any() { Role::Client } else { Role::Server };
        let dir = if kani::any() { Dir::Bi } else { Dir::Uni };
        let id: u64 = kani::any();
        kani::assume(id <= MAX_STREAMS_LIMIT); // documented precondition of StreamId::new (assert!)
        let sid = StreamId::new(role, dir, id);
        assert!(sid.role() == role && sid.dir() == dir && sid.id() == id, "C05.sid.new.accessors_invert");
        let raw: u64 = sid.into();
        assert!(raw == (id << 2) | ((dir as u64) << 1) | (role as u64), "C05.sid.new.rfc_bit_layout");
        assert!(raw < (1u64 << 62), "C05.sid.new.below_2_62");
        let v = VarInt::from(sid);
        assert!(v.into_u64() == raw, "C05.sid.to_varint.value_preserved");
        assert!(StreamId::from(v) == sid, "C05.sid.from_varint.inverse");
        kani::cover!(id == MAX_STREAMS_LIMIT, "C05.sid.new.reach_max_index");
        kani::cover!(id == 0, "C05.sid.new.reach_0");
    }

    /// round trip through put_streamid / be_streamid for every stream id a decoder or `StreamId::new`
    /// can produce (the whole 62-bit domain): written == encoding_size() <= 8, decode yields the id and
    /// consumes exactly the written bytes.
    #[kani::proof]
    #[kani::unwind(10)]
    fn roundtrip_contract() {
        let x: u64 = kani::any();
        kani::assume(x < (1u64 << 62)); // type invariant: StreamId is built from a VarInt or by StreamId::new
        let sid = StreamId::from(VarInt::from_u64(x).unwrap());
        let mut buf = [0u8; 8];
        let written = {
            let mut w = &mut buf[..];
            w.put_streamid(&sid);
            8 - w.len()
        };
        assert!(written == sid.encoding_size(), "C05.sid.put.written_eq_announced_size");
        assert!(written <= VarInt::MAX_SIZE, "C05.sid.put.written_le_max");
        match be_streamid(&buf[..written]) {
            Ok((rest, d)) => {
                assert!(d == sid, "C05.sid.roundtrip.value_equal");
                assert!(rest.is_empty(), "C05.sid.roundtrip.consumes_exactly_written");
            }
            Err(_) => assert!(false, "C05.sid.roundtrip.decodes"),
        }
        kani::cover!(written == 1, "C05.sid.roundtrip.reach_1");
        kani::cover!(written == 2, "C05.sid.roundtrip.reach_2");
        kani::cover!(written == 4, "C05.sid.roundtrip.reach_4");
        kani::cover!(written == 8 && x == (1u64 << 62) - 1, "C05.sid.roundtrip.reach_max");
    }

    /// decode totality: `be_streamid` frames exactly like `be_varint` (whose contract is in c05_varint)
    /// on every input of length 0..=9 and never panics; the id is the varint's value.
    #[kani::proof]
    #[kani::unwind(10)]
    fn decode_total_contract() {
        let buf: [u8; 9] = kani::any();
        let n: usize = kani::any();
        kani::assume(n <= 9);
        let input = &buf[..n];
        match (be_streamid(input), be_varint(input)) {
            (Ok((r1, sid)), Ok((r2, v))) => {
                assert!(u64::from(sid) == v.into_u64(), "C03.sid.decode.value_is_varint_value");
                assert!(r1.len() == r2.len() && core::ptr::eq(r1.as_ptr(), r2.as_ptr()), "C03.sid.decode.same_framing_as_varint");
                assert!(r1.len() < n, "C03.sid.decode.consumes_at_least_one_byte");
                assert!(sid.encoding_size() <= n - r1.len(), "C05.sid.decode.reencode_not_longer");
            }
            (Err(nom::Err::Incomplete(a)), Err(nom::Err::Incomplete(b))) => assert!(a == b, "C03.sid.decode.sup.same_needed"),
            _ => assert!(false, "C03.sid.decode.ok_iff_varint_ok_err_incomplete_only"),
        }
        kani::cover!(n == 0, "C03.sid.decode.reach_empty");
        kani::cover!(n == 9 && buf[0] >= 0xc0, "C03.sid.decode.reach_8_with_rest");
        kani::cover!(n == 1 && buf[0] == 0x40, "C03.sid.decode.reach_short");
    }
}
