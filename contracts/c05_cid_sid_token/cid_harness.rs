// ---- spliced by /verif (contracts/c05_cid_sid_token) : contracts on the real connection-id codec ------
// RFC 9000 §17.2: Connection ID Length is one byte, the connection id is 0..=20 bytes in QUIC v1;
// "Endpoints that receive a version 1 long header with a value larger than 20 MUST drop the packet."
#[cfg(kani)]
mod verif_c05_cid {
    use super::*;

    fn any_cid() -> (ConnectionId, [u8; MAX_CID_SIZE], usize) {
        let raw: [u8; MAX_CID_SIZE] = kani::any();
        let len: usize = kani::any();
        kani::assume(len <= MAX_CID_SIZE); // documented precondition of from_slice (debug_assert; slice panic otherwise)
        (ConnectionId::from_slice(&raw[..len]), raw, len)
    }

    /// `from_slice` keeps exactly the given bytes; the unused tail of the fixed array is zero, so the
    /// derived/handwritten equality, `Deref` and `encoding_size` all agree with the wire view.
    #[kani::proof]
    #[kani::unwind(22)]
    fn from_slice_contract() {
        let (cid, raw, len) = any_cid();
        assert!(cid.len as usize == len, "C05.cid.from_slice.len_kept");
        assert!(cid.deref().len() == len, "C05.cid.from_slice.deref_len");
        let mut i = 0;
        while i < MAX_CID_SIZE {
            if i < len {
                assert!(cid.bytes[i] == raw[i] && cid.deref()[i] == raw[i], "C05.cid.from_slice.bytes_kept");
            } else {
                assert!(cid.bytes[i] == 0, "C05.cid.from_slice.sup.tail_zero");
            }
            i += 1;
        }
        assert!(cid.encoding_size() == 1 + len && cid.encoding_size() <= 1 + MAX_CID_SIZE, "C05.cid.encoding_size_is_1_plus_len_le_21");
        assert!(cid == cid, "C05.cid.eq_reflexive");
        kani::cover!(len == 0, "C05.cid.from_slice.reach_empty");
        kani::cover!(len == MAX_CID_SIZE, "C05.cid.from_slice.reach_20");
    }

    /// encode/decode round trip for every connection id of length 0..=20:
    /// written == encoding_size() <= 21, wire = len byte + bytes, decode yields an equal id and consumes all.
    #[kani::proof]
    #[kani::unwind(23)]
    fn roundtrip_contract() {
        let (cid, raw, len) = any_cid();
        let orig: [u8; 23] = kani::any();
        let mut buf = orig;
        let written = {
            let mut w = &mut buf[..21];
            w.put_connection_id(&cid);
            21 - w.len()
        };
        assert!(written == cid.encoding_size(), "C05.cid.put.written_eq_announced_size");
        assert!(written <= 1 + MAX_CID_SIZE, "C05.cid.put.written_le_max");
        assert!(buf[0] as usize == len, "C05.cid.put.wire_len_byte");
        let mut i = 0;
        while i < 22 {
            if i < len {
                assert!(buf[1 + i] == raw[i], "C05.cid.put.wire_bytes");
            } else {
                assert!(buf[1 + i] == orig[1 + i], "C05.cid.put.writes_nothing_beyond_size");
            }
            i += 1;
        }
        match be_connection_id(&buf[..written]) {
            Ok((rest, d)) => {
                assert!(d == cid, "C05.cid.roundtrip.value_equal");
                assert!(d.len == cid.len && d.bytes == cid.bytes, "C05.cid.roundtrip.representation_equal");
                assert!(rest.is_empty(), "C05.cid.roundtrip.consumes_exactly_written");
            }
            Err(_) => assert!(false, "C05.cid.roundtrip.decodes"),
        }
        // with following bytes
        match be_connection_id(&buf[..]) {
            Ok((rest, d)) => assert!(d == cid && rest.len() == 23 - written, "C05.cid.roundtrip.ignores_following_bytes"),
            Err(_) => assert!(false, "C05.cid.roundtrip.decodes_with_following_bytes"),
        }
        kani::cover!(len == 0, "C05.cid.roundtrip.reach_empty");
        kani::cover!(len == 8, "C05.cid.roundtrip.reach_8");
        kani::cover!(len == MAX_CID_SIZE, "C05.cid.roundtrip.reach_20");
    }

    /// decode totality of `be_connection_id` over every input of length 0..=23 (the parser reads <= 21 bytes):
    /// Ok <=> length byte <= 20 and that many bytes follow; Error(TooLarge) <=> length byte > 20
    /// (RFC 9000 §17.2: such a packet is dropped); Incomplete otherwise; never a panic (from_slice's
    /// debug_assert / slice index is unreachable).
    #[kani::proof]
    #[kani::unwind(24)]
    fn decode_total_contract() {
        let buf: [u8; 23] = kani::any();
        let n: usize = kani::any();
        kani::assume(n <= 23);
        let input = &buf[..n];
        let l = buf[0] as usize;
        match be_connection_id(input) {
            Ok((rest, cid)) => {
                assert!(n >= 1 && l <= MAX_CID_SIZE && n >= 1 + l, "C03.cid.decode.ok_only_if_len_le_20_and_available");
                assert!(cid.len as usize == l, "C03.cid.decode.len_is_wire_len");
                assert!(rest.len() + 1 + l == n, "C03.cid.decode.consumes_exactly_1_plus_len");
                assert!(core::ptr::eq(rest.as_ptr(), input[1 + l..].as_ptr()), "C03.cid.decode.rest_is_suffix_of_input");
                let mut i = 0;
                while i < MAX_CID_SIZE {
                    if i < l {
                        assert!(cid.bytes[i] == buf[1 + i], "C03.cid.decode.bytes_are_wire_bytes");
                    }
                    i += 1;
                }
                assert!(cid.encoding_size() == 1 + l, "C05.cid.decode.reencode_same_size");
            }
            Err(nom::Err::Incomplete(_)) => {
                assert!(n == 0 || (l <= MAX_CID_SIZE && n < 1 + l), "C03.cid.decode.incomplete_only_if_short");
            }
            Err(nom::Err::Error(e)) => {
                assert!(n >= 1 && l > MAX_CID_SIZE, "C03.cid.decode.error_only_if_len_over_20");
                assert!(e.code == nom::error::ErrorKind::TooLarge, "C03.cid.decode.sup.error_kind_too_large");
            }
            Err(nom::Err::Failure(_)) => assert!(false, "C03.cid.decode.no_failure"),
        }
        kani::cover!(n == 0, "C03.cid.decode.reach_empty");
        kani::cover!(n >= 1 && l == 21, "C03.cid.decode.reach_len_21");
        kani::cover!(n >= 1 && l == 255, "C03.cid.decode.reach_len_255");
        kani::cover!(n == 21 && l == 20, "C03.cid.decode.reach_len_20_exact");
        kani::cover!(n == 20 && l == 20, "C03.cid.decode.reach_len_20_short");
        kani::cover!(n == 23 && l == 0, "C03.cid.decode.reach_len_0_with_rest");
    }

    /// `be_connection_id_with_len` for an arbitrary requested length (full usize domain)
    #[kani::proof]
    #[kani::unwind(24)]
    fn decode_with_len_contract() {
        let buf: [u8; 22] = kani::any();
        let n: usize = kani::any();
        kani::assume(n <= 22);
        let len: usize = kani::any();
        match be_connection_id_with_len(&buf[..n], len) {
            Ok((rest, cid)) => {
                assert!(len <= MAX_CID_SIZE && len <= n, "C03.cid.decode_with_len.ok_only_if_len_le_20_and_available");
                assert!(cid.len as usize == len && rest.len() + len == n, "C03.cid.decode_with_len.consumes_exactly_len");
            }
            Err(nom::Err::Incomplete(_)) => assert!(len <= MAX_CID_SIZE && n < len, "C03.cid.decode_with_len.incomplete_only_if_short"),
            Err(nom::Err::Error(_)) => assert!(len > MAX_CID_SIZE, "C03.cid.decode_with_len.error_only_if_len_over_20"),
            Err(nom::Err::Failure(_)) => assert!(false, "C03.cid.decode_with_len.no_failure"),
        }
        kani::cover!(len == usize::MAX, "C03.cid.decode_with_len.reach_huge_len");
        kani::cover!(len == 21, "C03.cid.decode_with_len.reach_21");
        kani::cover!(len == 20 && n == 20, "C03.cid.decode_with_len.reach_20_exact");
    }
}
