// ---- spliced by /verif (contracts/c05_headers) : first-byte packet-number-length / key-phase codec ----
// RFC 9000 §17.2: long header low 4 bits = Reserved(2) = 0, Packet Number Length(2) = len - 1;
// §17.3.1: short header low 5 bits = Reserved(2) = 0, Key Phase(1), Packet Number Length(2) = len - 1.
#[cfg(kani)]
mod verif_c05_first_byte {
    use super::*;
    use crate::packet::GetPacketNumberLength;

    /// what `put_header` leaves in the first byte (low bits clear) + `encode_*_first_byte` decodes back
    /// through `SpecificBits::pn_len` / `key_phase` (the receiver's path after header-protection removal).
    #[kani::proof]
    fn first_byte_roundtrip_contract() {
        let pn_len: usize = kani::any();
        kani::assume(pn_len >= 1 && pn_len <= 4); // documented precondition (debug_assert in with_pn_len); PacketNumber::size() is 1..=4
        let ty: u8 = kani::any();
        kani::assume(ty < 4);
        let mut long_first = 0xc0u8 | (ty << 4); // as written by put_long_type
        encode_long_first_byte(&mut long_first, pn_len);
        assert!(long_first & 0xf0 == 0xc0 | (ty << 4), "C05.header.first_byte.long.type_bits_untouched");
        assert!(long_first & 0x0c == 0, "C05.header.first_byte.long.reserved_bits_zero");
        assert!(LongSpecificBits::from(long_first).pn_len() == Ok(pn_len as u8), "C05.header.first_byte.long.pn_len_roundtrip");

        let spin: bool = kani::any();
        let phase = if kani::any() { KeyPhaseBit::One } else { KeyPhaseBit::Zero };
        let mut short_first = 0x40u8 | if spin { 0x20 } else { 0 }; // as written by put_short_type
        encode_short_first_byte(&mut short_first, pn_len, phase);
        assert!(short_first & 0xe0 == 0x40 | if spin { 0x20 } else { 0 }, "C05.header.first_byte.short.form_fixed_spin_untouched");
        assert!(short_first & 0x18 == 0, "C05.header.first_byte.short.reserved_bits_zero");
        let bits = ShortSpecificBits::from(short_first);
        assert!(bits.pn_len() == Ok(pn_len as u8), "C05.header.first_byte.short.pn_len_roundtrip");
        assert!(bits.key_phase() == phase, "C05.header.first_byte.short.key_phase_roundtrip");
        kani::cover!(pn_len == 4 && phase == KeyPhaseBit::One, "C05.header.first_byte.reach_pn4_phase1");
        kani::cover!(pn_len == 1, "C05.header.first_byte.reach_pn1");
    }
}
