// ---- spliced by /verif (contracts/c05_headers) : contracts on the real packet-type / header writers ----
// RFC 9000 §17.2 long header: |1|1|T T|x x x x| Version(32) | DCID Len(8) | DCID | SCID Len(8) | SCID | ...
//   T = 0 Initial (+ Token Length(i), Token), 1 0-RTT, 2 Handshake, 3 Retry (+ Retry Token, 128-bit tag);
//   Version Negotiation: |1|x x x x x x x| Version = 0 | ids | Supported Version(32) ...
// RFC 9000 §17.3.1 short header: |0|1|S|x x x x x| DCID (length known to the receiver)
// `EncodeHeader::size()` is the size `PacketWriter::new_long/new_short` reserves before calling `put_header`
// ("the size an encoder announces beforehand equals the number of bytes it then writes").
#[cfg(kani)]
mod verif_c05_headers {
    use super::io::{WriteHeader, be_header};
    use super::long::{Handshake, Initial, Retry, VersionNegotiation, ZeroRtt};
    use super::*;
    use crate::packet::{
        SpinBit,
        r#type::{
            io::{WritePacketType, be_packet_type},
            long::Ver1,
        },
    };

    fn any_cid() -> (ConnectionId, usize) {
        let raw: [u8; 20] = kani::any();
        let len: usize = kani::any();
        kani::assume(len <= 20); // documented precondition of ConnectionId::from_slice
        (ConnectionId::from_slice(&raw[..len]), len)
    }

    /// token of symbolic length <= T with symbolic content
    fn any_token<const T: usize>() -> Vec<u8> {
        let raw: [u8; T] = kani::any();
        let len: usize = kani::any();
        kani::assume(len <= T);
        raw[..len].to_vec()
    }

    /// connection id of the fixed length L with symbolic content
    fn fixed_cid<const L: usize>() -> ConnectionId {
        let raw: [u8; L] = kani::any();
        ConnectionId::from_slice(&raw)
    }

    /// equal as connection ids (length and every byte; checked at an arbitrary index, no loop)
    fn same_cid(a: &ConnectionId, b: &ConnectionId) -> bool {
        same_bytes(a, b)
    }

    fn same_bytes(a: &[u8], b: &[u8]) -> bool {
        let i: usize = kani::any();
        a.len() == b.len() && (i >= a.len() || a[i] == b[i])
    }

    fn varint_size(x: usize) -> usize {
        if x < 64 {
            1
        } else if x < 16384 {
            2
        } else {
            4
        }
    }

    /// packet type: every value; written == encoding_size(); first byte / version per RFC; decodes back.
    #[kani::proof]
    #[kani::unwind(7)]
    fn type_roundtrip_contract() {
        let spin = if kani::any() { SpinBit::One } else { SpinBit::Zero };
        let sel: u8 = kani::any();
        kani::assume(sel < 6);
        let ty = match sel {
            0 => Type::Short(OneRtt(spin)),
            1 => Type::Long(LongType::VersionNegotiation),
            2 => Type::Long(LongType::V1(Ver1::INITIAL)),
            3 => Type::Long(LongType::V1(Ver1::ZERO_RTT)),
            4 => Type::Long(LongType::V1(Ver1::HANDSHAKE)),
            _ => Type::Long(LongType::V1(Ver1::RETRY)),
        };
        let orig: [u8; 6] = kani::any();
        let mut buf = orig;
        let written = {
            let mut w = &mut buf[..5];
            w.put_packet_type(&ty);
            5 - w.len()
        };
        assert!(written == ty.encoding_size(), "C05.header.type.written_eq_announced_size");
        assert!(written == if sel == 0 { 1 } else { 5 }, "C05.header.type.size_is_1_or_5");
        let mut i = 0;
        while i < 6 {
            assert!(i < written || buf[i] == orig[i], "C05.header.type.writes_nothing_beyond_size");
            i += 1;
        }
        let version = u32::from_be_bytes([buf[1], buf[2], buf[3], buf[4]]);
        match sel {
            0 => assert!(buf[0] == 0x40 | if spin == SpinBit::One { 0x20 } else { 0 }, "C05.header.type.short_first_byte"),
            1 => assert!(buf[0] & 0x80 != 0 && version == 0, "C05.header.type.vn_form_bit_and_version_0"),
            _ => assert!(buf[0] == 0xc0 | ((sel - 2) << 4) && version == 1, "C05.header.type.v1_first_byte_and_version"),
        }
        match be_packet_type(&buf[..written]) {
            Ok((rest, d)) => assert!(d == ty && rest.is_empty(), "C05.header.type.roundtrip_value_and_length"),
            Err(_) => assert!(false, "C05.header.type.roundtrip_decodes"),
        }
        kani::cover!(sel == 0 && spin == SpinBit::One, "C05.header.type.reach_short_spin");
        kani::cover!(sel == 1, "C05.header.type.reach_vn");
        kani::cover!(sel == 5, "C05.header.type.reach_retry");
    }

    /// decode what `put_header` wrote: type, then header
    fn decode<'a>(buf: &'a [u8], dcid_len: usize) -> Option<(Type, Header, usize)> {
        let (rest, ty) = be_packet_type(buf).ok()?;
        let (rest, h) = be_header(ty, dcid_len, rest).ok()?;
        Some((ty, h, rest.len()))
    }

    /// 1-RTT header, DCID 0..=20 bytes, both spin values.
    #[kani::proof]
    #[kani::unwind(3)]
    fn short_roundtrip_contract() {
        let (dcid, dl) = any_cid();
        let spin = if kani::any() { SpinBit::One } else { SpinBit::Zero };
        let h = OneRttHeader::new(spin, dcid);
        let announced = h.size();
        let mut buf = [0u8; 22];
        let written = {
            let mut w = &mut buf[..21];
            w.put_header(&h);
            21 - w.len()
        };
        assert!(written == announced, "C05.header.short.written_eq_announced_size");
        assert!(written == 1 + dl && h.length_encoding() == 0, "C05.header.short.size_is_1_plus_dcid");
        assert!(h.get_type() == Type::Short(OneRtt(spin)), "C05.header.short.type");
        match decode(&buf[..written], dl) {
            Some((ty, Header::OneRtt(d), rest)) => {
                assert!(ty == h.get_type(), "C05.header.short.roundtrip_type");
                assert!(d.spin() == spin && same_cid(d.dcid(), &dcid), "C05.header.short.roundtrip_value_equal");
                assert!(rest == 0, "C05.header.short.roundtrip_consumes_exactly_written");
            }
            _ => assert!(false, "C05.header.short.roundtrip_decodes"),
        }
        kani::cover!(dl == 0, "C05.header.short.reach_dcid_0");
        kani::cover!(dl == 20, "C05.header.short.reach_dcid_20");
    }

    /// Handshake and 0-RTT headers, both connection ids 0..=20 bytes. This instantiation carries the
    /// cid-length generality of the generic `WriteHeader<LongHeader<S>>::put_header`, `LongHeader<S>::size`
    /// and `be_header` code; the other long-header harnesses vary the type-specific part.
    #[kani::proof]
    #[kani::unwind(6)]
    fn handshake_zero_rtt_roundtrip_contract() {
        let (dcid, dl) = any_cid();
        let (scid, sl) = any_cid();
        let hs: bool = kani::any();
        let mut buf = [0u8; 48];
        let (written, announced, lenc) = {
            let mut w = &mut buf[..47];
            if hs {
                let h = LongHeaderBuilder::with_cid(dcid, scid).handshake();
                w.put_header(&h);
                (47 - w.len(), h.size(), h.length_encoding())
            } else {
                let h = LongHeaderBuilder::with_cid(dcid, scid).zero_rtt();
                w.put_header(&h);
                (47 - w.len(), h.size(), h.length_encoding())
            }
        };
        assert!(written == announced, "C05.header.hs0rtt.written_eq_announced_size");
        assert!(written == 7 + dl + sl, "C05.header.hs0rtt.size_is_7_plus_cids");
        assert!(lenc == 2, "C05.header.hs0rtt.sup.length_field_announced_2_bytes");
        match decode(&buf[..written], 0) {
            Some((_, Header::Handshake(d), rest)) => {
                assert!(hs && same_cid(d.dcid(), &dcid) && same_cid(d.scid(), &scid), "C05.header.hs0rtt.roundtrip_value_equal");
                assert!(rest == 0, "C05.header.hs0rtt.roundtrip_consumes_exactly_written");
            }
            Some((_, Header::ZeroRtt(d), rest)) => {
                assert!(!hs && same_cid(d.dcid(), &dcid) && same_cid(d.scid(), &scid), "C05.header.hs0rtt.roundtrip_value_equal");
                assert!(rest == 0, "C05.header.hs0rtt.roundtrip_consumes_exactly_written");
            }
            _ => assert!(false, "C05.header.hs0rtt.roundtrip_decodes"),
        }
        kani::cover!(dl == 20 && sl == 20, "C05.header.hs0rtt.reach_max_cids");
        kani::cover!(dl == 0 && sl == 0 && hs, "C05.header.hs0rtt.reach_empty_cids");
    }

    fn initial_body<const B: usize>(dcid: ConnectionId, scid: ConnectionId, token: Vec<u8>) {
        let (dl, sl, tl) = (dcid.len(), scid.len(), token.len());
        let h = LongHeaderBuilder::with_cid(dcid, scid).initial(token.clone());
        let announced = h.size();
        let mut buf = [0u8; B];
        let written = {
            let mut w = &mut buf[..B - 1];
            w.put_header(&h);
            B - 1 - w.len()
        };
        assert!(written == announced, "C05.header.initial.written_eq_announced_size");
        assert!(written == 7 + dl + sl + varint_size(tl) + tl, "C05.header.initial.size_is_7_plus_cids_plus_token_field");
        assert!(h.length_encoding() == 2, "C05.header.initial.sup.length_field_announced_2_bytes");
        match decode(&buf[..written], 0) {
            Some((ty, Header::Initial(d), rest)) => {
                assert!(ty == h.get_type(), "C05.header.initial.roundtrip_type");
                assert!(same_cid(d.dcid(), &dcid) && same_cid(d.scid(), &scid), "C05.header.initial.roundtrip_cids_equal");
                assert!(same_bytes(d.token(), &token), "C05.header.initial.roundtrip_token_equal");
                assert!(rest == 0, "C05.header.initial.roundtrip_consumes_exactly_written");
            }
            _ => assert!(false, "C05.header.initial.roundtrip_decodes"),
        }
    }

    /// Initial header: token of symbolic length 0..=4 (connection ids 8 and 5 bytes, symbolic content).
    #[kani::proof]
    #[kani::unwind(9)]
    fn initial_roundtrip_contract() {
        //   "C05.header.initial.written_eq_announced_size" "C05.header.initial.size_is_7_plus_cids_plus_token_field"
        //   "C05.header.initial.sup.length_field_announced_2_bytes" "C05.header.initial.roundtrip_type"
        //   "C05.header.initial.roundtrip_cids_equal" "C05.header.initial.roundtrip_token_equal"
        //   "C05.header.initial.roundtrip_consumes_exactly_written" "C05.header.initial.roundtrip_decodes"
        let token = any_token::<4>();
        let tl = token.len();
        initial_body::<28>(fixed_cid::<8>(), fixed_cid::<5>(), token);
        kani::cover!(tl == 0, "C05.header.initial.reach_empty_token");
        kani::cover!(tl == 4, "C05.header.initial.reach_token_4");
    }

    /// Initial header, token of 0..=70 bytes -- across the 63/64 boundary of the Token Length varint the
    /// property statement singles out ("no test uses a token of 64 bytes or more"): the size announced by
    /// `size()` (what PacketWriter::new_long reserves) equals the bytes `put_header` writes, and the Token
    /// Length field on the wire is the RFC 9000 §16 encoding of the length. (Encode side only; decoding a
    /// token of this length is be_initial = length_data(be_varint), see c03_packet_decode.)
    #[kani::proof]
    #[kani::unwind(3)]
    fn initial_size_token_boundary_contract() {
        let (dcid, scid) = (fixed_cid::<8>(), fixed_cid::<0>());
        let token = any_token::<70>();
        let tl = token.len();
        let h = LongHeaderBuilder::with_cid(dcid, scid).initial(token);
        let announced = h.size();
        let mut buf = [0u8; 90];
        let written = {
            let mut w = &mut buf[..89];
            w.put_header(&h);
            89 - w.len()
        };
        assert!(written == announced, "C05.header.initial.token_boundary.written_eq_announced_size");
        assert!(written == 7 + 8 + varint_size(tl) + tl, "C05.header.initial.token_boundary.size_is_header_plus_token_field");
        // Token Length field at offset 1 + 4 + 1 + 8 + 1 = 15
        if tl < 64 {
            assert!(buf[15] as usize == tl, "C05.header.initial.token_boundary.length_field_1_byte_below_64");
        } else {
            assert!(buf[15] == 0x40 && buf[16] as usize == tl, "C05.header.initial.token_boundary.length_field_2_bytes_from_64");
        }
        kani::cover!(tl == 63, "C05.header.initial.token_boundary.reach_63");
        kani::cover!(tl == 64, "C05.header.initial.token_boundary.reach_64");
        kani::cover!(tl == 70, "C05.header.initial.token_boundary.reach_70");
    }

    /// Retry header: token 0..=4 bytes, any integrity tag, ids 8 and 5 bytes (no announced size: a Retry is
    /// never written through PacketWriter).
    #[kani::proof]
    #[kani::unwind(6)]
    fn retry_roundtrip_contract() {
        let (dcid, scid) = (fixed_cid::<8>(), fixed_cid::<5>());
        let token = any_token::<4>();
        let tl = token.len();
        let tag: [u8; 16] = kani::any();
        let h = LongHeaderBuilder::with_cid(dcid, scid).retry(token.clone(), tag);
        let mut buf = [0u8; 42];
        let written = {
            let mut w = &mut buf[..41];
            w.put_header(&h);
            41 - w.len()
        };
        assert!(written == 7 + 8 + 5 + tl + 16, "C05.header.retry.size_is_7_plus_cids_plus_token_plus_tag");
        match decode(&buf[..written], 0) {
            Some((ty, Header::Retry(d), rest)) => {
                assert!(ty == h.get_type(), "C05.header.retry.roundtrip_type");
                assert!(same_cid(d.dcid(), &dcid) && same_cid(d.scid(), &scid), "C05.header.retry.roundtrip_cids_equal");
                assert!(same_bytes(d.token(), &token), "C05.header.retry.roundtrip_token_equal");
                assert!(same_bytes(d.integrity(), &tag), "C05.header.retry.roundtrip_tag_equal");
                assert!(rest == 0, "C05.header.retry.roundtrip_consumes_exactly_written");
            }
            _ => assert!(false, "C05.header.retry.roundtrip_decodes"),
        }
        kani::cover!(tl == 4, "C05.header.retry.reach_token_4");
        kani::cover!(tl == 0, "C05.header.retry.reach_empty_token");
    }

    /// Version Negotiation header: 0..=2 versions, ids 8 and 5 bytes.
    #[kani::proof]
    #[kani::unwind(5)]
    fn vn_roundtrip_contract() {
        let (dcid, scid) = (fixed_cid::<8>(), fixed_cid::<5>());
        let v: [u32; 2] = kani::any();
        let k: usize = kani::any();
        kani::assume(k <= 2);
        let versions = v[..k].to_vec();
        let h = LongHeaderBuilder::with_cid(dcid, scid).vn(versions);
        let mut buf = [0u8; 30];
        let written = {
            let mut w = &mut buf[..29];
            w.put_header(&h);
            29 - w.len()
        };
        assert!(written == 7 + 8 + 5 + 4 * k, "C05.header.vn.size_is_7_plus_cids_plus_versions");
        match decode(&buf[..written], 0) {
            Some((ty, Header::VN(d), rest)) => {
                assert!(ty == h.get_type(), "C05.header.vn.roundtrip_type");
                assert!(same_cid(d.dcid(), &dcid) && same_cid(d.scid(), &scid), "C05.header.vn.roundtrip_cids_equal");
                let i: usize = kani::any();
                assert!(d.versions().len() == k && (i >= k || d.versions()[i] == v[i]), "C05.header.vn.roundtrip_versions_equal");
                assert!(rest == 0, "C05.header.vn.roundtrip_consumes_exactly_written");
            }
            _ => assert!(false, "C05.header.vn.roundtrip_decodes"),
        }
        kani::cover!(k == 2, "C05.header.vn.reach_2_versions");
        kani::cover!(k == 0, "C05.header.vn.reach_no_versions");
    }
}
