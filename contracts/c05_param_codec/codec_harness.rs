// ---- spliced by /verif (contracts/c05_param_codec) : encode/decode round trip of every transport-parameter
// value kind through the real `WriteParameter::put_parameter` (on bytes::BufMut for &mut [u8]) and the real
// `be_raw_parameter` + `be_parameter_value` -----------------------------------------------------------------
//   ensures  bytes written == |id varint| + |length varint| + value length, and the announced length field equals
//            the number of value bytes written
//   ensures  be_raw_parameter(written) == Ok((empty, (id, value bytes)))
//   ensures  be_parameter_value(value bytes, id) == Ok((empty, value))
// `crate::varint::be_varint` is replaced by the RFC decoder `be_varint_spec`, which `be_varint_refines_spec`
// (same file, included) proves equal to it on every input. `put_varint` is the real one.
#[cfg(kani)]
mod verif_c05_param_codec {
    use std::net::{Ipv4Addr, Ipv6Addr, SocketAddrV4, SocketAddrV6};

    use super::*;
    use crate::varint::VARINT_MAX;

    //@include ../c03_param_decode/varint_spec.rs

    const CAP: usize = 72;

    fn any_varint() -> VarInt {
        let x: u64 = kani::any();
        kani::assume(x <= VARINT_MAX); // type invariant
        VarInt::from_u64(x).unwrap()
    }

    fn any_cid() -> ConnectionId {
        let len: u8 = kani::any();
        kani::assume(len as usize <= crate::cid::MAX_CID_SIZE); // type invariant
        let mut bytes: [u8; 20] = kani::any();
        // representation invariant kept by every constructor (`from_slice`, `random_gen`): unused bytes are zero.
        // (`==` ignores them; it is assumed here only so that the decoded value is also field-wise identical.)
        let mut i = 0;
        while i < 20 {
            if i >= len as usize {
                bytes[i] = 0;
            }
            i += 1;
        }
        ConnectionId { len, bytes }
    }

    /// RFC 9000 §16 size of the varint encoding of `x`
    fn varint_size(x: u64) -> usize {
        if x < 64 {
            1
        } else if x < 16384 {
            2
        } else if x < (1 << 30) {
            4
        } else {
            8
        }
    }

    /// encode one parameter, check the size equations and the framing, return the value bytes' position
    fn encode_and_frame(id: ParameterId, v: &ParameterValue, value_len: usize, buf: &mut [u8; CAP]) -> (usize, usize) {
        let mut w = &mut buf[..];
        w.put_parameter(id, v);
        let written = CAP - w.len();
        let id_size = varint_size(id as u64);
        let len_size = varint_size(value_len as u64);
        assert!(written == id_size + len_size + value_len, "C05.param.put.written_is_id_plus_length_plus_value");
        let r = be_raw_parameter(&buf[..written]);
        match r {
            Ok((rest, (rid, data))) => {
                assert!(rest.is_empty(), "C05.param.frame.decoder_consumes_exactly_what_was_written");
                assert!(rid.into_u64() == id as u64, "C05.param.frame.id_preserved");
                assert!(data.len() == value_len, "C05.param.frame.announced_length_is_value_length");
                assert!(ParameterId::try_from(rid) == Ok(id), "C05.param.frame.id_decodes_to_same_variant");
                (id_size + len_size, value_len)
            }
            Err(_) => {
                assert!(false, "C05.param.frame.written_parameter_is_decodable");
                (0, 0)
            }
        }
    }

    /// VarInt kind, full 62-bit domain; ids with 1-byte (0x04), 1-byte high (0x20) wire ids
    #[kani::proof]
    #[kani::unwind(10)]
    #[kani::stub(crate::varint::be_varint, be_varint_spec)]
    fn varint_value_roundtrip() {
        let x = any_varint();
        let v = ParameterValue::VarInt(x);
        let id = if kani::any() { ParameterId::InitialMaxData } else { ParameterId::MaxDatagramFrameSize };
        let mut buf = [0u8; CAP];
        let (off, len) = encode_and_frame(id, &v, varint_size(x.into_u64()), &mut buf);
        assert!(len == x.encoding_size(), "C05.param.varint.value_length_is_encoding_size");
        let back = if id == ParameterId::InitialMaxData {
            be_parameter_value(&buf[off..off + len], ParameterId::InitialMaxData)
        } else {
            be_parameter_value(&buf[off..off + len], ParameterId::MaxDatagramFrameSize)
        };
        assert!(
            matches!(&back, Ok((rest, ParameterValue::VarInt(y))) if rest.is_empty() && *y == x),
            "C05.param.varint.decodes_to_same_value"
        );
        kani::cover!(x.into_u64() == 63, "C05.param.varint.reach_63");
        kani::cover!(x.into_u64() == 64, "C05.param.varint.reach_64");
        kani::cover!(x.into_u64() == 16383, "C05.param.varint.reach_16383");
        kani::cover!(x.into_u64() == 16384, "C05.param.varint.reach_16384");
        kani::cover!(x.into_u64() == (1 << 30) - 1, "C05.param.varint.reach_2pow30_minus_1");
        kani::cover!(x.into_u64() == 1 << 30, "C05.param.varint.reach_2pow30");
        kani::cover!(x.into_u64() == VARINT_MAX, "C05.param.varint.reach_max");
    }

    // `Duration::from_millis` / `Duration::as_millis` are 64/128-bit division and multiplication by 1000 and
    // 10^6; proving `as_millis(from_millis(x)) == x` bit-precisely is a std fact CBMC does not finish on (22 CPU
    // minutes, then out of memory). Both are replaced by a pair of mutually inverse shift encodings, so the harness
    // proves that the codec carries the millisecond count through unchanged, for the full 62-bit domain.
    fn from_millis_model(ms: u64) -> Duration {
        Duration::new(ms >> 20, (ms & 0xf_ffff) as u32)
    }

    fn as_millis_model(d: &Duration) -> u128 {
        ((d.as_secs() as u128) << 20) | d.subsec_nanos() as u128
    }

    /// Duration kind: whole milliseconds below 2^62 (what the wire can carry; `put_duration_parameter` panics on
    /// more and truncates sub-millisecond parts -- caller obligation recorded in unit.json)
    #[kani::proof]
    #[kani::unwind(10)]
    #[kani::stub(crate::varint::be_varint, be_varint_spec)]
    #[kani::stub(std::time::Duration::from_millis, from_millis_model)]
    #[kani::stub(std::time::Duration::as_millis, as_millis_model)]
    fn duration_value_roundtrip() {
        let ms = any_varint().into_u64();
        let d = Duration::from_millis(ms);
        let v = ParameterValue::Duration(d);
        let id = if kani::any() { ParameterId::MaxIdleTimeout } else { ParameterId::MaxAckDelay };
        let mut buf = [0u8; CAP];
        let (off, len) = encode_and_frame(id, &v, varint_size(ms), &mut buf);
        let back = if id == ParameterId::MaxIdleTimeout {
            be_parameter_value(&buf[off..off + len], ParameterId::MaxIdleTimeout)
        } else {
            be_parameter_value(&buf[off..off + len], ParameterId::MaxAckDelay)
        };
        assert!(
            matches!(&back, Ok((rest, ParameterValue::Duration(y))) if rest.is_empty() && *y == d),
            "C05.param.duration.decodes_to_same_value"
        );
        kani::cover!(ms == 0, "C05.param.duration.reach_zero");
        kani::cover!(ms == VARINT_MAX, "C05.param.duration.reach_max");
    }

    /// flag kind (zero-length value); grease_quic_bit has a 2-byte wire id (0x2ab2)
    #[kani::proof]
    #[kani::unwind(10)]
    #[kani::stub(crate::varint::be_varint, be_varint_spec)]
    fn flag_value_roundtrip() {
        let grease: bool = kani::any();
        let id = if grease { ParameterId::GreaseQuicBit } else { ParameterId::DisableActiveMigration };
        let mut buf = [0u8; CAP];
        let (off, len) = encode_and_frame(id, &ParameterValue::True, 0, &mut buf);
        let back = if grease {
            be_parameter_value(&buf[off..off + len], ParameterId::GreaseQuicBit)
        } else {
            be_parameter_value(&buf[off..off + len], ParameterId::DisableActiveMigration)
        };
        assert!(matches!(&back, Ok((rest, ParameterValue::True)) if rest.is_empty()), "C05.param.flag.decodes_to_true");
        kani::cover!(grease, "C05.param.flag.reach_two_byte_id");
    }

    /// connection-id kind, every length 0..=20
    #[kani::proof]
    #[kani::unwind(22)]
    #[kani::stub(crate::varint::be_varint, be_varint_spec)]
    fn cid_value_roundtrip() {
        let cid = any_cid();
        let v = ParameterValue::ConnectionId(cid);
        let mut buf = [0u8; CAP];
        let (off, len) = encode_and_frame(ParameterId::InitialSourceConnectionId, &v, cid.len as usize, &mut buf);
        let back = be_parameter_value(&buf[off..off + len], ParameterId::InitialSourceConnectionId);
        assert!(
            matches!(&back, Ok((rest, ParameterValue::ConnectionId(y))) if rest.is_empty() && y.len == cid.len && y.bytes == cid.bytes),
            "C05.param.cid.decodes_to_same_value"
        );
        kani::cover!(cid.len == 0, "C05.param.cid.reach_empty");
        kani::cover!(cid.len == 20, "C05.param.cid.reach_20");
    }

    /// stateless_reset_token
    #[kani::proof]
    #[kani::unwind(18)]
    #[kani::stub(crate::varint::be_varint, be_varint_spec)]
    fn token_value_roundtrip() {
        let raw: [u8; 16] = kani::any();
        let t = ResetToken::new(&raw);
        let v = ParameterValue::ResetToken(t);
        let mut buf = [0u8; CAP];
        let (off, len) = encode_and_frame(ParameterId::StatelessResetToken, &v, 16, &mut buf);
        assert!(len == t.encoding_size(), "C05.param.token.value_length_is_encoding_size");
        let back = be_parameter_value(&buf[off..off + len], ParameterId::StatelessResetToken);
        assert!(
            matches!(&back, Ok((rest, ParameterValue::ResetToken(y))) if rest.is_empty() && **y == raw),
            "C05.param.token.decodes_to_same_value"
        );
    }

    /// preferred_address (flow label and scope id of the IPv6 socket address are not on the wire: zero)
    #[kani::proof]
    #[kani::unwind(24)]
    #[kani::stub(crate::varint::be_varint, be_varint_spec)]
    fn preferred_address_value_roundtrip() {
        let pa = PreferredAddress::new(
            SocketAddrV4::new(Ipv4Addr::from(kani::any::<[u8; 4]>()), kani::any()),
            SocketAddrV6::new(Ipv6Addr::from(kani::any::<[u8; 16]>()), kani::any(), 0, 0),
            any_cid(),
            ResetToken::new(&kani::any::<[u8; 16]>()),
        );
        let v = ParameterValue::PreferredAddress(pa);
        let cl = pa.connection_id().len as usize;
        let mut buf = [0u8; CAP];
        let (off, len) = encode_and_frame(ParameterId::PreferredAddress, &v, 41 + cl, &mut buf);
        assert!(len == pa.encoding_size(), "C05.param.pa.value_length_is_encoding_size");
        let back = be_parameter_value(&buf[off..off + len], ParameterId::PreferredAddress);
        match &back {
            Ok((rest, ParameterValue::PreferredAddress(y))) => {
                assert!(rest.is_empty(), "C05.param.pa.decoder_consumes_all");
                assert!(
                    y.address_v4() == pa.address_v4()
                        && y.address_v6() == pa.address_v6()
                        && y.connection_id().len == pa.connection_id().len
                        && y.connection_id().bytes == pa.connection_id().bytes
                        && *y.stateless_reset_token() == *pa.stateless_reset_token(),
                    "C05.param.pa.decodes_to_same_value"
                );
            }
            _ => assert!(false, "C05.param.pa.decodes_to_same_value"),
        }
        kani::cover!(cl == 20, "C05.param.pa.reach_longest");
        kani::cover!(cl == 0, "C05.param.pa.reach_zero_length_cid");
    }

    /// opaque-bytes kind (client_name, 4-byte wire id 0xffee). bound: value of at most 3 bytes.
    #[kani::proof]
    #[kani::unwind(10)]
    #[kani::stub(crate::varint::be_varint, be_varint_spec)]
    fn bytes_value_roundtrip() {
        let raw: [u8; 3] = kani::any();
        let n: usize = kani::any();
        kani::assume(n <= 3);
        let b = Bytes::copy_from_slice(&raw[..n]);
        let v = ParameterValue::Bytes(b);
        let mut buf = [0u8; CAP];
        let (off, len) = encode_and_frame(ParameterId::ClientName, &v, n, &mut buf);
        let back = be_parameter_value(&buf[off..off + len], ParameterId::ClientName);
        match &back {
            Ok((rest, ParameterValue::Bytes(y))) => {
                assert!(rest.is_empty(), "C05.param.bytes.decoder_consumes_all");
                let mut same = y.len() == n;
                let mut i = 0;
                while i < n && same {
                    same = y[i] == raw[i];
                    i += 1;
                }
                assert!(same, "C05.param.bytes.decodes_to_same_value");
            }
            _ => assert!(false, "C05.param.bytes.decodes_to_same_value"),
        }
        kani::cover!(n == 0, "C05.param.bytes.reach_empty");
        kani::cover!(n == 3, "C05.param.bytes.reach_3");
        std::mem::forget((v, back)); // dropping a `Bytes` is a call through its vtable (tool cost only)
    }
}
