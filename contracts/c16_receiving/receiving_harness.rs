// ---- spliced by /verif (contracts/c16_receiving) : contracts on the real frame-receiving future --------
//
// `Receiving<F>` (this file) with its `Future` impl (frame/io.rs) is only touched under the Mutex of
// `ArcReceiving<F>`: waiter = poll, notifiers = recv_frame / reset.  Contracts are stated from the
// property (C16: a Pending poll leaves the caller's waker registered; a notifier wakes the registered
// waker; closing wakes the sleeper), each from an ARBITRARY pre-state.  Where the code does not meet
// the contract the region is cut out of the general harness with a commented assume and pinned by a
// confined `expect_fail` harness (see unit.json).
#[cfg(kani)]
mod verif_c16_receiving {
    use std::{future::Future, pin::Pin, task::Context};

    use super::*;
    use crate::frame::io::ReceiveFrame;

    //@include ../c16_sendwaker/counting_waker.rs

    /// 0 Pending, 1 Waiting(a), 2 Waiting(b), 3 Rcvd, 4 Read, 5 Reset
    fn shape(st: &Receiving<u8>, a: &Task, b: &Task) -> u8 {
        match st {
            Receiving::Pending => 0,
            Receiving::Waiting(w) if a.is(w) => 1,
            Receiving::Waiting(w) if b.is(w) => 2,
            Receiving::Waiting(_) => 9,
            Receiving::Rcvd(_) => 3,
            Receiving::Read => 4,
            Receiving::Reset => 5,
        }
    }

    fn frame_of(st: &Receiving<u8>) -> Option<u8> {
        if let Receiving::Rcvd(f) = st { Some(*f) } else { None }
    }

    fn any_receiving(a: &Task, b: &Task) -> Receiving<u8> {
        match kani::any::<u8>() % 6 {
            0 => Receiving::Pending,
            1 => Receiving::Waiting(a.waker()),
            2 => Receiving::Waiting(b.waker()),
            3 => Receiving::Rcvd(kani::any()),
            4 => Receiving::Read,
            _ => Receiving::Reset,
        }
    }


    /// contract of `<Receiving<F> as Future>::poll`, polled by task a.
    #[kani::proof]
    fn poll_contract() {
        let (a, b) = (Task::new(), Task::new());
        let mut st = any_receiving(&a, &b);
        let (old, old_frame) = (shape(&st, &a, &b), frame_of(&st));
        // FINDING C16.receiving.poll.pending_registers_callers_waker: `poll` ignores its Context (`_cx`);
        // from `Pending` (and from `Waiting(other task)`) it returns Poll::Pending WITHOUT storing the
        // caller's waker.  Excluded here, pinned in `poll_pending_registers_waker_finding`.
        // (repaired in /repo by the fix commit b686c82: the region is no longer excluded)
        let w = a.waker();
        let mut cx = Context::from_waker(&w);
        let r = Pin::new(&mut st).poll(&mut cx);
        match old {
            0 | 1 | 2 => {
                assert!(r.is_pending(), "C16.receiving.poll.pending_while_nothing_received");
                assert!(shape(&st, &a, &b) == 1, "C16.receiving.poll.pending_registers_callers_waker");
            }
            3 => {
                assert!(matches!(&r, core::task::Poll::Ready(Ok(Some(f))) if Some(*f) == old_frame), "C16.receiving.poll.ready_with_the_frame");
                assert!(shape(&st, &a, &b) == 4, "C16.receiving.poll.frame_is_delivered_once");
            }
            4 => {
                assert!(matches!(&r, core::task::Poll::Ready(Ok(None))), "C16.receiving.poll.read_yields_none");
                assert!(shape(&st, &a, &b) == 4, "C16.receiving.poll.read_keeps_state");
            }
            _ => {
                assert!(matches!(&r, core::task::Poll::Ready(Err(ResetError))), "C16.receiving.poll.reset_yields_error");
                assert!(shape(&st, &a, &b) == 5, "C16.receiving.poll.reset_keeps_state");
            }
        }
        assert!(a.wakes() == 0 && b.wakes() == 0, "C16.receiving.poll.wakes_nobody");
        kani::cover!(old == 1, "C16.receiving.poll.reach_repoll_registered");
        kani::cover!(old == 3, "C16.receiving.poll.reach_frame");
        kani::cover!(old == 4, "C16.receiving.poll.reach_read");
        kani::cover!(old == 5, "C16.receiving.poll.reach_reset");
    }

    /// confined to the bad region: the very first poll of a fresh `Receiving` (state `Pending`), or a poll
    /// while another task's waker is stored.
    #[kani::proof]
    fn poll_pending_registers_waker_finding() {
        let (a, b) = (Task::new(), Task::new());
        let mut st: Receiving<u8> = if kani::any() { Receiving::Pending } else { Receiving::Waiting(b.waker()) };
        let w = a.waker();
        let mut cx = Context::from_waker(&w);
        let r = Pin::new(&mut st).poll(&mut cx);
        assert!(r.is_pending(), "C16.receiving.poll.pending_while_nothing_received");
        assert!(shape(&st, &a, &b) == 1, "C16.receiving.poll.pending_registers_callers_waker");
    }

    /// contract of `recv_frame(f)`: a waiting or not-yet-polled receiver gets the frame and the registered
    /// waker is woken exactly once; a frame that is already there / already read / a reset is not undone.
    #[kani::proof]
    fn recv_frame_contract() {
        let (a, b) = (Task::new(), Task::new());
        let mut st = any_receiving(&a, &b);
        let (old, old_frame) = (shape(&st, &a, &b), frame_of(&st));
        // FINDING C16.receiving.recv_frame.keeps_*: `match mem::take(self) { .., _ => () }` leaves the
        // default (`Pending`) behind for Rcvd / Read / Reset: an undelivered frame is dropped and a reset is
        // forgotten.  Excluded here, pinned in `recv_frame_forgets_state_finding`.
        // (repaired in /repo by the fix commit b686c82: the region is no longer excluded)
        let f: u8 = kani::any();
        st.recv_frame(f);
        match old {
            0 | 1 | 2 => {
                assert!(frame_of(&st) == Some(f), "C16.receiving.recv_frame.stores_the_frame");
            }
            3 => {
                assert!(frame_of(&st) == old_frame, "C16.receiving.recv_frame.keeps_undelivered_frame");
            }
            _ => {
                assert!(shape(&st, &a, &b) == old, "C16.receiving.recv_frame.keeps_read_and_reset");
            }
        }
        assert!(a.wakes() == (old == 1) as u32 && b.wakes() == (old == 2) as u32, "C16.receiving.recv_frame.wakes_registered_waker_once");
        assert!(a.live() == 0 && b.live() == 0, "C16.receiving.recv_frame.sup.waker_consumed");
        kani::cover!(old == 0, "C16.receiving.recv_frame.reach_before_first_poll");
        kani::cover!(old == 1, "C16.receiving.recv_frame.reach_wakes_sleeper");
    }

    /// confined to the bad region: a frame / a reset arrives in state Rcvd, Read or Reset.
    #[kani::proof]
    fn recv_frame_forgets_state_finding() {
        let (a, b) = (Task::new(), Task::new());
        let mut st = any_receiving(&a, &b);
        let (old, old_frame) = (shape(&st, &a, &b), frame_of(&st));
        kani::assume(old >= 3);
        st.recv_frame(kani::any());
        if old == 3 {
            assert!(frame_of(&st) == old_frame, "C16.receiving.recv_frame.keeps_undelivered_frame");
        } else {
            assert!(shape(&st, &a, &b) == old, "C16.receiving.recv_frame.keeps_read_and_reset");
        }
    }

    /// contract of `reset()` (the close of this object), total: afterwards Reset; a registered waker is woken
    /// exactly once -- closing wakes the sleeper.
    #[kani::proof]
    fn reset_contract() {
        let (a, b) = (Task::new(), Task::new());
        let mut st = any_receiving(&a, &b);
        let old = shape(&st, &a, &b);
        st.reset();
        assert!(shape(&st, &a, &b) == 5, "C16.receiving.reset.state_becomes_reset");
        assert!(a.wakes() == (old == 1) as u32 && b.wakes() == (old == 2) as u32, "C16.receiving.reset.wakes_registered_waker_once");
        assert!(a.live() == 0 && b.live() == 0, "C16.receiving.reset.sup.waker_consumed");
        kani::cover!(old == 1, "C16.receiving.reset.reach_wakes_sleeper");
        kani::cover!(old == 3, "C16.receiving.reset.reach_discards_frame");
    }

    /// inductive step of "no lost wake-up", GIVEN the invariant `state == Waiting(a)` while a sleeps (which
    /// only a registering poll could establish -- see the finding): every notifier wakes a and a's next
    /// poll observes the outcome.
    #[kani::proof]
    fn lemma_notifiers_wake_registered_sleeper() {
        let a = Task::new();
        let w = a.waker();
        let mut cx = Context::from_waker(&w);
        let mut st: Receiving<u8> = Receiving::Waiting(a.waker());
        if kani::any() {
            let f: u8 = kani::any();
            st.recv_frame(f);
            assert!(a.wakes() == 1, "C16.receiving.no_lost_wakeup.recv_frame_wakes_registered_sleeper");
            assert!(matches!(Pin::new(&mut st).poll(&mut cx), core::task::Poll::Ready(Ok(Some(x))) if x == f), "C16.receiving.no_lost_wakeup.woken_task_gets_frame");
        } else {
            st.reset();
            assert!(a.wakes() == 1, "C16.receiving.no_lost_wakeup.reset_wakes_registered_sleeper");
            assert!(matches!(Pin::new(&mut st).poll(&mut cx), core::task::Poll::Ready(Err(ResetError))), "C16.receiving.no_lost_wakeup.woken_task_sees_reset");
        }
    }

    /// the property itself on the shared object, and the witness of the finding: a task polls a fresh
    /// `ArcReceiving`, gets Pending (so it goes to sleep), then the frame arrives / the object is reset.
    /// C16 demands that the task is woken; it is not (its waker was never registered) -- a lost wake-up.
    #[kani::proof]
    #[kani::unwind(2)]
    fn arc_receiving_lost_wakeup_finding() {
        let a = Task::new();
        let w = a.waker();
        let mut cx = Context::from_waker(&w);
        let mut rx: ArcReceiving<u8> = ArcReceiving::default();
        let tx = rx.clone();
        let r = Pin::new(&mut rx).poll(&mut cx);
        assert!(r.is_pending(), "C16.receiving.arc.sup.first_poll_pending");
        if kani::any() {
            let _ = tx.recv_frame(kani::any());
            assert!(a.wakes() >= 1, "C16.receiving.arc.frame_arrival_wakes_sleeping_task");
        } else {
            tx.reset();
            assert!(a.wakes() >= 1, "C16.receiving.arc.reset_wakes_sleeping_task");
        }
    }
}
