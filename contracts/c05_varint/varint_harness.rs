// ---- spliced by /verif (contracts/c05_varint) : contracts on the real QUIC varint codec ---------------
// RFC 9000 §16: the two most significant bits of the first byte are log2 of the encoded length in bytes
// (1, 2, 4, 8); the remaining 6/14/30/62 bits are the value in network byte order.
#[cfg(kani)]
mod verif_c05_varint {
    use super::*;

    /// RFC 9000 §16 / A.1 reference decoder over a fully available prefix (spec function, loop-free)
    fn rfc_len(first: u8) -> usize {
        1usize << (first >> 6)
    }

    fn rfc_value(b: &[u8; 9]) -> u64 {
        let v0 = (b[0] & 0x3f) as u64;
        match b[0] >> 6 {
            0 => v0,
            1 => (v0 << 8) | b[1] as u64,
            2 => (v0 << 24) | ((b[1] as u64) << 16) | ((b[2] as u64) << 8) | b[3] as u64,
            _ => {
                (v0 << 56)
                    | ((b[1] as u64) << 48)
                    | ((b[2] as u64) << 40)
                    | ((b[3] as u64) << 32)
                    | ((b[4] as u64) << 24)
                    | ((b[5] as u64) << 16)
                    | ((b[6] as u64) << 8)
                    | b[7] as u64
            }
        }
    }

    /// smallest of 1, 2, 4, 8 bytes whose 6/14/30/62 usable bits hold `x`
    fn min_width(x: u64) -> usize {
        if x < (1 << 6) {
            1
        } else if x < (1 << 14) {
            2
        } else if x < (1 << 30) {
            4
        } else {
            8
        }
    }

    /// constructors: `from_u64`/`from_u128`/`TryFrom` accept exactly the 62-bit domain and keep the value.
    #[kani::proof]
    fn constructors_contract() {
        let x: u64 = kani::any();
        match VarInt::from_u64(x) {
            Ok(v) => {
                assert!(x < (1u64 << 62), "C05.varint.from_u64.ok_only_below_2_62");
                assert!(v.into_u64() == x && u64::from(v) == x, "C05.varint.from_u64.value_preserved");
            }
            Err(_) => assert!(x >= (1u64 << 62), "C05.varint.from_u64.err_only_from_2_62"),
        }
        assert!(VarInt::try_from(x).is_ok() == (x < (1u64 << 62)), "C05.varint.try_from_u64.ok_iff_below_2_62");
        assert!(VarInt::try_from(x as usize).is_ok() == (x < (1u64 << 62)), "C05.varint.try_from_usize.ok_iff_below_2_62");
        let y: u128 = kani::any();
        match VarInt::from_u128(y) {
            Ok(v) => assert!(y < (1u128 << 62) && v.into_u64() as u128 == y, "C05.varint.from_u128.ok_only_below_2_62_value_preserved"),
            Err(_) => assert!(y >= (1u128 << 62), "C05.varint.from_u128.err_only_from_2_62"),
        }
        let z: u32 = kani::any();
        assert!(VarInt::from_u32(z).into_u64() == z as u64 && VarInt::from(z).into_u64() == z as u64, "C05.varint.from_u32.value_preserved");
        assert!(VarInt::from(z as u16).into_u64() == (z as u16) as u64, "C05.varint.from_u16.value_preserved");
        assert!(VarInt::from(z as u8).into_u64() == (z as u8) as u64, "C05.varint.from_u8.value_preserved");
        assert!(VarInt::MAX.into_u64() == (1u64 << 62) - 1 && VARINT_MAX == (1u64 << 62) - 1, "C05.varint.max_is_2_62_minus_1");
        kani::cover!(x == (1u64 << 62) - 1, "C05.varint.from_u64.reach_max");
        kani::cover!(x == (1u64 << 62), "C05.varint.from_u64.reach_first_rejected");
    }

    /// contract of `put_varint` + `encoding_size`, whole 62-bit domain:
    /// announced size == written size <= announced max; the wire bytes are the RFC 9000 §16 encoding in the
    /// minimal width; no byte outside the announced size is modified.
    #[kani::proof]
    #[kani::unwind(10)]
    fn put_contract() {
        let x: u64 = kani::any();
        kani::assume(x < (1u64 << 62)); // type invariant of VarInt (the only safe constructors enforce it, see constructors_contract)
        let v = VarInt::from_u64(x).unwrap();
        let announced = v.encoding_size();
        let orig: [u8; 9] = kani::any();
        let mut buf = orig;
        let written = {
            let mut w = &mut buf[..8]; // VarInt::MAX_SIZE bytes are always enough
            w.put_varint(&v);
            8 - w.len()
        };
        assert!(written == announced, "C05.varint.put.written_eq_announced_size");
        assert!(announced <= VarInt::MAX_SIZE, "C05.varint.put.announced_le_max_size");
        assert!(written == min_width(x), "C05.varint.put.width_is_minimal");
        assert!(rfc_len(buf[0]) == written, "C05.varint.put.wire_prefix_is_log2_len");
        assert!(rfc_value(&buf) == x, "C05.varint.put.wire_is_rfc_encoding");
        // nothing behind the announced size is touched
        let mut i = 0;
        while i < 9 {
            assert!(i < written || buf[i] == orig[i], "C05.varint.put.writes_nothing_beyond_size");
            i += 1;
        }
        kani::cover!(x == 0, "C05.varint.put.reach_0");
        kani::cover!(x == 63, "C05.varint.put.reach_63");
        kani::cover!(x == 64, "C05.varint.put.reach_64");
        kani::cover!(x == 16383, "C05.varint.put.reach_16383");
        kani::cover!(x == 16384, "C05.varint.put.reach_16384");
        kani::cover!(x == (1 << 30) - 1, "C05.varint.put.reach_2_30_minus_1");
        kani::cover!(x == (1 << 30), "C05.varint.put.reach_2_30");
        kani::cover!(x == (1u64 << 62) - 1, "C05.varint.put.reach_2_62_minus_1");
    }

    /// round trip: `be_varint` over exactly the bytes `put_varint` wrote yields the value and consumes them all.
    #[kani::proof]
    #[kani::unwind(10)]
    fn roundtrip_contract() {
        let x: u64 = kani::any();
        kani::assume(x < (1u64 << 62)); // type invariant
        let v = VarInt::from_u64(x).unwrap();
        let mut buf = [0u8; 8];
        let written = {
            let mut w = &mut buf[..];
            w.put_varint(&v);
            8 - w.len()
        };
        match be_varint(&buf[..written]) {
            Ok((rest, d)) => {
                assert!(d == v, "C05.varint.roundtrip.value_equal");
                assert!(rest.is_empty(), "C05.varint.roundtrip.consumes_exactly_written");
            }
            Err(_) => assert!(false, "C05.varint.roundtrip.decodes"),
        }
        kani::cover!(written == 1, "C05.varint.roundtrip.reach_1");
        kani::cover!(written == 2, "C05.varint.roundtrip.reach_2");
        kani::cover!(written == 4, "C05.varint.roundtrip.reach_4");
        kani::cover!(written == 8, "C05.varint.roundtrip.reach_8");
    }

    /// framing of an encoded value inside a longer / shorter buffer: following bytes are left alone,
    /// a truncated encoding is reported as incomplete and never as a value.
    #[kani::proof]
    #[kani::unwind(10)]
    fn roundtrip_framing_contract() {
        let x: u64 = kani::any();
        kani::assume(x < (1u64 << 62)); // type invariant
        let v = VarInt::from_u64(x).unwrap();
        let mut buf: [u8; 9] = kani::any();
        let written = {
            let mut w = &mut buf[..8];
            w.put_varint(&v);
            8 - w.len()
        };
        let cut: bool = kani::any();
        if cut {
            assert!(matches!(be_varint(&buf[..written - 1]), Err(nom::Err::Incomplete(_))), "C05.varint.roundtrip.truncated_is_incomplete");
        } else {
            match be_varint(&buf[..]) {
                Ok((rest, d)) => assert!(d == v && rest.len() == 9 - written, "C05.varint.roundtrip.ignores_following_bytes"),
                Err(_) => assert!(false, "C05.varint.roundtrip.decodes_with_following_bytes"),
            }
        }
        kani::cover!(cut && written == 8, "C05.varint.roundtrip.reach_truncated_8");
        kani::cover!(cut && written == 1, "C05.varint.roundtrip.reach_truncated_to_empty");
        kani::cover!(!cut && written == 4, "C05.varint.roundtrip.reach_following_4");
    }

    /// contract of `encode_varint` (explicit width): requires that the value fits the requested width
    /// (documented: panics otherwise); writes exactly `nbytes`, decodes back to the value.
    #[kani::proof]
    #[kani::unwind(10)]
    fn encode_width_contract() {
        let x: u64 = kani::any();
        kani::assume(x < (1u64 << 62)); // type invariant
        let v = VarInt::from_u64(x).unwrap();
        let sel: u8 = kani::any();
        kani::assume(sel < 4);
        let (nbytes, n) = match sel {
            0 => (EncodeBytes::One, 1usize),
            1 => (EncodeBytes::Two, 2),
            2 => (EncodeBytes::Four, 4),
            _ => (EncodeBytes::Eight, 8),
        };
        kani::assume(min_width(x) <= n); // documented precondition of encode_varint
        let mut buf = [0u8; 9];
        let written = {
            let mut w = &mut buf[..8];
            w.encode_varint(&v, nbytes);
            8 - w.len()
        };
        assert!(written == n, "C05.varint.encode.written_eq_requested_width");
        assert!(rfc_len(buf[0]) == n && rfc_value(&buf) == x, "C05.varint.encode.wire_is_rfc_encoding");
        match be_varint(&buf[..written]) {
            Ok((rest, d)) => assert!(d == v && rest.is_empty(), "C05.varint.encode.roundtrip_value_and_length"),
            Err(_) => assert!(false, "C05.varint.encode.roundtrip_decodes"),
        }
        kani::cover!(n == 8 && x == 0, "C05.varint.encode.reach_nonminimal_8");
        kani::cover!(n == 2 && x == 37, "C05.varint.encode.reach_nonminimal_2");
        kani::cover!(n == 1 && x == 63, "C05.varint.encode.reach_1");
        kani::cover!(n == 4 && x == (1 << 30) - 1, "C05.varint.encode.reach_4_max");
    }

    /// decode totality: every byte string of length 0..=9 (be_varint never looks past the 8th byte).
    /// Ok  <=> the width announced by the first byte is available; the value is the RFC value (< 2^62),
    ///         the remainder is the input minus exactly that width (no mis-framing).
    /// Err  => Incomplete(missing byte count), never Error/Failure, never a panic (`unreachable!` arm).
    #[kani::proof]
    #[kani::unwind(10)]
    fn decode_total_contract() {
        let buf: [u8; 9] = kani::any();
        let n: usize = kani::any();
        kani::assume(n <= 9);
        let input = &buf[..n];
        let need = rfc_len(buf[0]);
        match be_varint(input) {
            Ok((rest, v)) => {
                assert!(n >= 1 && n >= need, "C03.varint.decode.ok_only_if_width_available");
                assert!(v.into_u64() < (1u64 << 62), "C03.varint.decode.value_below_2_62");
                assert!(v.into_u64() == rfc_value(&buf), "C03.varint.decode.value_is_rfc_value");
                assert!(rest.len() + need == n, "C03.varint.decode.consumes_exactly_width");
                assert!(core::ptr::eq(rest.as_ptr(), input[need..].as_ptr()), "C03.varint.decode.rest_is_suffix_of_input");
                // re-encoding never needs more bytes than were consumed ("admitted by size always fits")
                assert!(v.encoding_size() <= need, "C05.varint.decode.reencode_not_longer");
            }
            Err(nom::Err::Incomplete(needed)) => {
                assert!(n == 0 || n < need, "C03.varint.decode.incomplete_only_if_short");
                let missing = if n == 0 { 1 } else { need - n };
                assert!(needed == nom::Needed::new(missing), "C03.varint.decode.sup.needed_is_missing_bytes");
            }
            Err(_) => assert!(false, "C03.varint.decode.err_is_incomplete_only"),
        }
        kani::cover!(n == 0, "C03.varint.decode.reach_empty");
        kani::cover!(n == 9 && need == 8, "C03.varint.decode.reach_8_with_rest");
        kani::cover!(n == 3 && need == 4, "C03.varint.decode.reach_short_4");
        kani::cover!(n == 1 && need == 1, "C03.varint.decode.reach_1");
        kani::cover!(n == 2 && need == 2 && buf[0] == 0x40 && buf[1] == 0, "C03.varint.decode.reach_nonminimal_zero");
    }
}
