// ---- spliced by /verif (contracts/c03_frame_decode): C03 contracts of the frame decoders -------------------------
//
//   be_frame(raw, packet_type)  =  be_frame_type  ;  belongs_to  ;  complete_frame(type, raw)  ;  error mapping
//
// * `frame_type_decode_total`    be_frame_type on arbitrary bytes: total, consumes 1/2/4/8 bytes, errors are exactly
//                                IncompleteType (truncated) and InvalidType (no such frame), nothing else.
// * `<kind>_decode_total`        complete_frame(<type literal>, raw) on arbitrary bytes of every length 0..=N: never
//                                panics, never reads outside the input (CBMC pointer checks on the real parsers), `Ok`
//                                leaves a suffix of the input, errors are `Incomplete`/`Error` only - `Failure` would
//                                hit `unreachable!("parsing frame never fails")` in be_frame.  Plus the value checks
//                                RFC 9000 §19 makes the decoder's duty (FRAME_ENCODING_ERROR).
// * `glue_*`                     be_frame itself equals the composition above (one frame type / one input length per
//                                harness: on symbolic lengths the frame type stops being a constant after the first
//                                `Result` merge and CBMC walks all 26 arms - > 15 min, see unit.json "unverified").
// * `frame_reader_*`             FrameReader::next: None iff empty, Some(Ok) strictly shrinks the payload by the bytes
//                                be_frame consumed, Some(Err) leaves it untouched (the caller `read_plain_packet` stops).
//
// N = largest encoding of the frame body + 1 for fixed-shape frames; the argument that longer inputs add nothing (a parser
// never looks past its last field) is stated, not proved: the harnesses are "bounded".
#[cfg(kani)]
mod verif_c03_frame_decode {
    use super::*;
    use crate::packet::r#type::{
        long::{Type::V1, Ver1},
        short::OneRtt,
    };
    //@include ../c05_frames_fixed/prelude.rs

    /// value and length of the varint at the start of `b` per RFC 9000 §16, None if truncated (the straight-line
    /// specification `be_varint_spec` of the prelude, proved equal to the real `be_varint` by varint_spec_equiv)
    fn spec_varint(b: &[u8]) -> Option<(u64, usize)> {
        match be_varint_spec(b) {
            Ok((rest, v)) => Some((v.into_u64(), b.len() - rest.len())),
            Err(_) => None,
        }
    }

    /// byte-wise equality of two slices (explicit loop: no memcmp on the zero-length / dangling-pointer slices that
    /// `Bytes::new()` hands out)
    fn same_bytes(a: &[u8], b: &[u8]) -> bool {
        if a.len() != b.len() {
            return false;
        }
        let mut i = 0;
        while i < a.len() {
            if a[i] != b[i] {
                return false;
            }
            i += 1;
        }
        true
    }

    /// RFC 9000 Table 3 + RFC 9221 + the project's extension range: is `code` a frame type at all? (spec function)
    fn rfc_is_frame_type(code: u64) -> bool {
        code <= 0x1e || code == 0x30 || code == 0x31 || (0x3d7e90..=0x3d7e96).contains(&code)
    }

    // ------------------------------------------------------------------------------------------------------
    // (A) the frame type
    // ------------------------------------------------------------------------------------------------------
    #[kani::proof]
    #[kani::unwind(10)]
    #[kani::stub(alloc::fmt::format, fmt_stub)]
    #[kani::stub(crate::varint::be_varint, be_varint_spec)]
    fn frame_type_decode_total() {
        let buf: [u8; 9] = kani::any();
        let n: usize = kani::any();
        kani::assume(n <= 9);
        let input = &buf[..n];
        match (be_frame_type(input), spec_varint(input)) {
            (Ok((rest, ft)), Some((code, len))) => {
                assert!(n - rest.len() == len && len >= 1, "C03.frame.type.ok_consumes_the_varint");
                assert!(rest.as_ptr() == input[len..].as_ptr(), "C03.frame.type.ok_rest_is_suffix");
                assert!(rfc_is_frame_type(code), "C03.frame.type.ok_only_for_defined_types");
                assert!(VarInt::from(ft).into_u64() == code, "C03.frame.type.ok_value_is_the_wire_code");
                kani::cover!(len == 4, "C03.frame.type.reach_extension_type");
                kani::cover!(len == 2 && code == 1, "C03.frame.type.reach_non_minimal_ping");
            }
            (Err(nom::Err::Error(Error::InvalidType(v))), Some((code, _))) => {
                // RFC 9000 §12.4: unknown frame type => FRAME_ENCODING_ERROR (mapping: c03_frame_errors)
                assert!(!rfc_is_frame_type(code), "C03.frame.type.invalid_only_for_undefined_types");
                assert!(v.into_u64() == code, "C03.frame.type.invalid_reports_the_code");
                kani::cover!(code == 0x1f, "C03.frame.type.reach_0x1f");
                kani::cover!(code == 0x3d7e97, "C03.frame.type.reach_past_extension_range");
            }
            (Err(nom::Err::Error(Error::IncompleteType(_))), None) => {
                kani::cover!(n == 0, "C03.frame.type.reach_empty");
                kani::cover!(n == 7, "C03.frame.type.reach_truncated_8_byte");
            }
            _ => assert!(false, "C03.frame.type.outcome_is_ok_invalid_or_incomplete_as_specified"),
        }
    }

    // ------------------------------------------------------------------------------------------------------
    // (B) the frame bodies
    // ------------------------------------------------------------------------------------------------------
    /// what one run of `complete_frame(ft, raw)(input)` did
    struct Dec {
        ok: bool,
        incomplete: bool,
        error: bool,
        failure: bool,
        /// Ok => the remainder is the tail of the input (consumed <= n, nothing outside the buffer was returned)
        suffix: bool,
        consumed: usize,
        frame: Option<Frame>,
    }

    fn run(ft: FrameType, input: &[u8]) -> Dec {
        let raw = Bytes::from_static(stat(input));
        let mut d = Dec { ok: false, incomplete: false, error: false, failure: false, suffix: false, consumed: 0, frame: None };
        match complete_frame(ft, raw)(input) {
            Ok((rest, frame)) => {
                d.ok = true;
                d.suffix = rest.len() <= input.len() && rest.as_ptr() == input[input.len() - rest.len()..].as_ptr();
                d.consumed = input.len() - rest.len();
                d.frame = Some(frame);
            }
            Err(nom::Err::Incomplete(_)) => d.incomplete = true,
            Err(nom::Err::Error(_)) => d.error = true,
            Err(nom::Err::Failure(_)) => d.failure = true,
        }
        d
    }

    macro_rules! any_input {
        ($n:expr) => {{
            let buf: [u8; $n] = kani::any();
            let n: usize = kani::any();
            kani::assume(n <= $n);
            (buf, n)
        }};
    }

    /// frames that are one varint: MAX_DATA, DATA_BLOCKED, RETIRE_CONNECTION_ID, STREAMS_BLOCKED x2, REMOVE_ADDRESS
    #[kani::proof]
    #[kani::unwind(10)]
    #[kani::stub(crate::varint::be_varint, be_varint_spec)]
    fn one_varint_frames_decode_total() {
        let (buf, n) = any_input!(9);
        let input = &buf[..n];
        let spec = spec_varint(input);

        let d = run(FrameType::MaxData, input);
        assert!(!d.failure && d.ok == spec.is_some() && d.incomplete == spec.is_none(), "C03.frame.max_data.ok_iff_complete_varint");
        assert!(!d.ok || (d.suffix && d.consumed == spec.unwrap().1), "C03.frame.max_data.ok_consumes_exactly_the_field");
        assert!(!d.ok || matches!(d.frame, Some(Frame::MaxData(f)) if f.max_data() == spec.unwrap().0), "C03.frame.max_data.ok_value");

        let d = run(FrameType::DataBlocked, input);
        assert!(!d.failure && d.ok == spec.is_some() && d.incomplete == spec.is_none(), "C03.frame.data_blocked.ok_iff_complete_varint");
        assert!(!d.ok || (d.suffix && d.consumed == spec.unwrap().1), "C03.frame.data_blocked.ok_consumes_exactly_the_field");
        assert!(!d.ok || matches!(d.frame, Some(Frame::DataBlocked(f)) if f.limit() == spec.unwrap().0), "C03.frame.data_blocked.ok_value");

        let d = run(FrameType::RetireConnectionId, input);
        assert!(!d.failure && d.ok == spec.is_some() && d.incomplete == spec.is_none(), "C03.frame.retire_connection_id.ok_iff_complete_varint");
        assert!(!d.ok || (d.suffix && d.consumed == spec.unwrap().1), "C03.frame.retire_connection_id.ok_consumes_exactly_the_field");
        assert!(!d.ok || matches!(d.frame, Some(Frame::RetireConnectionId(f)) if f.sequence() == spec.unwrap().0), "C03.frame.retire_connection_id.ok_value");

        let d = run(FrameType::RemoveAddress, input);
        assert!(!d.failure && d.ok == spec.is_some() && d.incomplete == spec.is_none(), "C03.frame.remove_address.ok_iff_complete_varint");
        assert!(!d.ok || (d.suffix && d.consumed == spec.unwrap().1), "C03.frame.remove_address.ok_consumes_exactly_the_field");
        assert!(!d.ok || matches!(d.frame, Some(Frame::RemoveAddress(f)) if f.seq_num.into_u64() == spec.unwrap().0), "C03.frame.remove_address.ok_value");

        kani::cover!(spec.is_none() && n == 3, "C03.frame.one_varint.reach_truncated");
        kani::cover!(matches!(spec, Some((_, 8))), "C03.frame.one_varint.reach_8_byte");
    }

    /// MAX_STREAMS (0x12/0x13): RFC 9000 §19.11 - a value above 2^60 MUST be refused (FRAME_ENCODING_ERROR).
    /// (That exactly 2^60 is refused as well is the recorded finding C05.frame.max_streams.finding_2pow60.)
    #[kani::proof]
    #[kani::unwind(10)]
    #[kani::stub(crate::varint::be_varint, be_varint_spec)]
    fn max_streams_decode_total() {
        let (buf, n) = any_input!(9);
        let input = &buf[..n];
        let spec = spec_varint(input);
        let d = run(FrameType::MaxStreams(Dir::Bi), input);
        let u = run(FrameType::MaxStreams(Dir::Uni), input);
        assert!(!d.failure && !u.failure, "C03.frame.max_streams.never_failure");
        assert!(d.incomplete == spec.is_none() && u.incomplete == spec.is_none(), "C03.frame.max_streams.incomplete_iff_truncated");
        if let Some((v, len)) = spec {
            if v > (1u64 << 60) {
                assert!(d.error && u.error, "C03.frame.max_streams.over_2pow60_is_refused");
            }
            if v < (1u64 << 60) {
                assert!(d.ok && u.ok, "C03.frame.max_streams.valid_value_is_accepted");
                assert!(d.suffix && u.suffix && d.consumed == len && u.consumed == len, "C03.frame.max_streams.ok_consumes_exactly_the_field");
                assert!(
                    matches!(d.frame, Some(Frame::StreamCtl(StreamCtlFrame::MaxStreams(MaxStreamsFrame::Bi(x)))) if x.into_u64() == v)
                        && matches!(u.frame, Some(Frame::StreamCtl(StreamCtlFrame::MaxStreams(MaxStreamsFrame::Uni(x)))) if x.into_u64() == v),
                    "C03.frame.max_streams.ok_value_and_direction"
                );
            }
            kani::cover!(v == (1u64 << 60) + 1, "C03.frame.max_streams.reach_2pow60_plus_1");
            kani::cover!(v == (1u64 << 60) - 1, "C03.frame.max_streams.reach_2pow60_minus_1");
        }
    }

    /// STREAMS_BLOCKED (0x16/0x17): totality; the RFC 9000 §19.14 value check is the finding harness below
    #[kani::proof]
    #[kani::unwind(10)]
    #[kani::stub(crate::varint::be_varint, be_varint_spec)]
    fn streams_blocked_decode_total() {
        let (buf, n) = any_input!(9);
        let input = &buf[..n];
        let spec = spec_varint(input);
        let d = run(FrameType::StreamsBlocked(Dir::Bi), input);
        let u = run(FrameType::StreamsBlocked(Dir::Uni), input);
        assert!(!d.failure && !u.failure && !d.error && !u.error, "C03.frame.streams_blocked.never_failure");
        assert!(d.incomplete == spec.is_none() && u.incomplete == spec.is_none(), "C03.frame.streams_blocked.incomplete_iff_truncated");
        if d.ok {
            let (v, len) = spec.unwrap();
            assert!(d.suffix && u.suffix && d.consumed == len && u.consumed == len, "C03.frame.streams_blocked.ok_consumes_exactly_the_field");
            assert!(
                matches!(d.frame, Some(Frame::StreamCtl(StreamCtlFrame::StreamsBlocked(StreamsBlockedFrame::Bi(x)))) if x.into_u64() == v)
                    && matches!(u.frame, Some(Frame::StreamCtl(StreamCtlFrame::StreamsBlocked(StreamsBlockedFrame::Uni(x)))) if x.into_u64() == v),
                "C03.frame.streams_blocked.ok_value_and_direction"
            );
        }
        kani::cover!(d.ok && n == 9, "C03.frame.streams_blocked.reach_ok");
    }

    /// confined to the recorded finding: RFC 9000 §19.14 "This value cannot exceed 2^60 ... Receipt of a frame that
    /// encodes a larger stream ID MUST be treated as a connection error of type STREAM_LIMIT_ERROR or
    /// FRAME_ENCODING_ERROR" - neither the decoder nor `ArcRemoteStreamIds::recv_frame` checks it.
    #[kani::proof]
    #[kani::unwind(10)]
    #[kani::stub(crate::varint::be_varint, be_varint_spec)]
    fn streams_blocked_over_2pow60() {
        let (buf, n) = any_input!(9);
        let input = &buf[..n];
        let spec = spec_varint(input);
        kani::assume(matches!(spec, Some((v, _)) if v > (1u64 << 60)));
        let d = run(FrameType::StreamsBlocked(Dir::Bi), input);
        kani::cover!(d.ok, "C03.frame.streams_blocked.finding_over_2pow60.reach_accepted");
        assert!(!d.ok, "C03.frame.streams_blocked.finding_over_2pow60.is_refused");
    }

    /// frames that are stream id + varint: STOP_SENDING, MAX_STREAM_DATA, STREAM_DATA_BLOCKED; and RESET_STREAM (3 fields)
    #[kani::proof]
    #[kani::unwind(10)]
    #[kani::stub(crate::varint::be_varint, be_varint_spec)]
    fn stream_ctl_frames_decode_total() {
        let (buf, n) = any_input!(25);
        let input = &buf[..n];
        let a = spec_varint(input);
        let b = match a {
            Some((_, l)) => spec_varint(&input[l..]),
            None => None,
        };
        let c = match (a, b) {
            (Some((_, l1)), Some((_, l2))) => spec_varint(&input[l1 + l2..]),
            _ => None,
        };
        let two = a.is_some() && b.is_some();
        let three = two && c.is_some();

        let d = run(FrameType::StopSending, input);
        assert!(!d.failure && !d.error && d.ok == two && d.incomplete == !two, "C03.frame.stop_sending.ok_iff_two_complete_varints");
        assert!(!d.ok || (d.suffix && d.consumed == a.unwrap().1 + b.unwrap().1), "C03.frame.stop_sending.ok_consumes_exactly_the_fields");
        assert!(
            !d.ok || matches!(d.frame, Some(Frame::StreamCtl(StreamCtlFrame::StopSending(f))) if u64::from(f.stream_id()) == a.unwrap().0 && f.app_err_code() == b.unwrap().0),
            "C03.frame.stop_sending.ok_value"
        );

        let d = run(FrameType::MaxStreamData, input);
        assert!(!d.failure && !d.error && d.ok == two && d.incomplete == !two, "C03.frame.max_stream_data.ok_iff_two_complete_varints");
        assert!(!d.ok || (d.suffix && d.consumed == a.unwrap().1 + b.unwrap().1), "C03.frame.max_stream_data.ok_consumes_exactly_the_fields");
        assert!(
            !d.ok || matches!(d.frame, Some(Frame::StreamCtl(StreamCtlFrame::MaxStreamData(f))) if u64::from(f.stream_id()) == a.unwrap().0 && f.max_stream_data() == b.unwrap().0),
            "C03.frame.max_stream_data.ok_value"
        );

        let d = run(FrameType::StreamDataBlocked, input);
        assert!(!d.failure && !d.error && d.ok == two && d.incomplete == !two, "C03.frame.stream_data_blocked.ok_iff_two_complete_varints");
        assert!(!d.ok || (d.suffix && d.consumed == a.unwrap().1 + b.unwrap().1), "C03.frame.stream_data_blocked.ok_consumes_exactly_the_fields");
        assert!(
            !d.ok || matches!(d.frame, Some(Frame::StreamCtl(StreamCtlFrame::StreamDataBlocked(f))) if u64::from(f.stream_id()) == a.unwrap().0 && f.maximum_stream_data() == b.unwrap().0),
            "C03.frame.stream_data_blocked.ok_value"
        );

        let d = run(FrameType::ResetStream, input);
        assert!(!d.failure && !d.error && d.ok == three && d.incomplete == !three, "C03.frame.reset_stream.ok_iff_three_complete_varints");
        assert!(!d.ok || (d.suffix && d.consumed == a.unwrap().1 + b.unwrap().1 + c.unwrap().1), "C03.frame.reset_stream.ok_consumes_exactly_the_fields");
        assert!(
            !d.ok || matches!(d.frame, Some(Frame::StreamCtl(StreamCtlFrame::ResetStream(f)))
                if u64::from(f.stream_id()) == a.unwrap().0 && f.app_error_code() == b.unwrap().0 && f.final_size() == c.unwrap().0),
            "C03.frame.reset_stream.ok_value"
        );
        kani::cover!(three && n == 25, "C03.frame.stream_ctl.reach_three_8_byte_fields_and_a_trailing_byte");
        kani::cover!(two && !three, "C03.frame.stream_ctl.reach_third_field_truncated");
    }

    /// PADDING / PING / HANDSHAKE_DONE (no body), PATH_CHALLENGE / PATH_RESPONSE (8 bytes)
    #[kani::proof]
    #[kani::unwind(12)]
    #[kani::stub(crate::varint::be_varint, be_varint_spec)]
    fn bodyless_and_path_frames_decode_total() {
        let (buf, n) = any_input!(9);
        let input = &buf[..n];
        let d = run(FrameType::Padding, input);
        assert!(d.ok && d.suffix && d.consumed == 0 && matches!(d.frame, Some(Frame::Padding(_))), "C03.frame.padding.has_no_body");
        let d = run(FrameType::Ping, input);
        assert!(d.ok && d.suffix && d.consumed == 0 && matches!(d.frame, Some(Frame::Ping(_))), "C03.frame.ping.has_no_body");
        let d = run(FrameType::HandshakeDone, input);
        assert!(d.ok && d.suffix && d.consumed == 0 && matches!(d.frame, Some(Frame::HandshakeDone(_))), "C03.frame.handshake_done.has_no_body");

        let d = run(FrameType::PathChallenge, input);
        assert!(!d.failure && d.ok == (n >= 8) && (d.ok || d.incomplete || d.error), "C03.frame.path_challenge.ok_iff_8_bytes");
        assert!(!d.ok || (d.suffix && d.consumed == 8), "C03.frame.path_challenge.ok_consumes_8");
        assert!(!d.ok || matches!(d.frame, Some(Frame::PathChallenge(f)) if f[..] == input[..8]), "C03.frame.path_challenge.ok_value");
        let d = run(FrameType::PathResponse, input);
        assert!(!d.failure && d.ok == (n >= 8) && (d.ok || d.incomplete || d.error), "C03.frame.path_response.ok_iff_8_bytes");
        assert!(!d.ok || (d.suffix && d.consumed == 8), "C03.frame.path_response.ok_consumes_8");
        assert!(!d.ok || matches!(d.frame, Some(Frame::PathResponse(f)) if f[..] == input[..8]), "C03.frame.path_response.ok_value");
        kani::cover!(n == 7, "C03.frame.path.reach_7_bytes");
        kani::cover!(n == 9, "C03.frame.path.reach_9_bytes");
    }

    /// NEW_CONNECTION_ID: RFC 9000 §19.15 - Retire Prior To > Sequence Number, a connection id length of 0 or above 20
    /// MUST be refused (FRAME_ENCODING_ERROR)
    #[kani::proof]
    #[kani::unwind(23)]
    #[kani::stub(crate::varint::be_varint, be_varint_spec)]
    fn new_connection_id_decode_total() {
        let (buf, n) = any_input!(54);
        let input = &buf[..n];
        let d = run(FrameType::NewConnectionId, input);
        assert!(!d.failure, "C03.frame.new_connection_id.never_failure");
        let seq = spec_varint(input);
        let rpt = match seq {
            Some((_, l)) => spec_varint(&input[l..]),
            None => None,
        };
        if let (Some((s, l1)), Some((r, l2))) = (seq, rpt) {
            if r > s {
                assert!(d.error, "C03.frame.new_connection_id.retire_prior_to_above_sequence_is_refused");
            } else if l1 + l2 < n {
                let cl = input[l1 + l2] as usize;
                if cl == 0 || cl > 20 {
                    assert!(d.error, "C03.frame.new_connection_id.cid_length_0_or_above_20_is_refused");
                } else if n >= l1 + l2 + 1 + cl + 16 {
                    assert!(d.ok && d.suffix && d.consumed == l1 + l2 + 1 + cl + 16, "C03.frame.new_connection_id.ok_consumes_exactly_the_fields");
                    assert!(
                        matches!(&d.frame, Some(Frame::NewConnectionId(f)) if f.sequence() == s && f.retire_prior_to() == r
                            && f.connection_id()[..] == input[l1 + l2 + 1..l1 + l2 + 1 + cl]
                            && f.reset_token()[..] == input[l1 + l2 + 1 + cl..l1 + l2 + 1 + cl + 16]),
                        "C03.frame.new_connection_id.ok_value"
                    );
                } else {
                    assert!(d.incomplete || d.error, "C03.frame.new_connection_id.truncated_is_refused");
                }
                kani::cover!(cl == 21, "C03.frame.new_connection_id.reach_cid_len_21");
                kani::cover!(d.ok && cl == 20, "C03.frame.new_connection_id.reach_ok_cid_len_20");
            }
        } else {
            assert!(d.incomplete, "C03.frame.new_connection_id.truncated_header_is_incomplete");
        }
    }

    /// ACK (0x02/0x03), at most 2 additional ranges that fit in 40 input bytes: totality only; RFC 9000 §19.3.1
    /// ("if any computed packet number is negative ... FRAME_ENCODING_ERROR") is the finding harness below.
    #[kani::proof]
    #[kani::unwind(5)]
    #[kani::stub(crate::varint::be_varint, be_varint_spec)]
    fn ack_decode_total() {
        let (buf, n) = any_input!(24);
        let input = &buf[..n];
        // bound of the unit: ACK Range Count <= 2 (the count field drives a loop that allocates per range)
        let largest = spec_varint(input);
        if let Some((_, l1)) = largest {
            if let Some((_, l2)) = spec_varint(&input[l1..]) {
                if let Some((count, _)) = spec_varint(&input[l1 + l2..]) {
                    kani::assume(count <= 2);
                }
            }
        }
        let d = run(FrameType::Ack(Ecn::None), input);
        assert!(!d.failure && !d.error, "C03.frame.ack.never_failure");
        assert!(!d.ok || (d.suffix && d.consumed >= 4 && d.consumed <= n), "C03.frame.ack.ok_consumes_at_least_four_fields");
        assert!(!d.ok || matches!(&d.frame, Some(Frame::Ack(f)) if f.ecn().is_none() && f.largest() == largest.unwrap().0), "C03.frame.ack.ok_value");
        let e = run(FrameType::Ack(Ecn::Exist), input);
        assert!(!e.failure && !e.error, "C03.frame.ack_ecn.never_failure");
        assert!(!e.ok || (d.ok && e.suffix && e.consumed >= d.consumed + 3 && e.consumed <= n), "C03.frame.ack_ecn.ok_consumes_three_more_fields");
        kani::cover!(matches!(&d.frame, Some(Frame::Ack(f)) if f.ranges().len() == 2), "C03.frame.ack.reach_two_ranges");
        kani::cover!(e.ok && n == 24, "C03.frame.ack_ecn.reach_ok");
        kani::cover!(d.ok && !e.ok, "C03.frame.ack_ecn.reach_truncated_ecn_counts");
    }

    /// confined to the recorded finding: the ACK decoder accepts First ACK Range > Largest Acknowledged (and, for
    /// further ranges, Gap/Range values that take the smallest packet number below 0); RFC 9000 §19.3.1 makes that
    /// a FRAME_ENCODING_ERROR. `AckFrame::iter` then computes `largest - first_range` unchecked (unit c04_ack_iter).
    #[kani::proof]
    #[kani::unwind(5)]
    #[kani::stub(crate::varint::be_varint, be_varint_spec)]
    fn ack_negative_packet_number() {
        let (buf, n) = any_input!(5);
        let input = &buf[..n];
        kani::assume(n >= 4 && buf[0] < 0x40 && buf[1] < 0x40 && buf[2] == 0 && buf[3] < 0x40); // four 1-byte fields, no extra range
        let d = run(FrameType::Ack(Ecn::None), input);
        kani::cover!(d.ok && buf[3] > buf[0], "C03.frame.ack.finding_negative_pn.reach_accepted");
        assert!(!d.ok || buf[3] <= buf[0], "C03.frame.ack.finding_negative_pn.first_range_above_largest_is_refused");
    }

    /// ADD_ADDRESS / PUNCH_ME_NOW (v4 shown; v6 differs by the 16-byte address), PUNCH_HELLO / PUNCH_DONE: totality
    #[kani::proof]
    #[kani::unwind(20)]
    #[kani::stub(crate::varint::be_varint, be_varint_spec)]
    fn traversal_frames_decode_total() {
        let (buf, n) = any_input!(32);
        let input = &buf[..n];
        let d = run(FrameType::AddAddress(Family::V4), input);
        assert!(!d.failure, "C03.frame.add_address.never_failure");
        assert!(!d.ok || (d.suffix && d.consumed >= 1 + 6 + 1 + 1 && d.consumed <= n), "C03.frame.add_address.ok_consumes_its_fields");
        assert!(!d.ok || matches!(d.frame, Some(Frame::AddAddress(_))), "C03.frame.add_address.ok_variant");
        let d = run(FrameType::PunchMeNow(Family::V4), input);
        assert!(!d.failure, "C03.frame.punch_me_now.never_failure");
        assert!(!d.ok || (d.suffix && d.consumed >= 2 + 6 + 1 + 1 && d.consumed <= n), "C03.frame.punch_me_now.ok_consumes_its_fields");
        assert!(!d.ok || matches!(d.frame, Some(Frame::PunchMeNow(_))), "C03.frame.punch_me_now.ok_variant");
        let d = run(FrameType::PunchHello, input);
        assert!(!d.failure && !d.error, "C03.frame.punch_hello.never_failure");
        assert!(!d.ok || (d.suffix && d.consumed >= 3 && d.consumed <= n && matches!(d.frame, Some(Frame::PunchHello(_)))), "C03.frame.punch_hello.ok_consumes_its_fields");
        let d = run(FrameType::PunchDone, input);
        assert!(!d.failure && !d.error, "C03.frame.punch_done.never_failure");
        assert!(!d.ok || (d.suffix && d.consumed >= 3 && d.consumed <= n && matches!(d.frame, Some(Frame::PunchDone(_)))), "C03.frame.punch_done.ok_consumes_its_fields");
        kani::cover!(d.ok && n == 32, "C03.frame.traversal.reach_ok");
    }

    #[kani::proof]
    #[kani::unwind(20)]
    #[kani::stub(crate::varint::be_varint, be_varint_spec)]
    fn traversal_frames_v6_decode_total() {
        let (buf, n) = any_input!(44);
        let input = &buf[..n];
        let d = run(FrameType::AddAddress(Family::V6), input);
        assert!(!d.failure, "C03.frame.add_address_v6.never_failure");
        assert!(!d.ok || (d.suffix && d.consumed >= 1 + 18 + 1 + 1 && d.consumed <= n), "C03.frame.add_address_v6.ok_consumes_its_fields");
        let e = run(FrameType::PunchMeNow(Family::V6), input);
        assert!(!e.failure, "C03.frame.punch_me_now_v6.never_failure");
        assert!(!e.ok || (e.suffix && e.consumed >= 2 + 18 + 1 + 1 && e.consumed <= n), "C03.frame.punch_me_now_v6.ok_consumes_its_fields");
        kani::cover!(d.ok && e.ok, "C03.frame.traversal_v6.reach_ok");
    }

    /// confined to the recorded finding: `NatType::try_from(VarInt)` casts the varint to u8 before matching, so a
    /// NAT Type field of e.g. 256 (bytes 41 00) is accepted as NatType::Blocked instead of being refused.
    #[kani::proof]
    #[kani::unwind(20)]
    #[kani::stub(crate::varint::be_varint, be_varint_spec)]
    fn add_address_nat_type_range() {
        let tail: [u8; 8] = kani::any();
        // seq = 0, port 0, 0.0.0.0, tire = 0, then the NAT type varint
        let buf: [u8; 16] = [0, 0, 0, 0, 0, 0, 0, 0, tail[0], tail[1], tail[2], tail[3], tail[4], tail[5], tail[6], tail[7]];
        let input = &buf[..];
        let nat = spec_varint(&input[8..]);
        let d = run(FrameType::AddAddress(Family::V4), input);
        kani::cover!(d.ok && matches!(nat, Some((256, _))), "C03.frame.add_address.finding_nat_type_truncated.reach_256_accepted");
        assert!(!d.ok || matches!(nat, Some((v, _)) if v <= 5), "C03.frame.add_address.finding_nat_type_truncated.undefined_nat_type_is_refused");
    }

    /// CRYPTO: header + data slicing in complete_frame
    #[kani::proof]
    #[kani::unwind(23)]
    #[kani::stub(crate::varint::be_varint, be_varint_spec)]
    fn crypto_decode_total() {
        let (buf, n) = any_input!(20);
        let input = &buf[..n];
        let d = run(FrameType::Crypto, input);
        assert!(!d.failure, "C03.frame.crypto.never_failure");
        let off = spec_varint(input);
        let len = match off {
            Some((_, l)) => spec_varint(&input[l..]),
            None => None,
        };
        match (off, len) {
            (Some((o, l1)), Some((l, l2))) => {
                if d.ok {
                    // RFC 9000 §19.6: offset + length cannot exceed 2^62-1
                    assert!(o + l <= crate::varint::VARINT_MAX, "C03.frame.crypto.ok_implies_end_within_2pow62");
                    assert!(d.suffix && d.consumed as u64 == (l1 + l2) as u64 + l, "C03.frame.crypto.ok_consumes_header_and_data");
                    assert!(
                        matches!(&d.frame, Some(Frame::Crypto(f, data)) if f.offset() == o && f.len() == l && same_bytes(&data[..], &input[l1 + l2..l1 + l2 + l as usize])),
                        "C03.frame.crypto.ok_value_and_data"
                    );
                } else {
                    // a length field beyond the end of the input is refused, never sliced
                    assert!(l > (n - l1 - l2) as u64 || o >= (1u64 << 61), "C03.frame.crypto.refused_only_if_data_missing_or_offset_huge");
                }
                kani::cover!(d.ok && l == 4, "C03.frame.crypto.reach_ok_with_data");
                kani::cover!(!d.ok && l == (1u64 << 62) - 1, "C03.frame.crypto.reach_length_field_2pow62");
            }
            _ => assert!(d.incomplete, "C03.frame.crypto.truncated_header_is_incomplete"),
        }
    }

    /// STREAM with every flag combination that changes the body layout (FIN does not): 0x08, 0x0a, 0x0c, 0x0e
    #[kani::proof]
    #[kani::unwind(31)]
    #[kani::stub(crate::varint::be_varint, be_varint_spec)]
    fn stream_decode_total() {
        let (buf, n) = any_input!(28);
        let input = &buf[..n];
        let fin = if kani::any() { Fin::Yes } else { Fin::No };
        let sid = spec_varint(input);

        // 0x08/0x09: id only, data to the end
        let d = run(FrameType::Stream(Offset::Zero, Len::Omit, fin), input);
        assert!(!d.failure && !d.error && d.ok == sid.is_some() && d.incomplete == sid.is_none(), "C03.frame.stream_08.ok_iff_id_complete");
        assert!(
            !d.ok || (d.suffix && d.consumed == n && matches!(&d.frame, Some(Frame::Stream(f, data))
                if u64::from(f.stream_id()) == sid.unwrap().0 && f.offset() == 0 && f.len() == n - sid.unwrap().1 && f.is_fin() == (fin == Fin::Yes)
                    && same_bytes(&data[..], &input[sid.unwrap().1..]))),
            "C03.frame.stream_08.ok_takes_the_rest_of_the_packet"
        );

        // 0x0c/0x0d: id, offset, data to the end
        let d = run(FrameType::Stream(Offset::NonZero, Len::Omit, fin), input);
        assert!(!d.failure, "C03.frame.stream_0c.never_failure");
        if let Some((_, l1)) = sid {
            if let Some((o, l2)) = spec_varint(&input[l1..]) {
                let l = (n - l1 - l2) as u64;
                assert!(d.ok == (o + l <= crate::varint::VARINT_MAX), "C03.frame.stream_0c.ok_iff_end_within_2pow62");
                assert!(
                    !d.ok || (d.suffix && d.consumed == n && matches!(&d.frame, Some(Frame::Stream(f, data)) if f.offset() == o && f.len() as u64 == l && data.len() as u64 == l)),
                    "C03.frame.stream_0c.ok_takes_the_rest_of_the_packet"
                );
                kani::cover!(!d.ok && d.error, "C03.frame.stream_0c.reach_offset_too_large");
            } else {
                assert!(d.incomplete, "C03.frame.stream_0c.truncated_header_is_incomplete");
            }
        }

        // 0x0a/0x0b: id, length, data
        let d = run(FrameType::Stream(Offset::Zero, Len::Explicit, fin), input);
        assert!(!d.failure, "C03.frame.stream_0a.never_failure");
        if let Some((_, l1)) = sid {
            if let Some((l, l2)) = spec_varint(&input[l1..]) {
                assert!(d.ok == (l <= (n - l1 - l2) as u64), "C03.frame.stream_0a.ok_iff_data_present");
                assert!(
                    !d.ok || (d.suffix && d.consumed as u64 == (l1 + l2) as u64 + l && matches!(&d.frame, Some(Frame::Stream(f, data))
                        if f.offset() == 0 && f.len() as u64 == l && same_bytes(&data[..], &input[l1 + l2..l1 + l2 + l as usize]))),
                    "C03.frame.stream_0a.ok_consumes_header_and_data"
                );
                kani::cover!(d.ok && l == 3, "C03.frame.stream_0a.reach_ok_with_data");
                kani::cover!(!d.ok && l == (1u64 << 62) - 1, "C03.frame.stream_0a.reach_length_field_2pow62");
            }
        }

        // 0x0e/0x0f: id, offset, length, data
        let d = run(FrameType::Stream(Offset::NonZero, Len::Explicit, fin), input);
        assert!(!d.failure, "C03.frame.stream_0e.never_failure");
        if let Some((_, l1)) = sid {
            if let Some((o, l2)) = spec_varint(&input[l1..]) {
                if let Some((l, l3)) = spec_varint(&input[l1 + l2..]) {
                    let hdr = l1 + l2 + l3;
                    // RFC 9000 §19.8: offset + length beyond 2^62-1 => FRAME_ENCODING_ERROR (or FLOW_CONTROL_ERROR)
                    assert!(d.ok == (o + l <= crate::varint::VARINT_MAX && l <= (n - hdr) as u64), "C03.frame.stream_0e.ok_iff_end_within_2pow62_and_data_present");
                    assert!(
                        !d.ok || (d.suffix && d.consumed as u64 == hdr as u64 + l && matches!(&d.frame, Some(Frame::Stream(f, data))
                            if f.offset() == o && f.len() as u64 == l && same_bytes(&data[..], &input[hdr..hdr + l as usize]))),
                        "C03.frame.stream_0e.ok_consumes_header_and_data"
                    );
                    kani::cover!(d.error && o + l > crate::varint::VARINT_MAX, "C03.frame.stream_0e.reach_end_beyond_2pow62");
                    kani::cover!(d.ok && l == 2 && o == (1u64 << 62) - 3, "C03.frame.stream_0e.reach_end_exactly_2pow62_minus_1");
                }
            }
        }
    }

    /// DATAGRAM 0x30 / 0x31
    #[kani::proof]
    #[kani::unwind(15)]
    #[kani::stub(crate::varint::be_varint, be_varint_spec)]
    fn datagram_decode_total() {
        let (buf, n) = any_input!(12);
        let input = &buf[..n];
        let d = run(FrameType::Datagram(0), input);
        assert!(
            // (the remainder returned for 0x30 is a fresh empty slice, not a tail of the input: only its length counts)
            d.ok && d.consumed == n && matches!(&d.frame, Some(Frame::Datagram(f, data)) if !f.encode_len() && f.len().into_u64() == n as u64 && same_bytes(&data[..], &input[..])),
            "C03.frame.datagram_30.takes_the_rest_of_the_packet"
        );
        let d = run(FrameType::Datagram(1), input);
        assert!(!d.failure && !d.error, "C03.frame.datagram_31.never_failure");
        match spec_varint(input) {
            Some((l, l1)) => {
                assert!(d.ok == (l <= (n - l1) as u64), "C03.frame.datagram_31.ok_iff_data_present");
                assert!(
                    !d.ok || (d.suffix && d.consumed as u64 == l1 as u64 + l && matches!(&d.frame, Some(Frame::Datagram(f, data))
                        if f.encode_len() && f.len().into_u64() == l && same_bytes(&data[..], &input[l1..l1 + l as usize]))),
                    "C03.frame.datagram_31.ok_consumes_length_and_data"
                );
                kani::cover!(d.ok && l == 4, "C03.frame.datagram_31.reach_ok_with_data");
                kani::cover!(!d.ok && l == (1u64 << 62) - 1, "C03.frame.datagram_31.reach_length_field_2pow62");
            }
            None => assert!(d.incomplete, "C03.frame.datagram_31.truncated_length_is_incomplete"),
        }
    }

    /// NEW_TOKEN: a length field beyond the input is refused
    #[kani::proof]
    #[kani::unwind(15)]
    #[kani::stub(crate::varint::be_varint, be_varint_spec)]
    fn new_token_decode_total() {
        let (buf, n) = any_input!(12);
        let input = &buf[..n];
        let d = run(FrameType::NewToken, input);
        assert!(!d.failure, "C03.frame.new_token.never_failure");
        match spec_varint(input) {
            Some((l, l1)) => {
                assert!(d.ok == (l <= (n - l1) as u64), "C03.frame.new_token.ok_iff_token_present");
                assert!(
                    !d.ok || (d.suffix && d.consumed as u64 == l1 as u64 + l && matches!(&d.frame, Some(Frame::NewToken(f)) if same_bytes(f.token(), &input[l1..l1 + l as usize]))),
                    "C03.frame.new_token.ok_consumes_length_and_token"
                );
                kani::cover!(d.ok && l == 4, "C03.frame.new_token.reach_ok");
                kani::cover!(!d.ok && l == (1u64 << 62) - 1, "C03.frame.new_token.reach_length_field_2pow62");
            }
            None => assert!(d.incomplete, "C03.frame.new_token.truncated_length_is_incomplete"),
        }
    }

    /// confined to the recorded finding: RFC 9000 §19.7 "A client MUST treat receipt of a NEW_TOKEN frame with an
    /// empty Token field as a connection error of type FRAME_ENCODING_ERROR" - the decoder accepts it and
    /// `ArcTokenRegistry::recv_frame` hands the empty token to the sink.
    #[kani::proof]
    #[kani::unwind(6)]
    #[kani::stub(crate::varint::be_varint, be_varint_spec)]
    fn new_token_empty() {
        let buf: [u8; 2] = [0x00, kani::any()];
        let d = run(FrameType::NewToken, &buf[..]);
        kani::cover!(d.ok, "C03.frame.new_token.finding_empty_token.reach_accepted");
        assert!(!d.ok, "C03.frame.new_token.finding_empty_token.is_refused");
    }

    /// CONNECTION_CLOSE 0x1d (application) and 0x1c (transport), reason <= 4 bytes
    #[kani::proof]
    #[kani::unwind(10)]
    #[kani::stub(alloc::fmt::format, fmt_stub)]
    #[kani::stub(crate::varint::be_varint, be_varint_spec)]
    #[kani::stub(alloc::string::String::from_utf8_lossy, lossy_stub)]
    fn close_decode_total() {
        let (buf, n) = any_input!(8);
        let input = &buf[..n];
        // bound of the unit: Reason Phrase Length <= 4 when it is present (utf8-lossy conversion loops per byte)
        let a = spec_varint(input);
        let d = run(FrameType::ConnectionClose(Layer::App), input);
        assert!(!d.failure, "C03.frame.app_close.never_failure");
        if let Some((code, l1)) = a {
            if let Some((rl, l2)) = spec_varint(&input[l1..]) {
                assert!(d.ok == (rl <= (n - l1 - l2) as u64), "C03.frame.app_close.ok_iff_reason_present");
                assert!(
                    !d.ok || (d.suffix && d.consumed as u64 == (l1 + l2) as u64 + rl
                        && matches!(&d.frame, Some(Frame::Close(ConnectionCloseFrame::App(f))) if f.error_code() == code)),
                    "C03.frame.app_close.ok_consumes_header_and_reason"
                );
                kani::cover!(d.ok && rl == 4, "C03.frame.app_close.reach_ok_4_byte_reason");
                kani::cover!(!d.ok && rl == (1u64 << 30) - 1, "C03.frame.app_close.reach_length_field_2pow30");
            }
        } else {
            assert!(d.incomplete, "C03.frame.app_close.truncated_header_is_incomplete");
        }
        let q = run(FrameType::ConnectionClose(Layer::Quic), input);
        assert!(!q.failure, "C03.frame.quic_close.never_failure");
        assert!(!q.ok || (q.suffix && q.consumed >= 3 && q.consumed <= n && matches!(&q.frame, Some(Frame::Close(ConnectionCloseFrame::Quic(_))))), "C03.frame.quic_close.ok_consumes_its_fields");
        kani::cover!(q.ok && n == 8, "C03.frame.quic_close.reach_ok");
        kani::cover!(q.error, "C03.frame.quic_close.reach_refused");
    }

    // ------------------------------------------------------------------------------------------------------
    // (D) be_frame = composition of the parts, on inputs whose first byte and length are literals
    // ------------------------------------------------------------------------------------------------------
    static mut GLUE_BUF: [u8; 12] = [0; 12];

    /// fill the static packet buffer: `first` then arbitrary bytes
    fn glue_packet(first: u8) -> &'static [u8; 12] {
        let tail: [u8; 11] = kani::any();
        unsafe {
            GLUE_BUF[0] = first;
            let mut i = 0;
            while i < 11 {
                GLUE_BUF[i + 1] = tail[i];
                i += 1;
            }
            &*core::ptr::addr_of!(GLUE_BUF)
        }
    }

    fn four_packet_types() -> (Type, u8) {
        let k: u8 = kani::any();
        kani::assume(k < 4);
        let t = match k {
            0 => Type::Long(V1(Ver1::INITIAL)),
            1 => Type::Long(V1(Ver1::HANDSHAKE)),
            2 => Type::Long(V1(Ver1::ZERO_RTT)),
            _ => Type::Short(OneRtt(kani::any::<u8>().into())),
        };
        (t, k)
    }

    struct Glue {
        /// be_frame returned exactly what type-parse ; admission ; body-parse ; error mapping prescribe
        as_composed: bool,
        ok: bool,
        consumed: usize,
        wrong_type: bool,
        incomplete_frame: bool,
        parse_error: bool,
        invalid_type: bool,
        incomplete_type: bool,
    }

    fn glue(input: &'static [u8], pt: Type) -> Glue {
        let raw = Bytes::from_static(input);
        let got = be_frame(&raw, pt);
        let mut g = Glue {
            as_composed: false,
            ok: false,
            consumed: 0,
            wrong_type: false,
            incomplete_frame: false,
            parse_error: false,
            invalid_type: false,
            incomplete_type: false,
        };
        match &got {
            Ok((c, _, _)) => {
                g.ok = true;
                g.consumed = *c;
            }
            Err(Error::WrongType(..)) => g.wrong_type = true,
            Err(Error::IncompleteFrame(..)) => g.incomplete_frame = true,
            Err(Error::ParseError(..)) => g.parse_error = true,
            Err(Error::InvalidType(_)) => g.invalid_type = true,
            Err(Error::IncompleteType(_)) => g.incomplete_type = true,
            Err(Error::NoFrames) => {}
        }
        g.as_composed = match be_frame_type(input) {
            Err(nom::Err::Error(Error::InvalidType(v))) => matches!(&got, Err(Error::InvalidType(w)) if *w == v),
            Err(_) => g.incomplete_type,
            Ok((rest, ft)) => {
                if !ft.belongs_to(pt) {
                    matches!(&got, Err(Error::WrongType(t, p)) if *t == ft && *p == pt)
                } else {
                    match complete_frame(ft, raw.clone())(rest) {
                        Ok((rest2, frame)) => {
                            matches!(&got, Ok((c, f, t)) if *c == input.len() - rest2.len() && *f == frame && *t == ft)
                        }
                        Err(nom::Err::Incomplete(_)) => matches!(&got, Err(Error::IncompleteFrame(t, _)) if *t == ft),
                        Err(nom::Err::Error(_)) => matches!(&got, Err(Error::ParseError(t, _)) if *t == ft),
                        Err(nom::Err::Failure(_)) => false,
                    }
                }
            }
        };
        g
    }

    #[kani::proof]
    #[kani::unwind(13)]
    #[kani::stub(alloc::fmt::format, fmt_stub)]
    #[kani::stub(core::fmt::write, write_stub)]
    #[kani::stub(crate::varint::be_varint, be_varint_spec)]
    fn glue_padding_3_bytes() {
        let (pt, _k) = four_packet_types();
        let g = glue(&glue_packet(0x00)[..3], pt);
        assert!(g.as_composed, "C03.frame.be_frame.padding.equals_composition");
        assert!(g.ok && g.consumed == 1, "C03.frame.be_frame.padding.consumes_one_byte_in_every_packet_type");
    }

    #[kani::proof]
    #[kani::unwind(13)]
    #[kani::stub(alloc::fmt::format, fmt_stub)]
    #[kani::stub(core::fmt::write, write_stub)]
    #[kani::stub(crate::varint::be_varint, be_varint_spec)]
    fn glue_max_data_9_bytes() {
        let (pt, k) = four_packet_types();
        let g = glue(&glue_packet(0x10)[..9], pt);
        assert!(g.as_composed, "C03.frame.be_frame.max_data.equals_composition");
        assert!(g.ok == (k >= 2) && g.wrong_type == (k < 2), "C03.frame.be_frame.max_data.initial_and_handshake_refuse_it");
        assert!(!g.ok || (g.consumed >= 2 && g.consumed <= 9), "C03.frame.be_frame.max_data.ok_consumed_within_input");
        kani::cover!(g.ok && g.consumed == 9, "C03.frame.be_frame.max_data.reach_9");
    }

    #[kani::proof]
    #[kani::unwind(13)]
    #[kani::stub(alloc::fmt::format, fmt_stub)]
    #[kani::stub(core::fmt::write, write_stub)]
    #[kani::stub(crate::varint::be_varint, be_varint_spec)]
    fn glue_max_data_3_bytes() {
        let g = glue(&glue_packet(0x10)[..3], Type::Short(OneRtt(0.into())));
        assert!(g.as_composed, "C03.frame.be_frame.max_data_short.equals_composition");
        assert!(g.ok || g.incomplete_frame, "C03.frame.be_frame.max_data_short.truncated_body_is_incomplete_frame");
        assert!(!g.ok || (g.consumed == 2 || g.consumed == 3), "C03.frame.be_frame.max_data_short.ok_consumed_within_input");
        kani::cover!(g.incomplete_frame, "C03.frame.be_frame.max_data_short.reach_incomplete_frame");
    }

    #[kani::proof]
    #[kani::unwind(13)]
    #[kani::stub(alloc::fmt::format, fmt_stub)]
    #[kani::stub(core::fmt::write, write_stub)]
    #[kani::stub(crate::varint::be_varint, be_varint_spec)]
    fn glue_max_streams_9_bytes() {
        let g = glue(&glue_packet(0x12)[..9], Type::Long(V1(Ver1::ZERO_RTT)));
        assert!(g.as_composed, "C03.frame.be_frame.max_streams.equals_composition");
        assert!(g.ok || g.parse_error, "C03.frame.be_frame.max_streams.too_large_is_parse_error");
        kani::cover!(g.parse_error, "C03.frame.be_frame.max_streams.reach_parse_error");
    }

    #[kani::proof]
    #[kani::unwind(13)]
    #[kani::stub(alloc::fmt::format, fmt_stub)]
    #[kani::stub(core::fmt::write, write_stub)]
    #[kani::stub(crate::varint::be_varint, be_varint_spec)]
    fn glue_stream_0a_6_bytes() {
        let (pt, k) = four_packet_types();
        let g = glue(&glue_packet(0x0a)[..6], pt);
        assert!(g.as_composed, "C03.frame.be_frame.stream.equals_composition");
        assert!(g.wrong_type == (k < 2), "C03.frame.be_frame.stream.initial_and_handshake_refuse_it");
        assert!(!g.ok || (g.consumed >= 3 && g.consumed <= 6), "C03.frame.be_frame.stream.ok_consumed_within_input");
        kani::cover!(g.ok && g.consumed == 6, "C03.frame.be_frame.stream.reach_all_consumed");
        kani::cover!(g.incomplete_frame, "C03.frame.be_frame.stream.reach_length_beyond_input");
    }

    #[kani::proof]
    #[kani::unwind(13)]
    #[kani::stub(alloc::fmt::format, fmt_stub)]
    #[kani::stub(core::fmt::write, write_stub)]
    #[kani::stub(crate::varint::be_varint, be_varint_spec)]
    fn glue_unknown_type() {
        let (pt, _k) = four_packet_types();
        let g = glue(&glue_packet(0x1f)[..4], pt);
        assert!(g.as_composed, "C03.frame.be_frame.unknown.equals_composition");
        assert!(g.invalid_type, "C03.frame.be_frame.unknown.is_invalid_type_in_every_packet_type");
    }

    #[kani::proof]
    #[kani::unwind(13)]
    #[kani::stub(alloc::fmt::format, fmt_stub)]
    #[kani::stub(core::fmt::write, write_stub)]
    #[kani::stub(crate::varint::be_varint, be_varint_spec)]
    fn glue_truncated_type() {
        let (pt, _k) = four_packet_types();
        let g = glue(&glue_packet(0x80)[..3], pt);
        assert!(g.as_composed, "C03.frame.be_frame.truncated_type.equals_composition");
        assert!(g.incomplete_type, "C03.frame.be_frame.truncated_type.is_incomplete_type");
    }

    // ------------------------------------------------------------------------------------------------------
    // (E) FrameReader::next
    // ------------------------------------------------------------------------------------------------------
    #[kani::proof]
    #[kani::unwind(13)]
    #[kani::stub(alloc::fmt::format, fmt_stub)]
    #[kani::stub(core::fmt::write, write_stub)]
    #[kani::stub(crate::varint::be_varint, be_varint_spec)]
    fn frame_reader_step() {
        let input: &'static [u8] = &glue_packet(0x10)[..9];
        let mut reader = FrameReader::new(Bytes::from_static(input), Type::Short(OneRtt(0.into())));
        match reader.next() {
            Some(Ok((Frame::MaxData(_), FrameType::MaxData))) => {
                let left = reader.len();
                assert!(left < 9, "C03.frame.reader.some_ok_strictly_shrinks_the_payload");
                assert!(reader.as_ptr() == input[9 - left..].as_ptr(), "C03.frame.reader.some_ok_leaves_the_suffix_after_the_frame");
                kani::cover!(left == 0, "C03.frame.reader.reach_payload_exhausted");
                kani::cover!(left == 7, "C03.frame.reader.reach_more_frames_follow");
            }
            _ => assert!(false, "C03.frame.reader.max_data_in_1rtt_is_read"),
        }
    }

    #[kani::proof]
    #[kani::unwind(13)]
    #[kani::stub(alloc::fmt::format, fmt_stub)]
    #[kani::stub(core::fmt::write, write_stub)]
    #[kani::stub(crate::varint::be_varint, be_varint_spec)]
    fn frame_reader_error_and_end() {
        let input: &'static [u8] = &glue_packet(0x10)[..1];
        let mut reader = FrameReader::new(Bytes::from_static(input), Type::Short(OneRtt(0.into())));
        assert!(matches!(reader.next(), Some(Err(Error::IncompleteFrame(FrameType::MaxData, _)))), "C03.frame.reader.truncated_frame_is_reported");
        assert!(reader.len() == 1, "C03.frame.reader.error_leaves_the_payload_for_the_caller_to_abandon");
        let mut empty = FrameReader::new(Bytes::new(), Type::Short(OneRtt(0.into())));
        assert!(empty.next().is_none(), "C03.frame.reader.none_iff_payload_empty");
    }
}
