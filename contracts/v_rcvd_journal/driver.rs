// ---- spliced by /verif (contracts/v_rcvd_journal): paired native search for a failing input -----------
// Used ONLY after a proof obligation of the Verus unit has failed, to look for a concrete input on the real
// code; it never contributes a pass. Exhaustive small scope: every sequence of <= 3 operations out of
// on_rcvd_pn(pn) for a few pn, decode_pn(encoding) for a few 1/2/3-byte encodings, and the receive path
// decode_pn -> on_rcvd_pn, checked against a set model (window start stays 0: nothing here rotates the queue).
#[cfg(test)]
mod verif_drv_rcvd_journal {
    use std::collections::BTreeSet;

    use super::*;

    #[derive(Clone, Copy, Debug)]
    enum Op {
        Rcvd(u64),
        Decode(PacketNumber),
        Path(PacketNumber),
    }

    /// RFC 9000 A.3, written from the RFC's pseudocode with wide signed arithmetic
    fn rfc_decode(p: PacketNumber, largest_plus_one: u64) -> u64 {
        let (truncated, bits) = match p {
            PacketNumber::U8(x) => (x as i128, 8),
            PacketNumber::U16(x) => (x as i128, 16),
            PacketNumber::U24(x) => (x as i128, 24),
            PacketNumber::U32(x) => (x as i128, 32),
        };
        let expected = largest_plus_one as i128;
        let win = 1i128 << bits;
        let hwin = win / 2;
        let mask = win - 1;
        let candidate = (expected & !mask) | truncated;
        let r = if candidate <= expected - hwin && candidate < (1i128 << 62) - win {
            candidate + win
        } else if candidate > expected + hwin && candidate >= win {
            candidate - win
        } else {
            candidate
        };
        r as u64
    }

    fn run(ops: &[Op]) -> Result<(), String> {
        let mut j = RcvdJournal::default();
        let mut model: BTreeSet<u64> = BTreeSet::new();
        let mut next = 0u64;
        let pto = Duration::from_millis(10);
        for (step, op) in ops.iter().enumerate() {
            match *op {
                Op::Rcvd(pn) => {
                    j.on_rcvd_pn(pn, pn % 2 == 0, pto);
                    model.insert(pn);
                    next = next.max(pn + 1);
                }
                Op::Decode(p) | Op::Path(p) => {
                    let want = rfc_decode(p, next);
                    let r = j.decode_pn(p);
                    let expect = if model.contains(&want) { Err(InvalidPacketNumber::Duplicate) } else { Ok(want) };
                    if r != expect {
                        return Err(format!("step {step}: decode_pn({p:?}) with next expected {next} = {r:?}, expected {expect:?}"));
                    }
                    if let (Op::Path(_), Ok(pn)) = (*op, r) {
                        j.on_rcvd_pn(pn, true, pto);
                        model.insert(pn);
                        next = next.max(pn + 1);
                        if j.decode_pn(p) == Ok(pn) {
                            return Err(format!("step {step}: {p:?} accepted twice as packet number {pn}"));
                        }
                    }
                }
            }
            if j.queue.offset() != 0 || j.queue.largest() != next {
                return Err(format!("step {step}: window [{}, {}) expected [0, {next})", j.queue.offset(), j.queue.largest()));
            }
            for q in 0..next.min(1 << 17) {
                let rec = j.queue.get(q).map(|s| *s != State::Empty).unwrap_or(false);
                if rec != model.contains(&q) {
                    return Err(format!("step {step}: record at {q} says received={rec}, expected {}", model.contains(&q)));
                }
            }
        }
        Ok(())
    }

    #[test]
    fn search() {
        let mut alphabet = vec![];
        for pn in [0u64, 1, 2, 3, 5, 300] {
            alphabet.push(Op::Rcvd(pn));
        }
        for x in [0u8, 1, 2, 3, 44, 130, 255] {
            alphabet.push(Op::Decode(PacketNumber::U8(x)));
            alphabet.push(Op::Path(PacketNumber::U8(x)));
        }
        for x in [0u16, 2, 300, 0x8000, 0xffff] {
            alphabet.push(Op::Decode(PacketNumber::U16(x)));
            alphabet.push(Op::Path(PacketNumber::U16(x)));
        }
        alphabet.push(Op::Decode(PacketNumber::U24(0x01_0000)));
        alphabet.push(Op::Path(PacketNumber::U24(0x01_0001)));
        alphabet.push(Op::Decode(PacketNumber::U32(7)));
        let n = alphabet.len();
        let mut count = 0u64;
        for depth in 1..=3usize {
            let mut idx = vec![0usize; depth];
            loop {
                let ops: Vec<Op> = idx.iter().map(|i| alphabet[*i]).collect();
                count += 1;
                if let Err(e) = std::panic::catch_unwind(|| run(&ops)).unwrap_or_else(|_| Err("panicked".into())) {
                    println!("VERIF-WITNESS property=C10 ops={:?}: {}", ops, e);
                    std::process::exit(1);
                }
                let mut k = depth;
                loop {
                    if k == 0 {
                        break;
                    }
                    k -= 1;
                    idx[k] += 1;
                    if idx[k] < n {
                        break;
                    }
                    idx[k] = 0;
                    if k == 0 {
                        k = usize::MAX;
                        break;
                    }
                }
                if k == usize::MAX {
                    break;
                }
            }
        }
        println!("VERIF-SEARCH-DONE property=C10 sequences={count} no failing input within the bound");
    }
}
