// ---- spliced by /verif (contracts/c03_frame_errors): C03 - a frame decoding error becomes the prescribed connection error
//
// RFC 9000 §12.4:
//   * a frame of unknown type                                   -> FRAME_ENCODING_ERROR
//   * a frame in a packet type that does not permit it          -> PROTOCOL_VIOLATION
//   * a packet containing no frames                             -> PROTOCOL_VIOLATION
// RFC 9000 §19 (every frame): a malformed / truncated frame     -> FRAME_ENCODING_ERROR
//
// `From<frame::Error> for QuicError` is the single place where `FrameReader`'s errors become connection errors
// (qconnection/src/space.rs::read_plain_packet: `frame_result.map_err(QuicError::from)?`).
#[cfg(kani)]
mod verif_c03_frame_errors {
    use super::*;
    //@include ../c05_frames_fixed/prelude.rs

    fn any_packet_type() -> Type {
        use crate::packet::r#type::{
            long::{Type::V1, Ver1},
            short::OneRtt,
        };
        match kani::any::<u8>() % 4 {
            0 => Type::Long(V1(Ver1::INITIAL)),
            1 => Type::Long(V1(Ver1::HANDSHAKE)),
            2 => Type::Long(V1(Ver1::ZERO_RTT)),
            _ => Type::Short(OneRtt(kani::any::<u8>().into())),
        }
    }

    /// every `frame::Error` value up to the message texts (which no obligation looks at)
    fn any_frame_error(k: u8) -> Error {
        match k {
            0 => Error::NoFrames,
            1 => Error::IncompleteType(String::new()),
            2 => Error::InvalidType(vi()),
            3 => Error::IncompleteFrame(any_frame_type(), String::new()),
            4 => Error::ParseError(any_frame_type(), String::new()),
            _ => Error::WrongType(any_frame_type(), any_packet_type()),
        }
    }

    /// the conversion is total and maps every malformed-input error to the RFC's code and names the offending frame
    #[kani::proof]
    #[kani::unwind(4)]
    #[kani::stub(core::fmt::write, write_stub)]
    #[kani::stub(alloc::fmt::format, fmt_stub)]
    fn frame_error_to_quic_error() {
        let k: u8 = kani::any();
        // known finding (frame_error_wrong_type below): Error::WrongType is mapped to FRAME_ENCODING_ERROR
        kani::assume(k < 5);
        let e = any_frame_error(k);
        let named = match &e {
            Error::IncompleteFrame(t, _) | Error::ParseError(t, _) => Some(*t),
            _ => None,
        };
        let q: QuicError = e.into();
        match k {
            0 => assert!(q.kind() == QuicErrorKind::ProtocolViolation, "C03.frame.error.no_frames_is_protocol_violation"),
            1 => assert!(q.kind() == QuicErrorKind::FrameEncoding, "C03.frame.error.truncated_type_is_frame_encoding_error"),
            2 => assert!(q.kind() == QuicErrorKind::FrameEncoding, "C03.frame.error.unknown_type_is_frame_encoding_error"),
            3 => assert!(q.kind() == QuicErrorKind::FrameEncoding, "C03.frame.error.truncated_frame_is_frame_encoding_error"),
            _ => assert!(q.kind() == QuicErrorKind::FrameEncoding, "C03.frame.error.malformed_frame_is_frame_encoding_error"),
        }
        if let Some(t) = named {
            assert!(q.frame_type() == crate::error::ErrorFrameType::V1(t), "C03.frame.error.names_the_offending_frame_type");
        }
        kani::cover!(k == 4 && matches!(named, Some(FrameType::MaxStreams(_))), "C03.frame.error.reach_max_streams_parse_error");
    }

    /// confined to the recorded finding: RFC 9000 §12.4 "An endpoint MUST treat receipt of a frame in a packet type
    /// that is not permitted as a connection error of type PROTOCOL_VIOLATION"; the conversion yields
    /// FRAME_ENCODING_ERROR (and the unit test `test_error_conversion_to_transport_error` pins that).
    #[kani::proof]
    #[kani::unwind(4)]
    #[kani::stub(core::fmt::write, write_stub)]
    #[kani::stub(alloc::fmt::format, fmt_stub)]
    fn frame_error_wrong_type() {
        let e = any_frame_error(5);
        let q: QuicError = e.into();
        assert!(q.kind() == QuicErrorKind::ProtocolViolation, "C03.frame.error.finding_wrong_type.forbidden_frame_is_protocol_violation");
    }

    /// `From<nom::Err<frame::Error>> for frame::Error` (the `?` in be_frame): Error/Failure carry their payload through.
    /// Its `Incomplete => unreachable!` arm is only safe because be_frame_type never returns `Incomplete`
    /// (c03_frame_decode::frame_type_decode_total) and be_frame's map_err closure builds `nom::Err::Error` only.
    #[kani::proof]
    #[kani::unwind(4)]
    #[kani::stub(core::fmt::write, write_stub)]
    #[kani::stub(alloc::fmt::format, fmt_stub)]
    fn nom_err_to_frame_error() {
        let k: u8 = kani::any();
        kani::assume(k < 6);
        let inner = any_frame_error(k);
        let copy = inner.clone();
        let wrapped = if kani::any() { nom::Err::Error(inner) } else { nom::Err::Failure(inner) };
        let out: Error = wrapped.into();
        assert!(out == copy, "C03.frame.error.nom_error_and_failure_unwrap_to_the_frame_error");
    }

    /// `ParseError::append` keeps the source error (what a nom combinator would call); `from_error_kind` is an
    /// unconditional `unreachable!` - listed under "unverified": no caller exists in the crate.
    #[kani::proof]
    #[kani::unwind(4)]
    #[kani::stub(core::fmt::write, write_stub)]
    #[kani::stub(alloc::fmt::format, fmt_stub)]
    fn parse_error_append_keeps_source() {
        use nom::error::ParseError;
        let k: u8 = kani::any();
        kani::assume(k < 6);
        let src = any_frame_error(k);
        let copy = src.clone();
        let out = Error::append(&[], NomErrorKind::ManyTill, src);
        assert!(out == copy, "C03.frame.error.append_returns_the_source_error");
    }
}
