// ---- spliced by /verif (contracts/c13_loss) : loss selection on the real PacketSpace, tiny concrete shapes ----
// Property C13: "A packet is declared lost only when a later packet has been acknowledged and it is either at
// least three packets older or older than the time threshold, an acknowledged packet is never declared lost".
// RFC 9002 §6.1 / A.10 DetectAndRemoveLostPackets.  `detect_lost_packets` is an iterator pipeline over a
// VecDeque: only fixed small shapes are within Kani's reach (bounded).
#[cfg(kani)]
mod verif_c13_loss {
    use std::sync::{Arc, atomic::AtomicU16};

    use super::*;
    use crate::algorithm::new_reno::NewReno;

    //@include ../_shared/kani_stubs.rs

    /// the first clock reading of the call under contract (detect_lost_packets reads the clock once, at entry; the
    /// congestion controller reads it again when it opens a recovery period)
    static mut FIRST_NOW: Option<Instant> = None;

    fn recorded_now() -> Instant {
        let t = any_instant();
        unsafe {
            let cur = FIRST_NOW; // by value (Option<Instant> is Copy)
            if cur.is_none() {
                FIRST_NOW = Some(t);
            }
        }
        t
    }

    fn any_state() -> State {
        match kani::any::<u8>() % 3 {
            0 => State::Inflight,
            1 => State::Acked,
            _ => State::Retransmitted,
        }
    }

    fn any_packet(pn: u64) -> SentPacket {
        let p = SentPacket {
            packet_number: pn,
            time_sent: any_instant(),
            ack_eliciting: kani::any(),
            sent_bytes: kani::any(),
            state: any_state(),
            count_for_cc: kani::any(),
        };
        kani::assume(p.sent_bytes <= 1200);
        p
    }

    /// a small duration (loss delay / max_ack_delay: below 2^20 ms)
    fn any_small_duration() -> Duration {
        let ms: u64 = kani::any();
        kani::assume(ms < (1 << 20));
        Duration::from_millis(ms)
    }

    /// an arbitrary space holding exactly N records with increasing packet numbers; returns the ghost copies
    fn any_space<const N: usize>(mad: Duration) -> (PacketSpace, [u64; N], [State; N], [Option<Instant>; N]) {
        let mut sp = PacketSpace::with_epoch(Epoch::Data, mad);
        let mut pns = [0u64; N];
        let mut states: [State; N] = core::array::from_fn(|_| State::Inflight);
        let mut times = [None; N];
        let mut i = 0;
        let mut prev: Option<u64> = None;
        while i < N {
            let pn: u64 = kani::any();
            kani::assume(pn < (1 << 62));
            // type invariant of sent_packets: strictly increasing packet numbers (on_packet_sent pushes at the back)
            kani::assume(match prev { Some(q) => pn > q, None => true });
            prev = Some(pn);
            let p = any_packet(pn);
            pns[i] = pn;
            states[i] = p.state.clone();
            times[i] = Some(p.time_sent);
            sp.sent_packets.push_back(p);
            i += 1;
        }
        sp.largest_acked_packet = if kani::any() { Some(kani::any()) } else { None };
        (sp, pns, states, times)
    }

    /// record-level contract of detect_lost_packets on a space holding exactly 2 records
    #[kani::proof]
    #[kani::unwind(4)]
    #[kani::stub(qevent::telemetry::macro_support::build_and_emit_event, noop_emit)]
    #[kani::stub(tokio::time::Instant::now, recorded_now)]
    fn detect_lost_records() {
        const N: usize = 2;
        let mad = any_small_duration();
        let (mut sp, pns, states, times) = any_space::<N>(mad);
        let largest = sp.largest_acked_packet;
        let loss_delay = any_small_duration();
        let mut algo: Box<dyn Control> = Box::new(NewReno::new(Arc::new(AtomicU16::new(1200))));
        let lost = sp.detect_lost_packets(loss_delay, 3, &mut algo);
        let mut is_lost = [false; N];
        let mut count = 0;
        for pn in lost {
            let mut j = 0;
            while j < N {
                if pns[j] == pn {
                    is_lost[j] = true;
                }
                j += 1;
            }
            count += 1;
        }
        let now = unsafe { FIRST_NOW }.unwrap();
        let mut j = 0;
        let mut nlost = 0;
        while j < N {
            let st = sp.sent_packets[j].state.clone();
            if states[j] != State::Inflight {
                // "an acknowledged packet is never declared lost" (nor one that was declared lost before)
                assert!(!is_lost[j], "C13.loss.detect.acknowledged_or_already_lost_record_is_never_declared_lost");
                assert!(st == states[j], "C13.loss.detect.state_of_non_outstanding_record_unchanged");
            }
            if is_lost[j] {
                nlost += 1;
                assert!(st == State::Retransmitted, "C13.loss.detect.declared_lost_record_is_marked");
                // time threshold (as implemented: loss_delay + max_ack_delay before now) or >= 3 records older
                let mut newer_not_above_largest = 0;
                let mut k = j + 1;
                while k < N {
                    if match largest { Some(l) => pns[k] <= l, None => false } {
                        newer_not_above_largest += 1;
                    }
                    k += 1;
                }
                assert!(
                    times[j].unwrap() < now - loss_delay - mad || newer_not_above_largest >= 3,
                    "C13.loss.detect.lost_only_by_time_threshold_or_three_packets_older"
                );
            } else if states[j] == State::Inflight {
                assert!(st == State::Inflight, "C13.loss.detect.surviving_record_stays_outstanding");
            }
            j += 1;
        }
        assert!(count == nlost, "C13.loss.detect.sup.reported_numbers_are_distinct_records");
        kani::cover!(nlost == N, "C13.loss.detect.reach_all_lost");
        kani::cover!(nlost == 0 && states[0] == State::Inflight, "C13.loss.detect.reach_none_lost");
        core::mem::forget(sp);
        core::mem::forget(algo);
    }

    /// CANDIDATE FINDING (expect_fail). RFC 9002 sect. 6.1 / A.10 skip every packet whose number is above the largest
    /// acknowledged one ("sent prior to an acknowledged packet"); the property says "declared lost only when a later
    /// packet has been acknowledged". detect_lost_packets applies the time threshold to *every* outstanding record,
    /// and on_packet_sent arms `loss_time` without any acknowledgement, so on_loss_detection_timeout declares packets
    /// lost although nothing (or nothing later) was ever acknowledged. One record is enough to show it.
    #[kani::proof]
    #[kani::unwind(4)]
    #[kani::stub(qevent::telemetry::macro_support::build_and_emit_event, noop_emit)]
    #[kani::stub(tokio::time::Instant::now, recorded_now)]
    fn detect_lost_without_later_ack() {
        let mad = any_small_duration();
        let (mut sp, pns, states, _times) = any_space::<1>(mad);
        let largest = sp.largest_acked_packet;
        // confinement of the finding: no acknowledgement at all, or only of packets older than the record
        kani::assume(match largest { Some(l) => pns[0] > l, None => true });
        kani::assume(states[0] == State::Inflight);
        let loss_delay = any_small_duration();
        let mut algo: Box<dyn Control> = Box::new(NewReno::new(Arc::new(AtomicU16::new(1200))));
        let mut lost = sp.detect_lost_packets(loss_delay, 3, &mut algo);
        let declared = lost.next().is_some();
        assert!(!declared, "C13.loss.detect.lost_only_if_a_later_packet_was_acknowledged");
        core::mem::forget(sp);
        core::mem::forget(algo);
    }
}
