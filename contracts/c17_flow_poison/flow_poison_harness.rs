// ---- spliced by /verif (contracts/c17_flow_poison) : error / poison paths of the flow controller ----------
//
// C17: "after ... a connection error occurs, every ... later ... operation completes promptly with THAT error
// ..., and no further application data is accepted or emitted"; "its terminating error is fixed once".
// Only the error paths of `ArcSendControler` / `FlowController` are under contract here (the normal paths
// belong to unit c11_flow of another author).  Everything runs under the controller's one Mutex.
#[cfg(kani)]
mod verif_c17_flow_poison {
    use core::cell::Cell;

    use super::*;
    use crate::error::AppError;

    /// frame sink for the generic `TX`: counts frames
    #[derive(Debug, Default, Clone)]
    struct Sink {
        n: Arc<Cell<u32>>,
    }
    impl SendFrame<DataBlockedFrame> for Sink {
        fn send_frame<I: IntoIterator<Item = DataBlockedFrame>>(&self, iter: I) {
            let mut it = iter.into_iter();
            if it.next().is_some() {
                self.n.set(self.n.get() + 1);
            }
        }
    }
    impl SendFrame<MaxDataFrame> for Sink {
        fn send_frame<I: IntoIterator<Item = MaxDataFrame>>(&self, iter: I) {
            let mut it = iter.into_iter();
            if it.next().is_some() {
                self.n.set(self.n.get() + 1);
            }
        }
    }

    /// stub for `ArcSendWakers::wake_all_by` (BTreeMap walk; same stub as unit c11_flow).  On the error paths
    /// it is never reached; the stub only keeps the never-taken branch cheap.
    fn noop_wake(_w: &ArcSendWakers, _s: Signals) {}

    fn app_error(code: u32) -> Error {
        Error::App(AppError::new(VarInt::from_u32(code), ""))
    }

    const VMAX: u64 = crate::varint::VARINT_MAX;

    /// an arbitrary sender: live (any counters within the type invariant sent <= max <= 2^62-1) or already
    /// poisoned with an arbitrary error
    fn any_sender(sink: &Sink, poisoned_with: Option<u32>) -> ArcSendControler<Sink> {
        match poisoned_with {
            Some(code) => ArcSendControler(Arc::new(Mutex::new(Err(app_error(code))))),
            None => {
                let sent: u64 = kani::any();
                let max: u64 = kani::any();
                kani::assume(sent <= max && max <= VMAX); // type invariant (see c11_flow)
                ArcSendControler(Arc::new(Mutex::new(Ok(SendControler {
                    sent_data: sent,
                    max_data: max,
                    flow_limited: kani::any(),
                    broker: sink.clone(),
                    tx_wakers: ArcSendWakers::default(),
                }))))
            }
        }
    }

    /// the error the controller is poisoned with (None = live)
    fn poison_of(c: &ArcSendControler<Sink>) -> Option<u64> {
        match &*c.0.lock().unwrap() {
            Ok(_) => None,
            Err(Error::App(a)) => Some(a.error_code()),
            Err(Error::Quic(_)) => Some(u64::MAX),
        }
    }

    /// contract of `on_error(e)` on a LIVE controller: it becomes poisoned with e.
    #[kani::proof]
    #[kani::unwind(2)]
    #[kani::stub(crate::net::tx::ArcSendWakers::wake_all_by, noop_wake)]
    fn on_error_poisons_live_controller() {
        let sink = Sink::default();
        let c = any_sender(&sink, None);
        let e: u32 = kani::any();
        c.on_error(&app_error(e));
        assert!(poison_of(&c) == Some(e as u64), "C17.flow.on_error.poisons_with_the_error");
        assert!(sink.n.get() == 0, "C17.flow.on_error.emits_nothing");
        core::mem::forget(c);
    }

    /// contract of every operation on a POISONED controller (error e0): `on_error(e)` keeps e0 (first error
    /// wins); `credit(q)` fails with e0 for every q; MAX_DATA / window updates are ignored; nothing is emitted.
    #[kani::proof]
    #[kani::unwind(2)]
    #[kani::stub(crate::net::tx::ArcSendWakers::wake_all_by, noop_wake)]
    fn poisoned_controller_contract() {
        let sink = Sink::default();
        let e0: u32 = kani::any();
        let c = any_sender(&sink, Some(e0));
        match kani::any::<u8>() % 5 {
            0 => {
                let e: u32 = kani::any();
                c.on_error(&app_error(e));
                kani::cover!(e != e0, "C17.flow.poisoned.reach_second_error_differs");
            }
            1 => {
                let q: usize = kani::any();
                match c.credit(q) {
                    Ok(_) => assert!(false, "C17.flow.poisoned.credit_fails"),
                    Err(Error::App(a)) => assert!(a.error_code() == e0 as u64, "C17.flow.poisoned.credit_fails_with_first_error"),
                    Err(_) => assert!(false, "C17.flow.poisoned.credit_fails_with_first_error"),
                }
            }
            2 => {
                let v: u32 = kani::any();
                let r = c.recv_frame(MaxDataFrame::new(VarInt::from_u32(v)));
                assert!(r.is_ok(), "C17.flow.poisoned.sup.max_data_frame_is_swallowed");
            }
            3 => c.revise_max_data(kani::any(), kani::any()),
            _ => c.increase_limit(kani::any()),
        }
        assert!(poison_of(&c) == Some(e0 as u64), "C17.flow.poisoned.first_error_stays");
        assert!(sink.n.get() == 0, "C17.flow.poisoned.emits_nothing");
        core::mem::forget(c);
    }

    /// `FlowController::on_conn_error` + `send_limit`: the connection-level entry points -- after an error
    /// every later `send_limit` fails with that error, a second error does not replace the first.
    #[kani::proof]
    #[kani::unwind(2)]
    #[kani::stub(crate::net::tx::ArcSendWakers::wake_all_by, noop_wake)]
    fn flow_controller_on_conn_error() {
        let sink = Sink::default();
        let (e0, e): (u32, u32) = (kani::any(), kani::any());
        if kani::any() {
            // first error on a live connection
            let fc = FlowController { sender: any_sender(&sink, None), recver: ArcRecvController::new(0, sink.clone()) };
            fc.on_conn_error(&app_error(e));
            assert!(poison_of(&fc.sender) == Some(e as u64), "C17.flow.conn_error.poisons_sender_with_the_error");
            core::mem::forget(fc);
        } else {
            // a later error, then a later send attempt
            let fc = FlowController { sender: any_sender(&sink, Some(e0)), recver: ArcRecvController::new(0, sink.clone()) };
            fc.on_conn_error(&app_error(e));
            assert!(poison_of(&fc.sender) == Some(e0 as u64), "C17.flow.conn_error.first_error_wins");
            match fc.send_limit(kani::any()) {
                Err(Error::App(a)) => assert!(a.error_code() == e0 as u64, "C17.flow.conn_error.send_limit_fails_with_first_error"),
                _ => assert!(false, "C17.flow.conn_error.send_limit_fails_with_first_error"),
            }
            kani::cover!(e0 != e, "C17.flow.conn_error.reach_two_different_errors");
            core::mem::forget(fc);
        }
        assert!(sink.n.get() == 0, "C17.flow.conn_error.emits_nothing");
    }

    /// a `Credit` taken BEFORE the error and dropped AFTER it neither panics nor revives the controller nor
    /// emits a frame.
    #[kani::proof]
    #[kani::unwind(2)]
    #[kani::stub(crate::net::tx::ArcSendWakers::wake_all_by, noop_wake)]
    fn credit_dropped_after_error() {
        let sink = Sink::default();
        let c = any_sender(&sink, None);
        let e1: u32 = kani::any();
        {
            let mut credit = c.credit(kani::any()).unwrap();
            let used: usize = kani::any();
            kani::assume(used <= credit.available());
            credit.post_sent(used);
            let frames_before = sink.n.get();
            c.on_error(&app_error(e1));
            drop(credit); // returns the unused part to a controller that no longer exists
            assert!(sink.n.get() == frames_before, "C17.flow.late_credit.emits_nothing");
        }
        assert!(poison_of(&c) == Some(e1 as u64), "C17.flow.late_credit.controller_stays_poisoned");
        core::mem::forget(c);
    }
}
