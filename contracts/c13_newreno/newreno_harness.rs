// ---- spliced by /verif (contracts/c13_newreno) : contracts on the real NewReno controller ---------
// Property C13 (congestion half): "The congestion window never falls below two datagrams, shrinks at
// most once per round trip on loss or ECN marks, grows only on acknowledgements outside recovery".
// RFC 9002 §7.2 (minimum window 2*max_datagram_size), §7.3.2/B.6 (recovery), B.5 (acks), B.7 (ECN),
// B.8 (loss, persistent congestion).
#[cfg(kani)]
mod verif_c13_newreno {
    use super::*;

    //@include ../_shared/kani_stubs.rs

    /// the value the stubbed clock returned last (lets a contract say "recovery starts *now*")
    static mut LAST_NOW: Option<Instant> = None;

    fn recorded_now() -> Instant {
        let t = any_instant();
        unsafe { LAST_NOW = Some(t) };
        t
    }

    fn last_now() -> Option<Instant> {
        unsafe { LAST_NOW }
    }

    /// plain copy of the controller state (everything except the shared mtu cell)
    #[derive(Clone, Copy)]
    struct Snap {
        ce: [u64; 3],
        bif: usize,
        cwnd: usize,
        rec: Option<Instant>,
        ssthresh: usize,
    }

    /// element-wise (a derived `==` on `[u64; 3]` is a memcmp loop that an unwind bound would have to cover)
    fn ce_eq(a: &[u64; 3], b: &[u64; 3]) -> bool {
        a[0] == b[0] && a[1] == b[1] && a[2] == b[2]
    }

    impl PartialEq for Snap {
        fn eq(&self, o: &Snap) -> bool {
            ce_eq(&self.ce, &o.ce) && self.bif == o.bif && self.cwnd == o.cwnd && self.rec == o.rec && self.ssthresh == o.ssthresh
        }
    }

    fn snap(r: &NewReno) -> Snap {
        Snap {
            ce: r.ecn_ce_counters,
            bif: r.bytes_in_flight,
            cwnd: r.congestion_window,
            rec: r.congestion_recovery_start_time,
            ssthresh: r.ssthresh,
        }
    }

    /// RFC 9002 B.5 InCongestionRecovery(sent_time)
    fn spec_in_recovery(rec: Option<Instant>, sent: Instant) -> bool {
        match rec {
            Some(t) => sent <= t,
            None => false,
        }
    }

    fn any_opt_instant() -> Option<Instant> {
        if kani::any() { Some(any_instant()) } else { None }
    }

    /// an arbitrary controller in a state satisfying the type invariant INV: cwnd >= 2 * max_datagram_size
    /// (kMinimumWindow, RFC 9002 §7.2). max_datagram_size: any value QUIC allows (>= 1200) a u16 holds.
    fn any_reno() -> (NewReno, usize) {
        let mtu: u16 = kani::any();
        kani::assume(mtu >= 1200); // RFC 9000 §14: a QUIC path carries at least 1200-byte datagrams (Path::new: MSS)
        let r = NewReno {
            max_datagram_size: Arc::new(AtomicU16::new(mtu)),
            ecn_ce_counters: kani::any(),
            bytes_in_flight: kani::any(),
            congestion_window: kani::any(),
            congestion_recovery_start_time: any_opt_instant(),
            ssthresh: kani::any(),
        };
        kani::assume(r.congestion_window >= 2 * mtu as usize); // INV (established by `new`, preserved by every method below)
        (r, mtu as usize)
    }

    /// domain bound of the quotient harness (window sizes up to 4 GiB)
    const AVOID_CWND_BOUND: usize = 1 << 62;

    fn any_state() -> State {
        match kani::any::<u8>() % 3 {
            0 => State::Inflight,
            1 => State::Acked,
            _ => State::Retransmitted,
        }
    }

    fn any_packet() -> SentPacket {
        let p = SentPacket {
            packet_number: kani::any(),
            time_sent: any_instant(),
            ack_eliciting: kani::any(),
            sent_bytes: kani::any(),
            state: any_state(),
            count_for_cc: kani::any(),
        };
        // a packet is assembled in a buffer of at most pmtu (u16) bytes (Burst::burst: segment[..mtu])
        kani::assume(p.sent_bytes <= u16::MAX as usize);
        p
    }

    // ------------------------------------------------------------------------------------ new
    /// B.3: the initial window is min(10*mds, max(2*mds, 14600)) >= 2*mds, nothing in flight, not in recovery.
    #[kani::proof]
    fn new_contract() {
        let mtu: u16 = kani::any();
        // precondition (call site): Path::new creates the cell with MSS (1200) and nothing ever stores to it;
        // `mtu * 10` is computed in u16 and overflows above 6553 -- outside the contract, recorded as assumption
        kani::assume(mtu >= 1200 && mtu <= 6553);
        let r = NewReno::new(Arc::new(AtomicU16::new(mtu)));
        let mds = mtu as usize;
        assert!(r.congestion_window >= 2 * mds, "C13.newreno.new.cwnd_at_least_two_datagrams");
        assert!(
            r.congestion_window == (10 * mds).min((2 * mds).max(14600)),
            "C13.newreno.new.initial_window_rfc9002_7_2"
        );
        assert!(r.bytes_in_flight == 0, "C13.newreno.new.nothing_in_flight");
        assert!(r.congestion_recovery_start_time.is_none(), "C13.newreno.new.not_in_recovery");
        assert!(r.ssthresh == usize::MAX, "C13.newreno.new.ssthresh_infinite");
        assert!(ce_eq(&r.ecn_ce_counters, &[0, 0, 0]), "C13.newreno.new.ce_counters_zero");
        assert!(r.max_datagram_size() == mds, "C13.newreno.new.sup.mds_is_cell_value");
        kani::cover!(mtu == 1200, "C13.newreno.new.reach_mss");
        kani::cover!(r.congestion_window == 14600, "C13.newreno.new.reach_14600");
    }

    // ------------------------------------------------------------------------- on_packet_acked
    /// B.5 OnPacketAcked, window half: never shrinks, grows only for an in-flight packet sent after the
    /// start of the current recovery period, by exactly the slow-start / congestion-avoidance amount.
    #[kani::proof]
    #[kani::stub(qevent::telemetry::macro_support::build_and_emit_event, noop_emit)]
    fn on_packet_acked_contract() {
        let (mut r, mds) = any_reno();
        let p = any_packet();
        // no wrap of the window: cwnd grows by at most the acknowledged bytes, which are bounded by what was
        // ever sent (< 2^62 bytes per connection: QUIC offsets/varints); assumption, recorded in unit.json
        kani::assume(r.congestion_window <= 1usize << 62);
        let old = snap(&r);
        let in_rec = spec_in_recovery(old.rec, p.time_sent);
        r.on_packet_acked(&p);
        let new = snap(&r);

        assert!(new.cwnd >= old.cwnd, "C13.newreno.acked.never_shrinks");
        assert!(
            new.cwnd == old.cwnd || (p.count_for_cc && !in_rec),
            "C13.newreno.acked.grows_only_outside_recovery_for_in_flight_packet"
        );
        if p.count_for_cc && !in_rec {
            if old.cwnd < old.ssthresh {
                assert!(new.cwnd == old.cwnd + p.sent_bytes, "C13.newreno.acked.slow_start_adds_acked_bytes");
            } else {
                // the exact increment max_datagram_size * acked_bytes / cwnd: see `avoidance_increment_contract`
            }
        }
        assert!(new.cwnd >= 2 * mds, "C13.newreno.acked.cwnd_at_least_two_datagrams");
        assert!(
            new.ssthresh == old.ssthresh && new.rec == old.rec && ce_eq(&new.ce, &old.ce),
            "C13.newreno.acked.frame_ssthresh_recovery_ecn_unchanged"
        );
        kani::cover!(new.cwnd > old.cwnd && old.cwnd < old.ssthresh, "C13.newreno.acked.reach_slow_start");
        kani::cover!(new.cwnd > old.cwnd && old.cwnd >= old.ssthresh, "C13.newreno.acked.reach_avoidance");
        kani::cover!(p.count_for_cc && in_rec, "C13.newreno.acked.reach_in_recovery");
        kani::cover!(!p.count_for_cc, "C13.newreno.acked.reach_not_in_flight");
    }

    /// congestion avoidance (B.5): the increment is exactly max_datagram_size * acked_bytes / cwnd, hence at
    /// most one datagram per acknowledged window. (Separate harness: a 64-bit symbolic quotient is expensive.)
    #[kani::proof]
    #[kani::stub(qevent::telemetry::macro_support::build_and_emit_event, noop_emit)]
    fn avoidance_increment_contract() {
        let (mut r, mds) = any_reno();
        let p = any_packet();
        kani::assume(r.congestion_window <= AVOID_CWND_BOUND);
        kani::assume(r.congestion_window >= r.ssthresh); // congestion avoidance
        kani::assume(p.count_for_cc && !spec_in_recovery(r.congestion_recovery_start_time, p.time_sent));
        let old = snap(&r);
        r.on_packet_acked(&p);
        let inc = r.congestion_window - old.cwnd;
        let prod = mds * p.sent_bytes;
        // inc == floor(prod / cwnd), stated without a second divider
        assert!(inc * old.cwnd <= prod && prod - inc * old.cwnd < old.cwnd, "C13.newreno.acked.congestion_avoidance_increment");
        kani::cover!(inc > 0, "C13.newreno.acked.reach_avoidance_growth");
        kani::cover!(inc == 0 && p.sent_bytes > 0, "C13.newreno.acked.reach_avoidance_rounds_to_zero");
    }

    // --------------------------------------------------------------------- on_congestion_event
    /// B.6 OnCongestionEvent: no reaction inside a recovery period; otherwise one reduction that keeps
    /// the window at or above two datagrams and opens a recovery period starting *now*.
    #[kani::proof]
    #[kani::stub(qevent::telemetry::macro_support::build_and_emit_event, noop_emit)]
    #[kani::stub(tokio::time::Instant::now, recorded_now)]
    fn on_congestion_event_contract() {
        let (mut r, mds) = any_reno();
        let sent = any_instant();
        let old = snap(&r);
        let in_rec = spec_in_recovery(old.rec, sent);
        r.on_congestion_event(&sent);
        let new = snap(&r);

        if in_rec {
            assert!(new == old, "C13.newreno.event.no_reaction_in_recovery");
        } else {
            assert!(new.cwnd <= old.cwnd, "C13.newreno.event.does_not_grow");
            assert!(new.cwnd >= 2 * mds, "C13.newreno.event.cwnd_at_least_two_datagrams");
            // RFC 9002 B.6: congestion_window = max(ssthresh, kMinimumWindow)
            assert!(new.cwnd == new.ssthresh.max(2 * mds), "C13.newreno.event.cwnd_is_max_of_ssthresh_and_minimum");
            assert!(new.ssthresh < old.cwnd, "C13.newreno.event.ssthresh_below_old_window");
            assert!(
                new.rec.is_some() && new.rec == last_now(),
                "C13.newreno.event.recovery_starts_now"
            );
            // the reduction rule as implemented (cwnd - max_datagram_size; RFC 9002 §7.3.2 says cwnd / 2;
            // the property statement fixes no factor) -- support clause, pins the arithmetic incl. no underflow
            assert!(new.ssthresh == old.cwnd - mds, "C13.newreno.event.sup.ssthresh_is_cwnd_minus_one_datagram");
            assert!(new.bif == old.bif && ce_eq(&new.ce, &old.ce), "C13.newreno.event.frame_in_flight_ecn_unchanged");
        }
        kani::cover!(in_rec, "C13.newreno.event.reach_in_recovery");
        kani::cover!(!in_rec && old.rec.is_some(), "C13.newreno.event.reach_after_recovery");
        kani::cover!(!in_rec && new.cwnd == 2 * mds && old.cwnd > 2 * mds, "C13.newreno.event.reach_floor");
        kani::cover!(!in_rec && new.cwnd > 2 * mds, "C13.newreno.event.reach_above_floor");
    }

    /// "shrinks at most once per round trip": after a reduction, a second congestion signal for any packet
    /// sent up to the moment of the first reduction leaves the whole state unchanged.
    #[kani::proof]
    #[kani::stub(qevent::telemetry::macro_support::build_and_emit_event, noop_emit)]
    #[kani::stub(tokio::time::Instant::now, recorded_now)]
    fn once_per_round_trip_lemma() {
        let (mut r, mds) = any_reno();
        let sent1 = any_instant();
        kani::assume(!spec_in_recovery(r.congestion_recovery_start_time, sent1));
        r.on_congestion_event(&sent1);
        let t_reduce = last_now().unwrap();
        let mid = snap(&r);
        let sent2 = any_instant();
        kani::assume(sent2 <= t_reduce); // a packet that was already in flight when the window was reduced
        r.on_congestion_event(&sent2);
        assert!(snap(&r) == mid, "C13.newreno.once_per_rtt.second_signal_for_older_packet_is_ignored");
        // and an acknowledgement of such a packet does not grow the window either
        let mut p = any_packet();
        p.time_sent = sent2;
        kani::assume(r.congestion_window <= 1usize << 62);
        r.on_packet_acked(&p);
        assert!(r.congestion_window == mid.cwnd, "C13.newreno.once_per_rtt.no_growth_for_packet_sent_before_reduction");
        assert!(r.congestion_window >= 2 * mds, "C13.newreno.once_per_rtt.cwnd_at_least_two_datagrams");
        kani::cover!(sent2 == t_reduce, "C13.newreno.once_per_rtt.reach_boundary");
    }

    // ------------------------------------------------------------------------------ process_ecn
    fn any_varint() -> qbase::varint::VarInt {
        let x: u64 = kani::any();
        kani::assume(x < (1 << 62));
        qbase::varint::VarInt::from_u64(x).unwrap()
    }

    fn any_epoch() -> Epoch {
        match kani::any::<u8>() % 3 {
            0 => Epoch::Initial,
            1 => Epoch::Handshake,
            _ => Epoch::Data,
        }
    }

    /// B.7 ProcessECN: only a strictly larger CE count of the same space is a congestion signal; then it is
    /// exactly one OnCongestionEvent(sent_time).
    #[kani::proof]
    #[kani::stub(qevent::telemetry::macro_support::build_and_emit_event, noop_emit)]
    #[kani::stub(tokio::time::Instant::now, recorded_now)]
    fn process_ecn_contract() {
        let (mut r, mds) = any_reno();
        let sent = any_instant();
        let epoch = any_epoch();
        let ecn = if kani::any() {
            Some(qbase::frame::EcnCounts::new(any_varint(), any_varint(), any_varint()))
        } else {
            None
        };
        let ack = AckFrame::new(any_varint(), any_varint(), any_varint(), Vec::new(), ecn);
        let old = snap(&r);
        let in_rec = spec_in_recovery(old.rec, sent);
        r.process_ecn(&ack, &sent, epoch);
        let new = snap(&r);
        let e = epoch as usize;
        let increased = match ecn {
            Some(c) => c.ce() > old.ce[e],
            None => false,
        };
        if !increased {
            assert!(new == old, "C13.newreno.ecn.no_reaction_unless_ce_count_strictly_larger");
        } else {
            assert!(new.ce[e] == ecn.unwrap().ce(), "C13.newreno.ecn.counter_recorded");
            assert!(
                new.ce[(e + 1) % 3] == old.ce[(e + 1) % 3] && new.ce[(e + 2) % 3] == old.ce[(e + 2) % 3],
                "C13.newreno.ecn.other_spaces_untouched"
            );
            if in_rec {
                assert!(
                    new.cwnd == old.cwnd && new.ssthresh == old.ssthresh && new.rec == old.rec,
                    "C13.newreno.ecn.no_reduction_in_recovery"
                );
            } else {
                assert!(new.cwnd <= old.cwnd, "C13.newreno.ecn.does_not_grow");
                assert!(new.cwnd == new.ssthresh.max(2 * mds), "C13.newreno.ecn.cwnd_is_max_of_ssthresh_and_minimum");
                assert!(new.rec.is_some() && new.rec == last_now(), "C13.newreno.ecn.recovery_starts_now");
            }
            assert!(new.bif == old.bif, "C13.newreno.ecn.frame_in_flight_unchanged");
        }
        assert!(new.cwnd >= 2 * mds, "C13.newreno.ecn.cwnd_at_least_two_datagrams");
        kani::cover!(increased && !in_rec, "C13.newreno.ecn.reach_reduction");
        kani::cover!(increased && in_rec, "C13.newreno.ecn.reach_in_recovery");
        kani::cover!(ecn.is_some() && !increased, "C13.newreno.ecn.reach_not_larger");
        kani::cover!(ecn.is_none(), "C13.newreno.ecn.reach_no_ecn");
    }

    // ------------------------------------------------------------------------- on_packets_lost
    /// B.8 OnPacketsLost for up to three lost packets: one congestion event for the youngest in-flight loss;
    /// persistent congestion may cut the window once more (RFC 9002 §7.6.2 exemption) and ends recovery.
    #[kani::proof]
    #[kani::unwind(5)]
    #[kani::stub(qevent::telemetry::macro_support::build_and_emit_event, noop_emit)]
    #[kani::stub(tokio::time::Instant::now, recorded_now)]
    fn on_packets_lost_contract() {
        let (mut r, mds) = any_reno();
        let pkts = [any_packet(), any_packet(), any_packet()];
        let n: usize = kani::any();
        kani::assume(n <= 3);
        let persistent: bool = kani::any();
        let old = snap(&r);

        // youngest in-flight loss
        let mut last: Option<Instant> = None;
        let mut i = 0;
        while i < n {
            if pkts[i].count_for_cc {
                last = match last {
                    Some(t) if t >= pkts[i].time_sent => Some(t),
                    _ => Some(pkts[i].time_sent),
                };
            }
            i += 1;
        }
        let reacts = match last {
            Some(t) => !spec_in_recovery(old.rec, t),
            None => false,
        };

        r.on_packets_lost(&mut pkts[..n].iter(), persistent);
        let new = snap(&r);

        assert!(new.cwnd >= 2 * mds, "C13.newreno.lost.cwnd_at_least_two_datagrams");
        assert!(new.cwnd <= old.cwnd, "C13.newreno.lost.does_not_grow");
        assert!(ce_eq(&new.ce, &old.ce), "C13.newreno.lost.frame_ecn_unchanged");
        if !persistent {
            if !reacts {
                // nothing in flight was lost, or every lost packet was sent before the current recovery started
                assert!(
                    new.cwnd == old.cwnd && new.ssthresh == old.ssthresh && new.rec == old.rec,
                    "C13.newreno.lost.no_reduction_for_losses_sent_before_recovery_start"
                );
            } else {
                assert!(new.cwnd == new.ssthresh.max(2 * mds), "C13.newreno.lost.cwnd_is_max_of_ssthresh_and_minimum");
                assert!(new.ssthresh < old.cwnd, "C13.newreno.lost.ssthresh_below_old_window");
                assert!(new.rec.is_some() && new.rec == last_now(), "C13.newreno.lost.recovery_starts_now");
                assert!(new.ssthresh == old.cwnd - mds, "C13.newreno.lost.sup.one_reduction_as_implemented");
            }
        } else {
            // persistent congestion (RFC 9002 §7.6.2: window collapses, recovery period ends)
            assert!(new.rec.is_none(), "C13.newreno.lost.persistent_ends_recovery");
            assert!(new.cwnd == new.ssthresh.max(2 * mds), "C13.newreno.lost.persistent_cwnd_is_max_of_ssthresh_and_minimum");
            let mid = if reacts { (old.cwnd - mds).max(2 * mds) } else { old.cwnd };
            assert!(new.ssthresh == mid >> 1, "C13.newreno.lost.sup.persistent_halves_as_implemented");
        }
        kani::cover!(n == 3 && reacts && !persistent, "C13.newreno.lost.reach_three_one_reduction");
        kani::cover!(n == 3 && last.is_some() && !reacts, "C13.newreno.lost.reach_all_before_recovery");
        kani::cover!(n > 0 && last.is_none(), "C13.newreno.lost.reach_none_in_flight");
        kani::cover!(persistent && new.cwnd == 2 * mds, "C13.newreno.lost.reach_persistent_floor");
        kani::cover!(persistent && new.cwnd > 2 * mds, "C13.newreno.lost.reach_persistent_above_floor");
    }
}
