// ---- spliced by /verif (contracts/c03_packet_decode) : contracts on the real datagram -> packet reader --
// Reference: RFC 8999 §5 (invariants), RFC 9000 §17.2 (long header: first byte, Version(32), DCID Len(8),
// DCID(0..160), SCID Len(8), SCID(0..160), type-specific part, Length(i), payload), §17.2.1 (Version
// Negotiation), §17.2.5 (Retry: token + 128-bit integrity tag), §17.3.1 (1-RTT: first byte, DCID of the
// locally known length, payload = rest of the datagram), RFC 9001 §5.4.2 (a packet must leave 4 + 16 bytes
// after the start of the packet-number field for the header-protection sample).
//
// Structure (modular): `be_packet` = `be_packet_type` ; `be_header` ; `be_payload` + glue.
//   * type_total_contract            : be_packet_type, every first byte / version, every truncation
//   * header_<type>_contract (x6)    : be_header for one packet type each, every truncation
//   * payload_contract               : be_payload (Length varint + payload extent + sampling rule)
//   * be_packet_glue_contract        : the REAL be_packet with be_packet_type / be_header replaced by
//                                      stubs that return *any* result permitted by the clauses proved in
//                                      the harnesses above (be_payload and all BytesMut handling stay real)
//   * be_packet_cid_len_over_20*     : confined to the recorded finding
#[cfg(kani)]
mod verif_c03_packet {
    use super::*;
    use crate::packet::r#type::long::{Type as LongTy, Ver1};
    use crate::packet::r#type::short::OneRtt;

    /// error *message* text is not part of any contract; formatting it symbolically costs minutes
    fn noop_fmt_write(_o: &mut dyn core::fmt::Write, _a: core::fmt::Arguments<'_>) -> core::fmt::Result {
        Ok(())
    }

    // ------------------------------------------------------------------------------------------
    // be_packet_type
    // ------------------------------------------------------------------------------------------

    /// RFC 8999 §5.1 / RFC 9000 §17.2, §17.3.1: every byte string of length 0..=6.
    #[kani::proof]
    #[kani::unwind(6)]
    fn type_total_contract() {
        let b: [u8; 6] = kani::any();
        let n: usize = kani::any();
        kani::assume(n <= 6);
        let input = &b[..n];
        let long = b[0] & 0x80 != 0;
        let version = u32::from_be_bytes([b[1], b[2], b[3], b[4]]);
        match be_packet_type(input) {
            Ok((rest, ty)) => {
                if !long {
                    assert!(n >= 1 && rest.len() + 1 == n, "C03.packet.type.short_consumes_1");
                    let spin = if b[0] & 0x20 != 0 { SpinBit::One } else { SpinBit::Zero };
                    assert!(ty == Type::Short(OneRtt(spin)), "C03.packet.type.short_iff_form_bit_0_spin_is_bit5");
                } else {
                    assert!(n >= 5 && rest.len() + 5 == n, "C03.packet.type.long_consumes_5");
                    let want = match (version, (b[0] & 0x30) >> 4) {
                        (0, _) => LongTy::VersionNegotiation,
                        (_, 0) => LongTy::V1(Ver1::INITIAL),
                        (_, 1) => LongTy::V1(Ver1::ZERO_RTT),
                        (_, 2) => LongTy::V1(Ver1::HANDSHAKE),
                        _ => LongTy::V1(Ver1::RETRY),
                    };
                    assert!(version <= 1, "C03.packet.type.long_ok_only_version_0_or_1");
                    assert!(version == 0 || b[0] & 0x40 != 0, "C03.packet.type.v1_ok_only_with_fixed_bit");
                    assert!(ty == Type::Long(want), "C03.packet.type.long_type_bits");
                }
                assert!(core::ptr::eq(rest.as_ptr(), input[n - rest.len()..].as_ptr()), "C03.packet.type.rest_is_suffix_of_input");
                assert!(ty.encoding_size() == n - rest.len(), "C05.packet.type.announced_size_is_consumed_size");
            }
            Err(nom::Err::Incomplete(_)) => assert!(n == 0 || (long && n < 5), "C03.packet.type.incomplete_only_if_short_input"),
            Err(nom::Err::Error(e)) => {
                assert!(long && n >= 5, "C03.packet.type.error_only_on_complete_long_type");
                match e {
                    Error::InvalidFixedBit => assert!(version == 1 && b[0] & 0x40 == 0, "C03.packet.type.invalid_fixed_bit_iff_v1_and_bit_clear"),
                    Error::UnsupportedVersion(v) => assert!(v == version && version > 1, "C03.packet.type.unsupported_version_iff_version_gt_1"),
                    _ => assert!(false, "C03.packet.type.no_other_error"),
                }
            }
            Err(nom::Err::Failure(_)) => assert!(false, "C03.packet.type.no_failure"),
        }
        kani::cover!(n == 0, "C03.packet.type.reach_empty");
        kani::cover!(!long && n == 1, "C03.packet.type.reach_short");
        kani::cover!(long && n == 4, "C03.packet.type.reach_long_truncated");
        kani::cover!(long && n == 6 && version == 0, "C03.packet.type.reach_vn");
        kani::cover!(long && n == 5 && version == 1 && b[0] & 0x40 == 0, "C03.packet.type.reach_invalid_fixed_bit");
        kani::cover!(long && n == 5 && version == 0xff00_001d, "C03.packet.type.reach_unsupported_version");
        kani::cover!(long && n == 5 && version == 1 && b[0] == 0xff, "C03.packet.type.reach_retry");
    }

    // ------------------------------------------------------------------------------------------
    // be_header, one packet type per harness
    // ------------------------------------------------------------------------------------------

    #[derive(PartialEq, Eq, Clone, Copy)]
    enum Cids {
        Incomplete,
        /// RFC 9000 §17.2: a length byte above 20 -- the packet MUST be dropped
        TooLong,
        /// both ids present; `dl`, `sl` their lengths, `pos` = first byte behind the SCID
        Ok { dl: usize, sl: usize, pos: usize },
    }

    /// reference reading of DCID Len / DCID / SCID Len / SCID at the start of `b[..n]`
    fn spec_cids<const M: usize>(b: &[u8; M], n: usize) -> Cids {
        if n == 0 {
            return Cids::Incomplete;
        }
        let dl = b[0] as usize;
        if dl > 20 {
            return Cids::TooLong;
        }
        if 1 + dl >= n {
            // DCID incomplete, or no SCID length byte
            return Cids::Incomplete;
        }
        let sl = b[1 + dl] as usize;
        if sl > 20 {
            return Cids::TooLong;
        }
        if 2 + dl + sl > n {
            return Cids::Incomplete;
        }
        Cids::Ok { dl, sl, pos: 2 + dl + sl }
    }

    /// RFC 9000 §16 varint at `pos`, `None` if it is not completely inside `b[..n]`
    fn spec_varint<const M: usize>(b: &[u8; M], pos: usize, n: usize) -> Option<(u64, usize)> {
        if pos >= n {
            return None;
        }
        let w = 1usize << (b[pos] >> 6);
        if pos + w > n {
            return None;
        }
        let mut v = (b[pos] & 0x3f) as u64;
        let mut i = 1;
        while i < w {
            v = (v << 8) | b[pos + i] as u64;
            i += 1;
        }
        Some((v, w))
    }

    /// cid equals the wire bytes `b[at+1 .. at+1+b[at]]` (checked at an arbitrary index: no loop)
    fn cid_is_wire<const M: usize>(cid: &ConnectionId, b: &[u8; M], at: usize) -> bool {
        let l = b[at] as usize;
        let i: usize = kani::any();
        cid.len() == l && (i >= l || cid[i] == b[at + 1 + i])
    }

    /// clauses common to all long headers; returns the reference position behind the SCID when the
    /// result is `Ok`
    fn check_long_common<const M: usize>(b: &[u8; M], n: usize, r: &nom::IResult<&[u8], Header>, cids: Cids) {
        match r {
            Ok((_, h)) => {
                assert!(matches!(cids, Cids::Ok { .. }), "C03.packet.header.long.ok_only_if_both_cids_present_and_le_20");
                let dl = b[0] as usize;
                let (dcid, scid) = match h {
                    Header::VN(h) => (*h.dcid(), *h.scid()),
                    Header::Retry(h) => (*h.dcid(), *h.scid()),
                    Header::Initial(h) => (*h.dcid(), *h.scid()),
                    Header::ZeroRtt(h) => (*h.dcid(), *h.scid()),
                    Header::Handshake(h) => (*h.dcid(), *h.scid()),
                    Header::OneRtt(_) => {
                        assert!(false, "C03.packet.header.long.never_yields_short_header");
                        return;
                    }
                };
                assert!(cid_is_wire(&dcid, b, 0), "C03.packet.header.long.dcid_is_wire_bytes");
                assert!(cid_is_wire(&scid, b, 1 + dl), "C03.packet.header.long.scid_is_wire_bytes");
            }
            Err(nom::Err::Incomplete(_)) => {
                assert!(cids != Cids::TooLong, "C03.packet.header.long.cid_len_over_20_is_not_incomplete");
            }
            Err(nom::Err::Error(e)) => {
                // the ONLY non-Incomplete error of be_header; be_packet's `unreachable!` arm assumes it away
                assert!(cids == Cids::TooLong, "C03.packet.header.long.error_iff_cid_len_over_20");
                assert!(e.code == nom::error::ErrorKind::TooLarge, "C03.packet.header.long.sup.error_kind_too_large");
            }
            Err(nom::Err::Failure(_)) => assert!(false, "C03.packet.header.long.no_failure"),
        }
        let _ = n;
    }

    fn rest_at(input: &[u8], rest: &[u8], pos: usize) -> bool {
        pos <= input.len() && rest.len() == input.len() - pos && core::ptr::eq(rest.as_ptr(), input[pos..].as_ptr())
    }

    /// Handshake and 0-RTT: nothing behind the connection ids belongs to the header.
    fn header_handshake_zero_rtt_contract_body<const M: usize>() {
        let b: [u8; M] = kani::any();
        let n: usize = kani::any();
        kani::assume(n <= M);
        let input = &b[..n];
        let hs: bool = kani::any();
        let ty = if hs { LongTy::V1(Ver1::HANDSHAKE) } else { LongTy::V1(Ver1::ZERO_RTT) };
        let cids = spec_cids(&b, n);
        let r = be_header(Type::Long(ty), kani::any(), input);
        check_long_common(&b, n, &r, cids);
        match (&r, cids) {
            (Ok((rest, h)), Cids::Ok { pos, .. }) => {
                assert!(matches!(h, Header::Handshake(_)) == hs && matches!(h, Header::ZeroRtt(_)) == !hs, "C03.packet.header.hs0rtt.variant_matches_type");
                assert!(rest_at(input, rest, pos), "C03.packet.header.hs0rtt.rest_starts_behind_scid");
            }
            (Err(nom::Err::Incomplete(_)), c) => assert!(c == Cids::Incomplete, "C03.packet.header.hs0rtt.incomplete_iff_cids_truncated"),
            _ => {}
        }
        kani::cover!(matches!(cids, Cids::Ok { dl: 20, .. }), "C03.packet.header.hs0rtt.reach_dcid_20");
        kani::cover!(matches!(cids, Cids::Ok { sl: 20, .. }), "C03.packet.header.hs0rtt.reach_scid_20");
        kani::cover!(matches!(cids, Cids::Ok { dl: 0, sl: 0, pos: 2 }) && n == 2, "C03.packet.header.hs0rtt.reach_empty_cids");
        kani::cover!(cids == Cids::TooLong && n == 1, "C03.packet.header.hs0rtt.reach_dcid_len_over_20");
        kani::cover!(cids == Cids::TooLong && b[0] == 0, "C03.packet.header.hs0rtt.reach_scid_len_over_20");
        kani::cover!(cids == Cids::Incomplete && n == 25, "C03.packet.header.hs0rtt.reach_truncated");
    }

    /// Initial: Token Length (i) + Token behind the connection ids (RFC 9000 §17.2.2).
    fn header_initial_contract_body<const M: usize>() {
        let b: [u8; M] = kani::any();
        let n: usize = kani::any();
        kani::assume(n <= M);
        let input = &b[..n];
        let cids = spec_cids(&b, n);
        let r = be_header(Type::Long(LongTy::V1(Ver1::INITIAL)), kani::any(), input);
        check_long_common(&b, n, &r, cids);
        if let Cids::Ok { pos, .. } = cids {
            let tok = spec_varint(&b, pos, n);
            match (&r, tok) {
                (Ok((rest, Header::Initial(h))), Some((tl, w))) => {
                    assert!(tl <= (n - pos - w) as u64, "C03.packet.header.initial.ok_only_if_token_available");
                    let tl = tl as usize;
                    assert!(h.token().len() == tl, "C03.packet.header.initial.token_len_is_wire_len");
                    let i: usize = kani::any();
                    assert!(i >= tl || h.token()[i] == b[pos + w + i], "C03.packet.header.initial.token_is_wire_bytes");
                    assert!(rest_at(input, rest, pos + w + tl), "C03.packet.header.initial.rest_starts_behind_token");
                }
                (Ok(_), _) => assert!(false, "C03.packet.header.initial.variant_matches_type"),
                (Err(nom::Err::Incomplete(_)), Some((tl, w))) => assert!(tl > (n - pos - w) as u64, "C03.packet.header.initial.incomplete_only_if_token_truncated"),
                (Err(nom::Err::Incomplete(_)), None) => {}
                (Err(_), _) => assert!(false, "C03.packet.header.initial.err_is_incomplete_when_cids_ok"),
            }
        } else {
            assert!(r.is_err(), "C03.packet.header.initial.err_if_cids_bad");
        }
        kani::cover!(matches!(cids, Cids::Ok { dl: 20, .. }) && r.is_ok(), "C03.packet.header.initial.reach_dcid_20_ok");
        kani::cover!(matches!(cids, Cids::Ok { pos: 2, .. }) && b[2] == 0x7f && r.is_err(), "C03.packet.header.initial.reach_token_len_16383_truncated");
        kani::cover!(matches!(cids, Cids::Ok { pos: 2, .. }) && b[2] >= 0xc0 && n >= 10 && r.is_err(), "C03.packet.header.initial.reach_huge_token_len");
        kani::cover!(matches!(cids, Cids::Ok { pos: 2, .. }) && b[2] == 20 && r.is_ok(), "C03.packet.header.initial.reach_token_20");
        kani::cover!(matches!(cids, Cids::Ok { pos: 2, .. }) && b[2] == 0x40 && b[3] == 5 && r.is_ok(), "C03.packet.header.initial.reach_nonminimal_token_len");
        kani::cover!(cids == Cids::TooLong, "C03.packet.header.initial.reach_cid_len_over_20");
    }

    /// Retry: everything behind the connection ids is token || 128-bit integrity tag (RFC 9000 §17.2.5).
    fn header_retry_contract_body<const M: usize>() {
        let b: [u8; M] = kani::any();
        let n: usize = kani::any();
        kani::assume(n <= M);
        let input = &b[..n];
        let cids = spec_cids(&b, n);
        let r = be_header(Type::Long(LongTy::V1(Ver1::RETRY)), kani::any(), input);
        check_long_common(&b, n, &r, cids);
        if let Cids::Ok { pos, .. } = cids {
            match &r {
                Ok((rest, Header::Retry(h))) => {
                    assert!(n - pos >= 16, "C03.packet.header.retry.ok_only_if_tag_present");
                    assert!(rest.is_empty(), "C03.packet.header.retry.consumes_whole_datagram");
                    assert!(h.token().len() + 16 == n - pos, "C03.packet.header.retry.token_is_all_but_tag");
                    let i: usize = kani::any();
                    assert!(i >= h.token().len() || h.token()[i] == b[pos + i], "C03.packet.header.retry.token_is_wire_bytes");
                    let j: usize = kani::any();
                    assert!(j >= 16 || h.integrity()[j] == b[n - 16 + j], "C03.packet.header.retry.tag_is_last_16_bytes");
                }
                Ok(_) => assert!(false, "C03.packet.header.retry.variant_matches_type"),
                Err(nom::Err::Incomplete(_)) => assert!(n - pos < 16, "C03.packet.header.retry.incomplete_only_if_no_tag"),
                Err(_) => assert!(false, "C03.packet.header.retry.err_is_incomplete_when_cids_ok"),
            }
        } else {
            assert!(r.is_err(), "C03.packet.header.retry.err_if_cids_bad");
        }
        kani::cover!(matches!(cids, Cids::Ok { dl: 20, .. }) && r.is_ok(), "C03.packet.header.retry.reach_dcid_20_ok");
        kani::cover!(matches!(cids, Cids::Ok { pos: 2, .. }) && n == 18, "C03.packet.header.retry.reach_empty_token");
        kani::cover!(matches!(cids, Cids::Ok { pos: 2, .. }) && n == 17, "C03.packet.header.retry.reach_no_tag");
        kani::cover!(cids == Cids::TooLong, "C03.packet.header.retry.reach_cid_len_over_20");
    }

    /// Version Negotiation: behind the ids a list of 32-bit versions up to the end of the datagram
    /// (RFC 9000 §17.2.1); a trailing partial version makes the packet incomplete.
    fn header_vn_contract_body<const M: usize>() {
        let b: [u8; M] = kani::any();
        let n: usize = kani::any();
        kani::assume(n <= M);
        let input = &b[..n];
        let cids = spec_cids(&b, n);
        let r = be_header(Type::Long(LongTy::VersionNegotiation), kani::any(), input);
        check_long_common(&b, n, &r, cids);
        if let Cids::Ok { pos, .. } = cids {
            match &r {
                Ok((rest, Header::VN(h))) => {
                    assert!((n - pos) % 4 == 0, "C03.packet.header.vn.ok_only_if_whole_versions");
                    assert!(rest.is_empty(), "C03.packet.header.vn.consumes_whole_datagram");
                    assert!(h.versions().len() * 4 == n - pos, "C03.packet.header.vn.version_count");
                    let i: usize = kani::any();
                    if i < h.versions().len() {
                        let p = pos + 4 * i;
                        assert!(h.versions()[i] == u32::from_be_bytes([b[p], b[p + 1], b[p + 2], b[p + 3]]), "C03.packet.header.vn.versions_are_wire_words");
                    }
                }
                Ok(_) => assert!(false, "C03.packet.header.vn.variant_matches_type"),
                Err(nom::Err::Incomplete(_)) => assert!((n - pos) % 4 != 0, "C03.packet.header.vn.incomplete_only_if_partial_version"),
                Err(_) => assert!(false, "C03.packet.header.vn.err_is_incomplete_when_cids_ok"),
            }
        } else {
            assert!(r.is_err(), "C03.packet.header.vn.err_if_cids_bad");
        }
        kani::cover!(matches!(cids, Cids::Ok { pos: 2, .. }) && n == M && r.is_ok(), "C03.packet.header.vn.reach_max_versions");
        kani::cover!(matches!(cids, Cids::Ok { pos: 2, .. }) && n == 2 && r.is_ok(), "C03.packet.header.vn.reach_no_versions");
        kani::cover!(matches!(cids, Cids::Ok { pos: 2, .. }) && n == 5, "C03.packet.header.vn.reach_partial_version");
        kani::cover!(matches!(cids, Cids::Ok { dl: 20, .. }) && r.is_ok(), "C03.packet.header.vn.reach_dcid_20");
        kani::cover!(cids == Cids::TooLong, "C03.packet.header.vn.reach_cid_len_over_20");
    }

    /// 1-RTT: DCID of the locally configured length, nothing else (RFC 9000 §17.3.1).
    fn header_short_contract_body<const M: usize>() {
        let b: [u8; M] = kani::any();
        let n: usize = kani::any();
        kani::assume(n <= M);
        let input = &b[..n];
        let dcid_len: usize = kani::any();
        kani::assume(dcid_len <= 20); // precondition (ConnectionId::from_slice); the only caller passes the constant 8
        let spin = if kani::any() { SpinBit::One } else { SpinBit::Zero };
        match be_header(Type::Short(OneRtt(spin)), dcid_len, input) {
            Ok((rest, Header::OneRtt(h))) => {
                assert!(n >= dcid_len, "C03.packet.header.short.ok_only_if_dcid_available");
                assert!(rest_at(input, rest, dcid_len), "C03.packet.header.short.rest_starts_behind_dcid");
                assert!(h.spin() == spin, "C03.packet.header.short.spin_from_type");
                let i: usize = kani::any();
                assert!(h.dcid().len() == dcid_len && (i >= dcid_len || h.dcid()[i] == b[i]), "C03.packet.header.short.dcid_is_wire_bytes");
            }
            Ok(_) => assert!(false, "C03.packet.header.short.variant_matches_type"),
            Err(nom::Err::Incomplete(_)) => assert!(n < dcid_len, "C03.packet.header.short.incomplete_only_if_dcid_truncated"),
            Err(_) => assert!(false, "C03.packet.header.short.err_is_incomplete_only"),
        }
        kani::cover!(dcid_len == 20 && n == 20, "C03.packet.header.short.reach_dcid_20_exact");
        kani::cover!(dcid_len == 0 && n == 0, "C03.packet.header.short.reach_dcid_0_empty");
        kani::cover!(dcid_len == 8 && n == 7, "C03.packet.header.short.reach_truncated");
    }

    // ------------------------------------------------------------------------------------------
    // be_payload (Length varint, payload extent, header-protection sampling rule)
    // ------------------------------------------------------------------------------------------

    /// `be_payload(pkty, datagram, remain_len)`; precondition (established by be_packet: `remain` is what
    /// be_header left of the datagram): remain_len <= datagram.len().
    /// Ok((bytes, offset)) <=> a complete Length varint L >= 20 with L bytes behind it; then
    /// `bytes` = datagram prefix up to the end of the payload, `offset` = start of the payload,
    /// so 1 <= offset and offset + 20 <= bytes.len(); the datagram keeps exactly the bytes behind it.
    fn payload_contract_body<const M: usize>() {
        let b: [u8; M] = kani::any();
        let n: usize = kani::any();
        kani::assume(n <= M);
        let remain_len: usize = kani::any();
        kani::assume(remain_len <= n); // precondition, see above
        let pkty = Type::Long(LongTy::V1(Ver1::HANDSHAKE)); // only copied into the error value
        let mut dg = BytesMut::from(&b[..]);
        dg.truncate(n);
        let off0 = n - remain_len;
        let len = spec_varint(&b, off0, n);
        match (be_payload(pkty, &mut dg, remain_len), len) {
            (Ok((bytes, offset)), Some((pl, w))) => {
                assert!(pl >= 20, "C03.packet.payload.ok_only_if_at_least_20_bytes_to_sample");
                assert!(pl <= (n - off0 - w) as u64, "C03.packet.payload.ok_only_if_payload_available");
                let pl = pl as usize;
                assert!(offset == off0 + w, "C03.packet.payload.offset_is_behind_length_field");
                assert!(bytes.len() == off0 + w + pl, "C03.packet.payload.packet_ends_with_payload");
                assert!(offset + 20 <= bytes.len(), "C03.packet.payload.offset_plus_20_inside_packet");
                assert!(dg.len() + bytes.len() == n, "C03.packet.payload.splits_datagram_without_loss");
                let i: usize = kani::any();
                assert!(i >= bytes.len() || bytes[i] == b[i], "C03.packet.payload.packet_bytes_are_datagram_prefix");
                let j: usize = kani::any();
                assert!(j >= dg.len() || dg[j] == b[bytes.len() + j], "C03.packet.payload.rest_is_datagram_suffix");
            }
            (Ok(_), None) => assert!(false, "C03.packet.payload.ok_only_if_length_field_complete"),
            (Err(Error::IncompleteHeader(..)), l) => {
                assert!(match l { None => true, Some((pl, w)) => pl > (n - off0 - w) as u64 }, "C03.packet.payload.incomplete_only_if_truncated");
                assert!(dg.len() == n, "C03.packet.payload.err_leaves_datagram_untouched");
            }
            (Err(Error::UnderSampling(_, got)), Some((pl, w))) => {
                assert!(pl < 20 && pl <= (n - off0 - w) as u64 && got as u64 == pl, "C03.packet.payload.under_sampling_iff_payload_lt_20");
                assert!(dg.len() == n, "C03.packet.payload.err_leaves_datagram_untouched");
            }
            (Err(_), _) => assert!(false, "C03.packet.payload.no_other_error"),
        }
        kani::cover!(off0 == 7 && matches!(len, Some((20, 8))) && n == M, "C03.packet.payload.reach_len_20_in_8_byte_varint");
        kani::cover!(off0 == 0 && matches!(len, Some((19, 1))) && n == 20, "C03.packet.payload.reach_under_sampling_19");
        kani::cover!(matches!(len, Some((21, 1))) && n == off0 + 1 + 21 + 3, "C03.packet.payload.reach_coalesced_rest");
        kani::cover!(matches!(len, Some((pl, 8)) if pl >= (1 << 61)), "C03.packet.payload.reach_huge_length");
        kani::cover!(remain_len == 0, "C03.packet.payload.reach_nothing_left");
    }

    #[kani::proof]
    #[kani::unwind(9)]
    #[kani::stub(core::fmt::write, noop_fmt_write)]
    fn payload_contract() {
        //   "C03.packet.payload.ok_only_if_at_least_20_bytes_to_sample" "C03.packet.payload.ok_only_if_payload_available"
        //   "C03.packet.payload.offset_is_behind_length_field" "C03.packet.payload.packet_ends_with_payload"
        //   "C03.packet.payload.offset_plus_20_inside_packet" "C03.packet.payload.splits_datagram_without_loss"
        //   "C03.packet.payload.packet_bytes_are_datagram_prefix" "C03.packet.payload.rest_is_datagram_suffix"
        //   "C03.packet.payload.ok_only_if_length_field_complete" "C03.packet.payload.incomplete_only_if_truncated"
        //   "C03.packet.payload.err_leaves_datagram_untouched" "C03.packet.payload.under_sampling_iff_payload_lt_20"
        //   "C03.packet.payload.no_other_error"
        payload_contract_body::<36>();
    }

    // ------------------------------------------------------------------------------------------
    // be_packet / PacketReader::next : glue over the contracts above
    // ------------------------------------------------------------------------------------------

    fn any_cid() -> ConnectionId {
        let c = ConnectionId { len: kani::any(), bytes: kani::any() };
        kani::assume(c.len as usize <= crate::cid::MAX_CID_SIZE);
        c
    }

    /// any result permitted by `type_total_contract` (clause ids in brackets)
    fn contract_be_packet_type(input: &[u8]) -> nom::IResult<&[u8], Type, Error> {
        let n = input.len();
        if n == 0 {
            return Err(nom::Err::Incomplete(nom::Needed::new(1))); // [incomplete_only_if_short_input]
        }
        if kani::any() {
            let spin = if kani::any() { SpinBit::One } else { SpinBit::Zero };
            return Ok((&input[1..], Type::Short(OneRtt(spin)))); // [short_consumes_1, rest_is_suffix_of_input]
        }
        if n < 5 {
            return Err(nom::Err::Incomplete(nom::Needed::new(5 - n)));
        }
        match kani::any::<u8>() % 7 {
            0 => Err(nom::Err::Error(Error::InvalidFixedBit)), // [no_other_error, no_failure]
            1 => Err(nom::Err::Error(Error::UnsupportedVersion(kani::any()))),
            2 => Ok((&input[5..], Type::Long(LongTy::VersionNegotiation))), // [long_consumes_5]
            3 => Ok((&input[5..], Type::Long(LongTy::V1(Ver1::INITIAL)))),
            4 => Ok((&input[5..], Type::Long(LongTy::V1(Ver1::ZERO_RTT)))),
            5 => Ok((&input[5..], Type::Long(LongTy::V1(Ver1::HANDSHAKE)))),
            _ => Ok((&input[5..], Type::Long(LongTy::V1(Ver1::RETRY)))),
        }
    }

    /// any `Ok`/`Incomplete` result permitted by the header_*_contract harnesses for connection-id length
    /// bytes <= 20: the header variant follows the type [variant_matches_type], the remainder is a suffix of
    /// the input [rest_starts_behind_*], VN and Retry consume everything [consumes_whole_datagram], a long
    /// header consumes at least the two length bytes, Initial one more; errors are Incomplete.
    fn contract_be_header_legal(packet_type: Type, dcid_len: usize, input: &[u8]) -> nom::IResult<&[u8], Header> {
        let n = input.len();
        match packet_type {
            Type::Short(OneRtt(spin)) => {
                if n < dcid_len {
                    return Err(nom::Err::Incomplete(nom::Needed::new(dcid_len - n)));
                }
                let mut dcid = any_cid();
                kani::assume(dcid.len as usize == dcid_len);
                dcid.len = dcid_len as u8;
                Ok((&input[dcid_len..], Header::OneRtt(OneRttHeader::new(spin, dcid))))
            }
            Type::Long(ty) => {
                if kani::any() {
                    return Err(nom::Err::Incomplete(nom::Needed::Unknown));
                }
                let k: usize = kani::any();
                kani::assume(k >= 2 && k <= n);
                let b = LongHeaderBuilder::with_cid(any_cid(), any_cid());
                match ty {
                    LongTy::VersionNegotiation => {
                        kani::assume(k == n);
                        Ok((&input[k..], Header::VN(b.vn(Vec::new()))))
                    }
                    LongTy::V1(v) => match *v {
                        crate::packet::r#type::long::v1::Type::Retry => {
                            kani::assume(k == n && n >= 18);
                            Ok((&input[k..], Header::Retry(b.retry(Vec::new(), kani::any()))))
                        }
                        crate::packet::r#type::long::v1::Type::Initial => {
                            kani::assume(k >= 3);
                            Ok((&input[k..], Header::Initial(b.initial(Vec::new()))))
                        }
                        crate::packet::r#type::long::v1::Type::ZeroRtt => Ok((&input[k..], Header::ZeroRtt(b.zero_rtt()))),
                        crate::packet::r#type::long::v1::Type::Handshake => Ok((&input[k..], Header::Handshake(b.handshake()))),
                    },
                }
            }
        }
    }

    /// region selector of the recorded finding: "the long header carries a DCID/SCID length byte > 20".
    /// Written by the harness, read by the be_header contract stub.
    static mut CID_LEN_OVER_20: bool = false;
    /// set by the stub when it returned the result proved for that region
    static mut CID_ERROR_RETURNED: bool = false;

    /// any result permitted by the header_*_contract harnesses: in the region "cid length byte > 20" a long
    /// header yields nom::Err::Error(TooLarge) [C03.packet.header.long.error_iff_cid_len_over_20],
    /// otherwise see `contract_be_header_legal`.
    fn contract_be_header(packet_type: Type, dcid_len: usize, input: &[u8]) -> nom::IResult<&[u8], Header> {
        if unsafe { CID_LEN_OVER_20 } && matches!(packet_type, Type::Long(_)) {
            unsafe { CID_ERROR_RETURNED = true };
            return Err(nom::Err::Error(nom::error::make_error(input, nom::error::ErrorKind::TooLarge)));
        }
        contract_be_header_legal(packet_type, dcid_len, input)
    }

    struct GlueRun<const M: usize> {
        b: [u8; M],
        n: usize,
        dcid_len: usize,
        dg: BytesMut,
        r: Result<Packet, Error>,
    }

    /// run the REAL be_packet on an arbitrary datagram of up to M bytes.
    /// `cid_len_over_20`: select the finding's region (see CID_LEN_OVER_20).
    fn glue_run<const M: usize>(cid_len_over_20: bool) -> GlueRun<M> {
        unsafe {
            CID_LEN_OVER_20 = cid_len_over_20;
            CID_ERROR_RETURNED = false;
        }
        let b: [u8; M] = kani::any();
        let n: usize = kani::any();
        kani::assume(n <= M);
        let dcid_len: usize = kani::any();
        kani::assume(dcid_len <= 20); // precondition of be_one_rtt_header; the only caller passes 8
        let mut dg = BytesMut::from(&b[..]);
        dg.truncate(n);
        let r = be_packet(&mut dg, dcid_len);
        GlueRun { b, n, dcid_len, dg, r }
    }

    /// postconditions of be_packet outside the finding's region
    fn glue_body<const M: usize>() {
        let GlueRun { b, n, dcid_len, dg, r } = glue_run::<M>(false);
        let left = dg.len();
        match r {
            Ok(Packet::Data(p)) => {
                // == precondition of remove_protection_of_{long,short}_packet (decrypt harness)
                assert!(p.offset >= 1, "C03.packet.be_packet.data.offset_ge_1");
                assert!(p.offset + 20 <= p.bytes.len(), "C03.packet.be_packet.data.offset_plus_20_inside_packet");
                assert!(p.bytes.len() + left == n, "C03.packet.be_packet.data.splits_datagram_without_loss");
                // progress: PacketReader::next can return at most n packets ("never loops without consuming")
                assert!(left < n, "C03.packet.be_packet.ok_consumes_input");
                let i: usize = kani::any();
                assert!(i >= p.bytes.len() || p.bytes[i] == b[i], "C03.packet.be_packet.data.packet_bytes_are_datagram_prefix");
                let j: usize = kani::any();
                assert!(j >= left || dg[j] == b[p.bytes.len() + j], "C03.packet.be_packet.data.rest_is_datagram_suffix");
                if let DataHeader::Short(_) = p.header {
                    assert!(left == 0 && p.offset == 1 + dcid_len, "C03.packet.be_packet.short.takes_rest_of_datagram");
                }
                kani::cover!(matches!(p.header, DataHeader::Short(_)), "C03.packet.be_packet.reach_short");
                kani::cover!(matches!(p.header, DataHeader::Long(long::DataHeader::Initial(_))) && left > 0, "C03.packet.be_packet.reach_initial_coalesced");
                kani::cover!(matches!(p.header, DataHeader::Long(long::DataHeader::Handshake(_))), "C03.packet.be_packet.reach_handshake");
                kani::cover!(matches!(p.header, DataHeader::Long(long::DataHeader::ZeroRtt(_))), "C03.packet.be_packet.reach_zero_rtt");
            }
            Ok(Packet::VN(_)) | Ok(Packet::Retry(_)) => {
                assert!(left == 0 && n > 0, "C03.packet.be_packet.vn_retry_consume_datagram");
            }
            Err(e) => {
                // "a malformed datagram is simply dropped": an error value, never a panic
                assert!(
                    matches!(e, Error::IncompleteType(_) | Error::IncompleteHeader(..) | Error::UnderSampling(..) | Error::InvalidFixedBit | Error::UnsupportedVersion(_)),
                    "C03.packet.be_packet.err_is_a_drop_reason"
                );
                kani::cover!(matches!(e, Error::UnderSampling(_, 19)), "C03.packet.be_packet.reach_under_sampling_19");
                kani::cover!(matches!(e, Error::IncompleteHeader(..)), "C03.packet.be_packet.reach_incomplete_header");
                kani::cover!(matches!(e, Error::IncompleteType(_)) && n == 0, "C03.packet.be_packet.reach_empty_datagram");
            }
        }
    }

    /// REAL `be_packet` (its three `unreachable!` arms, `be_payload`, all BytesMut handling), the callee
    /// parsers be_packet_type / be_header replaced by their contracts.
    #[kani::proof]
    #[kani::unwind(9)]
    #[kani::stub(core::fmt::write, noop_fmt_write)]
    #[kani::stub(be_packet_type, contract_be_packet_type)]
    #[kani::stub(be_header, contract_be_header)]
    fn be_packet_glue_contract() {
        //   "C03.packet.be_packet.data.offset_ge_1" "C03.packet.be_packet.data.offset_plus_20_inside_packet"
        //   "C03.packet.be_packet.data.splits_datagram_without_loss" "C03.packet.be_packet.ok_consumes_input"
        //   "C03.packet.be_packet.data.packet_bytes_are_datagram_prefix" "C03.packet.be_packet.data.rest_is_datagram_suffix"
        //   "C03.packet.be_packet.short.takes_rest_of_datagram" "C03.packet.be_packet.vn_retry_consume_datagram"
        //   "C03.packet.be_packet.err_is_a_drop_reason"
        // KNOWN FINDING excluded here and pinned by `be_packet_cid_len_over_20` (same body, region = true).
        // After a fix in /repo drop `"expect_fail"` from that harness in unit.json: the two harnesses together
        // then cover the whole domain, including "cid length byte > 20 => Err, datagram dropped, no panic".
        glue_body::<30>();
    }

    /// the same glue contract on a 40-byte datagram bound (thorough tier)
    #[kani::proof]
    #[kani::unwind(9)]
    #[kani::stub(core::fmt::write, noop_fmt_write)]
    #[kani::stub(be_packet_type, contract_be_packet_type)]
    #[kani::stub(be_header, contract_be_header)]
    fn mid_be_packet_glue_contract() {
        //   "C03.packet.be_packet.data.offset_ge_1" "C03.packet.be_packet.data.offset_plus_20_inside_packet"
        //   "C03.packet.be_packet.data.splits_datagram_without_loss" "C03.packet.be_packet.ok_consumes_input"
        //   "C03.packet.be_packet.data.packet_bytes_are_datagram_prefix" "C03.packet.be_packet.data.rest_is_datagram_suffix"
        //   "C03.packet.be_packet.short.takes_rest_of_datagram" "C03.packet.be_packet.vn_retry_consume_datagram"
        //   "C03.packet.be_packet.err_is_a_drop_reason"
        glue_body::<40>();
    }

    /// KNOWN FINDING (confined): a long header whose DCID or SCID length byte exceeds 20. RFC 9000 §17.2:
    /// the packet MUST be dropped. be_header reports it as nom::Err::Error(TooLarge) (proved:
    /// C03.packet.header.long.error_iff_cid_len_over_20); be_packet maps every non-Incomplete error of
    /// be_header to `unreachable!("parsing packet header never generates error or failure")` => panic in
    /// the receive task on a 6-byte datagram, before any authentication.
    /// Same glue harness as above, run in that region: be_header's contract stub returns exactly the proved
    /// result. States the INTENDED behaviour (`Err`, no panic); fails today on the `unreachable!`.
    #[kani::proof]
    #[kani::unwind(9)]
    #[kani::stub(core::fmt::write, noop_fmt_write)]
    #[kani::stub(be_packet_type, contract_be_packet_type)]
    #[kani::stub(be_header, contract_be_header)]
    fn be_packet_cid_len_over_20() {
        let g = glue_run::<8>(true);
        // the rest of the domain is be_packet_glue_contract's; here only the paths on which be_header
        // reported the over-long connection id
        kani::assume(unsafe { CID_ERROR_RETURNED });
        // INTENDED behaviour (RFC 9000 §17.2 "MUST drop the packet"): an error value (any), never a panic
        assert!(g.r.is_err(), "C03.packet.be_packet.cid_len_over_20.is_dropped");
        kani::cover!(g.n == 6, "C03.packet.be_packet.cid_len_over_20.reach_6_byte_datagram");
    }

    /// the same finding on the unmodified call chain (no stubs except message formatting), datagram
    /// c0 00 00 00 01 <x> with x > 20 (thorough tier: ~5 min of symbolic execution through BytesMut)
    #[kani::proof]
    #[kani::unwind(9)]
    #[kani::stub(core::fmt::write, noop_fmt_write)]
    fn unstubbed_be_packet_cid_len_over_20() {
        let mut b = [0xC0u8, 0, 0, 0, 1, 21];
        let x: u8 = kani::any();
        kani::assume(x > 20);
        b[5] = x;
        let mut dg = BytesMut::from(&b[..]);
        let r = be_packet(&mut dg, 8);
        assert!(r.is_err(), "C03.packet.be_packet.cid_len_over_20.is_dropped");
    }

    // ---- harness entry points for the per-type header contracts -------------------------------
    #[kani::proof]
    #[kani::unwind(3)]
    fn header_handshake_zero_rtt_contract() {
        // clauses established through the generic body (listed so that the runner attributes them):
        //   "C03.packet.header.hs0rtt.incomplete_iff_cids_truncated"
        //   "C03.packet.header.hs0rtt.rest_starts_behind_scid"
        //   "C03.packet.header.hs0rtt.variant_matches_type"
        //   "C03.packet.header.long.cid_len_over_20_is_not_incomplete"
        //   "C03.packet.header.long.dcid_is_wire_bytes"
        //   "C03.packet.header.long.error_iff_cid_len_over_20"
        //   "C03.packet.header.long.never_yields_short_header"
        //   "C03.packet.header.long.no_failure"
        //   "C03.packet.header.long.ok_only_if_both_cids_present_and_le_20"
        //   "C03.packet.header.long.scid_is_wire_bytes"
        //   "C03.packet.header.long.sup.error_kind_too_large"
        header_handshake_zero_rtt_contract_body::<30>();
    }

    /// the same contract on the larger input bound (thorough tier)
    #[kani::proof]
    #[kani::unwind(3)]
    fn full_header_handshake_zero_rtt_contract() {
        //   "C03.packet.header.hs0rtt.incomplete_iff_cids_truncated"
        //   "C03.packet.header.hs0rtt.rest_starts_behind_scid"
        //   "C03.packet.header.hs0rtt.variant_matches_type"
        //   "C03.packet.header.long.cid_len_over_20_is_not_incomplete"
        //   "C03.packet.header.long.dcid_is_wire_bytes"
        //   "C03.packet.header.long.error_iff_cid_len_over_20"
        //   "C03.packet.header.long.never_yields_short_header"
        //   "C03.packet.header.long.no_failure"
        //   "C03.packet.header.long.ok_only_if_both_cids_present_and_le_20"
        //   "C03.packet.header.long.scid_is_wire_bytes"
        //   "C03.packet.header.long.sup.error_kind_too_large"
        header_handshake_zero_rtt_contract_body::<46>();
    }

    #[kani::proof]
    #[kani::unwind(9)]
    fn header_initial_contract() {
        // clauses established through the generic body (listed so that the runner attributes them):
        //   "C03.packet.header.initial.err_if_cids_bad"
        //   "C03.packet.header.initial.err_is_incomplete_when_cids_ok"
        //   "C03.packet.header.initial.incomplete_only_if_token_truncated"
        //   "C03.packet.header.initial.ok_only_if_token_available"
        //   "C03.packet.header.initial.rest_starts_behind_token"
        //   "C03.packet.header.initial.token_is_wire_bytes"
        //   "C03.packet.header.initial.token_len_is_wire_len"
        //   "C03.packet.header.initial.variant_matches_type"
        //   "C03.packet.header.long.cid_len_over_20_is_not_incomplete"
        //   "C03.packet.header.long.dcid_is_wire_bytes"
        //   "C03.packet.header.long.error_iff_cid_len_over_20"
        //   "C03.packet.header.long.never_yields_short_header"
        //   "C03.packet.header.long.no_failure"
        //   "C03.packet.header.long.ok_only_if_both_cids_present_and_le_20"
        //   "C03.packet.header.long.scid_is_wire_bytes"
        //   "C03.packet.header.long.sup.error_kind_too_large"
        header_initial_contract_body::<34>();
    }

    /// the same contract on the larger input bound (thorough tier)
    #[kani::proof]
    #[kani::unwind(9)]
    fn full_header_initial_contract() {
        //   "C03.packet.header.initial.err_if_cids_bad"
        //   "C03.packet.header.initial.err_is_incomplete_when_cids_ok"
        //   "C03.packet.header.initial.incomplete_only_if_token_truncated"
        //   "C03.packet.header.initial.ok_only_if_token_available"
        //   "C03.packet.header.initial.rest_starts_behind_token"
        //   "C03.packet.header.initial.token_is_wire_bytes"
        //   "C03.packet.header.initial.token_len_is_wire_len"
        //   "C03.packet.header.initial.variant_matches_type"
        //   "C03.packet.header.long.cid_len_over_20_is_not_incomplete"
        //   "C03.packet.header.long.dcid_is_wire_bytes"
        //   "C03.packet.header.long.error_iff_cid_len_over_20"
        //   "C03.packet.header.long.never_yields_short_header"
        //   "C03.packet.header.long.no_failure"
        //   "C03.packet.header.long.ok_only_if_both_cids_present_and_le_20"
        //   "C03.packet.header.long.scid_is_wire_bytes"
        //   "C03.packet.header.long.sup.error_kind_too_large"
        header_initial_contract_body::<56>();
    }

    #[kani::proof]
    #[kani::unwind(3)]
    fn header_retry_contract() {
        // clauses established through the generic body (listed so that the runner attributes them):
        //   "C03.packet.header.retry.consumes_whole_datagram"
        //   "C03.packet.header.retry.err_if_cids_bad"
        //   "C03.packet.header.retry.err_is_incomplete_when_cids_ok"
        //   "C03.packet.header.retry.incomplete_only_if_no_tag"
        //   "C03.packet.header.retry.ok_only_if_tag_present"
        //   "C03.packet.header.retry.tag_is_last_16_bytes"
        //   "C03.packet.header.retry.token_is_all_but_tag"
        //   "C03.packet.header.retry.token_is_wire_bytes"
        //   "C03.packet.header.retry.variant_matches_type"
        //   "C03.packet.header.long.cid_len_over_20_is_not_incomplete"
        //   "C03.packet.header.long.dcid_is_wire_bytes"
        //   "C03.packet.header.long.error_iff_cid_len_over_20"
        //   "C03.packet.header.long.never_yields_short_header"
        //   "C03.packet.header.long.no_failure"
        //   "C03.packet.header.long.ok_only_if_both_cids_present_and_le_20"
        //   "C03.packet.header.long.scid_is_wire_bytes"
        //   "C03.packet.header.long.sup.error_kind_too_large"
        header_retry_contract_body::<44>();
    }

    /// the same contract on the larger input bound (thorough tier)
    #[kani::proof]
    #[kani::unwind(3)]
    fn full_header_retry_contract() {
        //   "C03.packet.header.retry.consumes_whole_datagram"
        //   "C03.packet.header.retry.err_if_cids_bad"
        //   "C03.packet.header.retry.err_is_incomplete_when_cids_ok"
        //   "C03.packet.header.retry.incomplete_only_if_no_tag"
        //   "C03.packet.header.retry.ok_only_if_tag_present"
        //   "C03.packet.header.retry.tag_is_last_16_bytes"
        //   "C03.packet.header.retry.token_is_all_but_tag"
        //   "C03.packet.header.retry.token_is_wire_bytes"
        //   "C03.packet.header.retry.variant_matches_type"
        //   "C03.packet.header.long.cid_len_over_20_is_not_incomplete"
        //   "C03.packet.header.long.dcid_is_wire_bytes"
        //   "C03.packet.header.long.error_iff_cid_len_over_20"
        //   "C03.packet.header.long.never_yields_short_header"
        //   "C03.packet.header.long.no_failure"
        //   "C03.packet.header.long.ok_only_if_both_cids_present_and_le_20"
        //   "C03.packet.header.long.scid_is_wire_bytes"
        //   "C03.packet.header.long.sup.error_kind_too_large"
        header_retry_contract_body::<64>();
    }

    #[kani::proof]
    #[kani::unwind(9)]
    fn header_vn_contract() {
        // clauses established through the generic body (listed so that the runner attributes them):
        //   "C03.packet.header.vn.consumes_whole_datagram"
        //   "C03.packet.header.vn.err_if_cids_bad"
        //   "C03.packet.header.vn.err_is_incomplete_when_cids_ok"
        //   "C03.packet.header.vn.incomplete_only_if_partial_version"
        //   "C03.packet.header.vn.ok_only_if_whole_versions"
        //   "C03.packet.header.vn.variant_matches_type"
        //   "C03.packet.header.vn.version_count"
        //   "C03.packet.header.vn.versions_are_wire_words"
        //   "C03.packet.header.long.cid_len_over_20_is_not_incomplete"
        //   "C03.packet.header.long.dcid_is_wire_bytes"
        //   "C03.packet.header.long.error_iff_cid_len_over_20"
        //   "C03.packet.header.long.never_yields_short_header"
        //   "C03.packet.header.long.no_failure"
        //   "C03.packet.header.long.ok_only_if_both_cids_present_and_le_20"
        //   "C03.packet.header.long.scid_is_wire_bytes"
        //   "C03.packet.header.long.sup.error_kind_too_large"
        header_vn_contract_body::<22>();
    }

    /// the same contract on the larger input bound (thorough tier)
    #[kani::proof]
    #[kani::unwind(9)]
    fn full_header_vn_contract() {
        //   "C03.packet.header.vn.consumes_whole_datagram"
        //   "C03.packet.header.vn.err_if_cids_bad"
        //   "C03.packet.header.vn.err_is_incomplete_when_cids_ok"
        //   "C03.packet.header.vn.incomplete_only_if_partial_version"
        //   "C03.packet.header.vn.ok_only_if_whole_versions"
        //   "C03.packet.header.vn.variant_matches_type"
        //   "C03.packet.header.vn.version_count"
        //   "C03.packet.header.vn.versions_are_wire_words"
        //   "C03.packet.header.long.cid_len_over_20_is_not_incomplete"
        //   "C03.packet.header.long.dcid_is_wire_bytes"
        //   "C03.packet.header.long.error_iff_cid_len_over_20"
        //   "C03.packet.header.long.never_yields_short_header"
        //   "C03.packet.header.long.no_failure"
        //   "C03.packet.header.long.ok_only_if_both_cids_present_and_le_20"
        //   "C03.packet.header.long.scid_is_wire_bytes"
        //   "C03.packet.header.long.sup.error_kind_too_large"
        header_vn_contract_body::<30>();
    }

    #[kani::proof]
    #[kani::unwind(3)]
    fn header_short_contract() {
        // clauses established through the generic body (listed so that the runner attributes them):
        //   "C03.packet.header.short.dcid_is_wire_bytes"
        //   "C03.packet.header.short.err_is_incomplete_only"
        //   "C03.packet.header.short.incomplete_only_if_dcid_truncated"
        //   "C03.packet.header.short.ok_only_if_dcid_available"
        //   "C03.packet.header.short.rest_starts_behind_dcid"
        //   "C03.packet.header.short.spin_from_type"
        //   "C03.packet.header.short.variant_matches_type"
        header_short_contract_body::<24>();
    }
}
