// ---- spliced by /verif (contracts/c03_packet_decode) : contracts on the real datagram -> packet reader --
// Reference: RFC 8999 §5 (invariants), RFC 9000 §17.2 (long header: first byte, Version(32), DCID Len(8),
// DCID(0..160), SCID Len(8), SCID(0..160), type-specific part, Length(i), payload), §17.2.1 (Version
// Negotiation), §17.2.5 (Retry: token + 128-bit integrity tag), §17.3.1 (1-RTT: first byte, DCID of the
// locally known length, payload = rest of the datagram), RFC 9001 §5.4.2 (a packet must leave 4 + 16 bytes
// after the start of the packet-number field for the header-protection sample).
#[cfg(kani)]
mod verif_c03_packet {
    use super::*;
    use crate::packet::r#type::{long as lty, short as sty};

    /// datagram bytes under analysis (see unit.json "bound")
    const N: usize = 80;

    #[derive(PartialEq, Eq, Clone, Copy)]
    enum Want {
        IncompleteType,
        InvalidFixedBit,
        UnsupportedVersion(u32),
        /// RFC 9000 §17.2: "Endpoints that receive a version 1 long header with a value larger than 20
        /// MUST drop the packet."
        CidTooLong,
        IncompleteHeader,
        UnderSampling(usize),
        Vn,
        Retry,
        /// long-header data packet: `kind` 0 Initial / 1 0-RTT / 2 Handshake, occupying `len` bytes of
        /// the datagram, packet-number field at `offset`
        Long { kind: u8, offset: usize, len: usize },
        /// 1-RTT packet: the whole datagram, packet-number field at `offset`
        Short { offset: usize },
    }

    /// RFC 9000 §16 varint at `pos`, `None` if it is not completely inside `b[..n]`
    fn spec_varint(b: &[u8; N], pos: usize, n: usize) -> Option<(u64, usize)> {
        if pos >= n {
            return None;
        }
        let w = 1usize << (b[pos] >> 6);
        if pos + w > n {
            return None;
        }
        let mut v = (b[pos] & 0x3f) as u64;
        let mut i = 1;
        while i < w {
            v = (v << 8) | b[pos + i] as u64;
            i += 1;
        }
        Some((v, w))
    }

    /// what RFC 9000 §17 says about the first packet of the datagram `b[..n]` (loop-free reference)
    fn spec_packet(b: &[u8; N], n: usize, dcid_len: usize) -> Want {
        if n == 0 {
            return Want::IncompleteType;
        }
        let b0 = b[0];
        if b0 & 0x80 == 0 {
            if n - 1 < dcid_len {
                return Want::IncompleteHeader;
            }
            let remain = n - 1 - dcid_len;
            if remain < 20 {
                return Want::UnderSampling(remain);
            }
            return Want::Short { offset: 1 + dcid_len };
        }
        if n < 5 {
            return Want::IncompleteType;
        }
        let version = u32::from_be_bytes([b[1], b[2], b[3], b[4]]);
        if version > 1 {
            return Want::UnsupportedVersion(version);
        }
        if version == 1 && b0 & 0x40 == 0 {
            return Want::InvalidFixedBit;
        }
        let mut pos = 5;
        // DCID, SCID
        let mut k = 0;
        while k < 2 {
            if pos >= n {
                return Want::IncompleteHeader;
            }
            let l = b[pos] as usize;
            if l > 20 {
                return Want::CidTooLong;
            }
            if pos + 1 + l > n {
                return Want::IncompleteHeader;
            }
            pos += 1 + l;
            k += 1;
        }
        if version == 0 {
            return if (n - pos) % 4 == 0 { Want::Vn } else { Want::IncompleteHeader };
        }
        let kind = (b0 & 0x30) >> 4;
        if kind == 3 {
            return if n - pos < 16 { Want::IncompleteHeader } else { Want::Retry };
        }
        if kind == 0 {
            match spec_varint(b, pos, n) {
                None => return Want::IncompleteHeader,
                Some((tl, w)) => {
                    pos += w;
                    if ((n - pos) as u64) < tl {
                        return Want::IncompleteHeader;
                    }
                    pos += tl as usize;
                }
            }
        }
        match spec_varint(b, pos, n) {
            None => Want::IncompleteHeader,
            Some((pl, w)) => {
                pos += w;
                if ((n - pos) as u64) < pl {
                    Want::IncompleteHeader
                } else if pl < 20 {
                    Want::UnderSampling(pl as usize)
                } else {
                    Want::Long { kind, offset: pos, len: pos + pl as usize }
                }
            }
        }
    }

    fn cid_is(cid: &ConnectionId, b: &[u8; N], at: usize) -> bool {
        let l = b[at] as usize;
        cid.len() == l && cid[..] == b[at + 1..at + 1 + l]
    }

    /// shared body: run the real `be_packet` on `b[..n]` and compare with the reference.
    fn check_be_packet(b: &[u8; N], n: usize, dcid_len: usize, want: Want) {
        let mut dg = BytesMut::from(&b[..n]);
        let r = be_packet(&mut dg, dcid_len);
        match r {
            Ok(Packet::Data(p)) => {
                // the precondition of remove_protection_of_{long,short}_packet / decrypt_packet (unit
                // harnesses in decrypt.rs): 1 <= offset and offset + 4 + 16 <= bytes.len()
                assert!(p.offset >= 1, "C03.packet.be_packet.data.offset_ge_1");
                assert!(p.offset + 20 <= p.bytes.len(), "C03.packet.be_packet.data.offset_plus_20_inside_packet");
                assert!(p.bytes.len() <= n && p.bytes.len() + dg.len() == n, "C03.packet.be_packet.data.splits_datagram_without_loss");
                assert!(p.bytes[..] == b[..p.bytes.len()], "C03.packet.be_packet.data.packet_bytes_are_datagram_prefix");
                assert!(dg[..] == b[p.bytes.len()..n], "C03.packet.be_packet.data.rest_is_datagram_suffix");
                match (&p.header, want) {
                    (DataHeader::Short(h), Want::Short { offset }) => {
                        assert!(p.offset == offset && p.bytes.len() == n, "C03.packet.be_packet.short.offset_and_extent");
                        assert!(h.dcid().len() == dcid_len && h.dcid()[..] == b[1..1 + dcid_len], "C03.packet.be_packet.short.dcid_is_wire_bytes");
                        assert!((h.spin() == SpinBit::One) == (b[0] & 0x20 != 0), "C03.packet.be_packet.short.spin_bit");
                    }
                    (DataHeader::Long(lh), Want::Long { kind, offset, len }) => {
                        assert!(p.offset == offset && p.bytes.len() == len, "C03.packet.be_packet.long.offset_and_extent");
                        let k = match lh {
                            long::DataHeader::Initial(_) => 0,
                            long::DataHeader::ZeroRtt(_) => 1,
                            long::DataHeader::Handshake(_) => 2,
                        };
                        assert!(k == kind, "C03.packet.be_packet.long.type_bits");
                        let dl = b[5] as usize;
                        assert!(cid_is(lh.dcid(), b, 5) && cid_is(lh.scid(), b, 6 + dl), "C03.packet.be_packet.long.cids_are_wire_bytes");
                    }
                    _ => assert!(false, "C03.packet.be_packet.data_iff_rfc_data_packet"),
                }
            }
            Ok(Packet::VN(h)) => {
                assert!(want == Want::Vn, "C03.packet.be_packet.vn_iff_version_0_and_whole_versions");
                assert!(dg.is_empty(), "C03.packet.be_packet.vn.consumes_datagram");
                let dl = b[5] as usize;
                let sl = b[6 + dl] as usize;
                assert!(cid_is(h.dcid(), b, 5) && cid_is(h.scid(), b, 6 + dl), "C03.packet.be_packet.vn.cids_are_wire_bytes");
                assert!(h.versions().len() * 4 == n - (7 + dl + sl), "C03.packet.be_packet.vn.version_count");
            }
            Ok(Packet::Retry(h)) => {
                assert!(want == Want::Retry, "C03.packet.be_packet.retry_iff_type_3_and_tag_present");
                assert!(dg.is_empty(), "C03.packet.be_packet.retry.consumes_datagram");
                let dl = b[5] as usize;
                let sl = b[6 + dl] as usize;
                assert!(cid_is(h.dcid(), b, 5) && cid_is(h.scid(), b, 6 + dl), "C03.packet.be_packet.retry.cids_are_wire_bytes");
                assert!(h.token().len() + 16 == n - (7 + dl + sl), "C03.packet.be_packet.retry.token_is_all_but_tag");
                assert!(h.integrity()[..] == b[n - 16..n], "C03.packet.be_packet.retry.tag_is_last_16");
            }
            Err(Error::IncompleteType(_)) => assert!(want == Want::IncompleteType, "C03.packet.be_packet.err.incomplete_type"),
            Err(Error::InvalidFixedBit) => assert!(want == Want::InvalidFixedBit, "C03.packet.be_packet.err.invalid_fixed_bit"),
            Err(Error::UnsupportedVersion(v)) => assert!(want == Want::UnsupportedVersion(v), "C03.packet.be_packet.err.unsupported_version"),
            Err(Error::IncompleteHeader(..)) => assert!(want == Want::IncompleteHeader, "C03.packet.be_packet.err.incomplete_header"),
            Err(Error::UnderSampling(_, got)) => assert!(want == Want::UnderSampling(got), "C03.packet.be_packet.err.under_sampling"),
            Err(_) => assert!(false, "C03.packet.be_packet.err.no_other_error"),
        }
    }

    /// `be_packet` on every datagram of up to N bytes whose connection-id length bytes are legal:
    /// never panics (three `unreachable!` arms, `BytesMut::split_to`, slice arithmetic), classifies
    /// exactly as RFC 9000 §17 does, returns payload offsets inside the packet, splits the datagram
    /// without loss or duplication.
    #[kani::proof]
    #[kani::unwind(82)]
    fn be_packet_contract() {
        let b: [u8; N] = kani::any();
        let n: usize = kani::any();
        kani::assume(n <= N);
        let dcid_len: usize = kani::any();
        kani::assume(dcid_len <= 20); // precondition of be_one_rtt_header -> ConnectionId::from_slice; the only caller passes 8
        let want = spec_packet(&b, n, dcid_len);
        // KNOWN FINDING excluded here, pinned by `be_packet_cid_len_over_20` below: a long header whose
        // DCID/SCID length byte exceeds 20 makes be_header return nom::Err::Error(TooLarge), which
        // be_packet maps to `unreachable!(..)` instead of dropping the datagram.
        kani::assume(want != Want::CidTooLong);
        check_be_packet(&b, n, dcid_len, want);
        kani::cover!(matches!(want, Want::Short { .. }), "C03.packet.be_packet.reach_short");
        kani::cover!(matches!(want, Want::Long { kind: 0, .. }), "C03.packet.be_packet.reach_initial");
        kani::cover!(matches!(want, Want::Long { kind: 1, .. }), "C03.packet.be_packet.reach_zero_rtt");
        kani::cover!(matches!(want, Want::Long { kind: 2, .. }), "C03.packet.be_packet.reach_handshake");
        kani::cover!(matches!(want, Want::Long { kind: 0, len, .. } if len < n), "C03.packet.be_packet.reach_coalesced");
        kani::cover!(want == Want::Vn, "C03.packet.be_packet.reach_vn");
        kani::cover!(want == Want::Retry, "C03.packet.be_packet.reach_retry");
        kani::cover!(want == Want::IncompleteType, "C03.packet.be_packet.reach_incomplete_type");
        kani::cover!(want == Want::IncompleteHeader, "C03.packet.be_packet.reach_incomplete_header");
        kani::cover!(want == Want::InvalidFixedBit, "C03.packet.be_packet.reach_invalid_fixed_bit");
        kani::cover!(matches!(want, Want::UnsupportedVersion(_)), "C03.packet.be_packet.reach_unsupported_version");
        kani::cover!(matches!(want, Want::UnderSampling(19)), "C03.packet.be_packet.reach_under_sampling_19");
    }

    /// the excluded region: RFC 9000 §17.2 says such a datagram is dropped; the obligation is that
    /// `be_packet` returns an `Err` (any) instead of panicking.
    #[kani::proof]
    #[kani::unwind(82)]
    fn be_packet_cid_len_over_20() {
        let b: [u8; N] = kani::any();
        let n: usize = kani::any();
        kani::assume(n <= 8);
        let dcid_len: usize = kani::any();
        kani::assume(dcid_len <= 20);
        kani::assume(spec_packet(&b, n, dcid_len) == Want::CidTooLong);
        let mut dg = BytesMut::from(&b[..n]);
        let r = be_packet(&mut dg, dcid_len);
        assert!(r.is_err(), "C03.packet.be_packet.cid_len_over_20.is_dropped");
        kani::cover!(n == 6, "C03.packet.be_packet.cid_len_over_20.reach_6_byte_datagram");
    }
}
