// ---- spliced by /verif (contracts/c03_packet_decode) : contracts on the real datagram -> packet reader --
// Reference: RFC 8999 §5 (invariants), RFC 9000 §17.2 (long header: first byte, Version(32), DCID Len(8),
// DCID(0..160), SCID Len(8), SCID(0..160), type-specific part, Length(i), payload), §17.2.1 (Version
// Negotiation), §17.2.5 (Retry: token + 128-bit integrity tag), §17.3.1 (1-RTT: first byte, DCID of the
// locally known length, payload = rest of the datagram), RFC 9001 §5.4.2 (a packet must leave 4 + 16 bytes
// after the start of the packet-number field for the header-protection sample).
//
// Structure (modular): `be_packet` = `be_packet_type` ; `be_header` ; `be_payload` + glue.
//   * type_total_contract            : be_packet_type, every first byte / version, every truncation
//   * header_<type>_contract (x6)    : be_header for one packet type each, every truncation
//   * payload_contract               : be_payload (Length varint + payload extent + sampling rule)
//   * be_packet_glue_contract        : the REAL be_packet with be_packet_type / be_header replaced by
//                                      stubs that return *any* result permitted by the clauses proved in
//                                      the harnesses above (be_payload and all BytesMut handling stay real)
//   * be_packet_cid_len_over_20*     : confined to the recorded finding
#[cfg(kani)]
mod verif_c03_packet {
    use super::*;
    use crate::packet::r#type::long::{Type as LongTy, Ver1};
    use crate::packet::r#type::short::OneRtt;

    /// error *message* text is not part of any contract; formatting it symbolically costs minutes
    fn noop_fmt_write(_o: &mut dyn core::fmt::Write, _a: core::fmt::Arguments<'_>) -> core::fmt::Result {
        Ok(())
    }

    // ------------------------------------------------------------------------------------------
    // be_packet_type
    // ------------------------------------------------------------------------------------------

    /// RFC 8999 §5.1 / RFC 9000 §17.2, §17.3.1: every byte string of length 0..=6.
    #[kani::proof]
    #[kani::unwind(6)]
    fn type_total_contract() {
        let b: [u8; 6] = kani::any();
        let n: usize = kani::any();
        kani::assume(n <= 6);
        let input = &b[..n];
        let long = b[0] & 0x80 != 0;
        let version = u32::from_be_bytes([b[1], b[2], b[3], b[4]]);
        match be_packet_type(input) {
            Ok((rest, ty)) => {
                if !long {
                    assert!(n >= 1 && rest.len() + 1 == n, "C03.packet.type.short_consumes_1");
                    let spin = if b[0] & 0x20 != 0 { SpinBit::One } else { SpinBit::Zero };
                    assert!(ty == Type::Short(OneRtt(spin)), "C03.packet.type.short_iff_form_bit_0_spin_is_bit5");
                } else {
                    assert!(n >= 5 && rest.len() + 5 == n, "C03.packet.type.long_consumes_5");
                    let want = match (version, (b[0] & 0x30) >> 4) {
                        (0, _) => LongTy::VersionNegotiation,
                        (_, 0) => LongTy::V1(Ver1::INITIAL),
                        (_, 1) => LongTy::V1(Ver1::ZERO_RTT),
                        (_, 2) => LongTy::V1(Ver1::HANDSHAKE),
                        _ => LongTy::V1(Ver1::RETRY),
                    };
                    assert!(version <= 1, "C03.packet.type.long_ok_only_version_0_or_1");
                    assert!(version == 0 || b[0] & 0x40 != 0, "C03.packet.type.v1_ok_only_with_fixed_bit");
                    assert!(ty == Type::Long(want), "C03.packet.type.long_type_bits");
                }
                assert!(core::ptr::eq(rest.as_ptr(), input[n - rest.len()..].as_ptr()), "C03.packet.type.rest_is_suffix_of_input");
                assert!(ty.encoding_size() == n - rest.len(), "C05.packet.type.announced_size_is_consumed_size");
            }
            Err(nom::Err::Incomplete(_)) => assert!(n == 0 || (long && n < 5), "C03.packet.type.incomplete_only_if_short_input"),
            Err(nom::Err::Error(e)) => {
                assert!(long && n >= 5, "C03.packet.type.error_only_on_complete_long_type");
                match e {
                    Error::InvalidFixedBit => assert!(version == 1 && b[0] & 0x40 == 0, "C03.packet.type.invalid_fixed_bit_iff_v1_and_bit_clear"),
                    Error::UnsupportedVersion(v) => assert!(v == version && version > 1, "C03.packet.type.unsupported_version_iff_version_gt_1"),
                    _ => assert!(false, "C03.packet.type.no_other_error"),
                }
            }
            Err(nom::Err::Failure(_)) => assert!(false, "C03.packet.type.no_failure"),
        }
        kani::cover!(n == 0, "C03.packet.type.reach_empty");
        kani::cover!(!long && n == 1, "C03.packet.type.reach_short");
        kani::cover!(long && n == 4, "C03.packet.type.reach_long_truncated");
        kani::cover!(long && n == 6 && version == 0, "C03.packet.type.reach_vn");
        kani::cover!(long && n == 5 && version == 1 && b[0] & 0x40 == 0, "C03.packet.type.reach_invalid_fixed_bit");
        kani::cover!(long && n == 5 && version == 0xff00_001d, "C03.packet.type.reach_unsupported_version");
        kani::cover!(long && n == 5 && version == 1 && b[0] == 0xff, "C03.packet.type.reach_retry");
    }

    // ------------------------------------------------------------------------------------------
    // be_header, one packet type per harness
    // ------------------------------------------------------------------------------------------

    #[derive(PartialEq, Eq, Clone, Copy)]
    enum Cids {
        Incomplete,
        /// RFC 9000 §17.2: a length byte above 20 -- the packet MUST be dropped
        TooLong,
        /// both ids present; `dl`, `sl` their lengths, `pos` = first byte behind the SCID
        Ok { dl: usize, sl: usize, pos: usize },
    }

    /// reference reading of DCID Len / DCID / SCID Len / SCID at the start of `b[..n]`
    fn spec_cids<const M: usize>(b: &[u8; M], n: usize) -> Cids {
        if n == 0 {
            return Cids::Incomplete;
        }
        let dl = b[0] as usize;
        if dl > 20 {
            return Cids::TooLong;
        }
        if 1 + dl >= n {
            // DCID incomplete, or no SCID length byte
            return Cids::Incomplete;
        }
        let sl = b[1 + dl] as usize;
        if sl > 20 {
            return Cids::TooLong;
        }
        if 2 + dl + sl > n {
            return Cids::Incomplete;
        }
        Cids::Ok { dl, sl, pos: 2 + dl + sl }
    }

    /// RFC 9000 §16 varint at `pos`, `None` if it is not completely inside `b[..n]`
    fn spec_varint<const M: usize>(b: &[u8; M], pos: usize, n: usize) -> Option<(u64, usize)> {
        if pos >= n {
            return None;
        }
        let w = 1usize << (b[pos] >> 6);
        if pos + w > n {
            return None;
        }
        let mut v = (b[pos] & 0x3f) as u64;
        let mut i = 1;
        while i < w {
            v = (v << 8) | b[pos + i] as u64;
            i += 1;
        }
        Some((v, w))
    }

    /// cid equals the wire bytes `b[at+1 .. at+1+b[at]]` (checked at an arbitrary index: no loop)
    fn cid_is_wire<const M: usize>(cid: &ConnectionId, b: &[u8; M], at: usize) -> bool {
        let l = b[at] as usize;
        let i: usize = kani::any();
        cid.len() == l && (i >= l || cid[i] == b[at + 1 + i])
    }

    /// clauses common to all long headers; returns the reference position behind the SCID when the
    /// result is `Ok`
    fn check_long_common<const M: usize>(b: &[u8; M], n: usize, r: &nom::IResult<&[u8], Header>, cids: Cids) {
        match r {
            Ok((_, h)) => {
                assert!(matches!(cids, Cids::Ok { .. }), "C03.packet.header.long.ok_only_if_both_cids_present_and_le_20");
                let dl = b[0] as usize;
                let (dcid, scid) = match h {
                    Header::VN(h) => (*h.dcid(), *h.scid()),
                    Header::Retry(h) => (*h.dcid(), *h.scid()),
                    Header::Initial(h) => (*h.dcid(), *h.scid()),
                    Header::ZeroRtt(h) => (*h.dcid(), *h.scid()),
                    Header::Handshake(h) => (*h.dcid(), *h.scid()),
                    Header::OneRtt(_) => {
                        assert!(false, "C03.packet.header.long.never_yields_short_header");
                        return;
                    }
                };
                assert!(cid_is_wire(&dcid, b, 0), "C03.packet.header.long.dcid_is_wire_bytes");
                assert!(cid_is_wire(&scid, b, 1 + dl), "C03.packet.header.long.scid_is_wire_bytes");
            }
            Err(nom::Err::Incomplete(_)) => {
                assert!(cids != Cids::TooLong, "C03.packet.header.long.cid_len_over_20_is_not_incomplete");
            }
            Err(nom::Err::Error(e)) => {
                // the ONLY non-Incomplete error of be_header; be_packet's `unreachable!` arm assumes it away
                assert!(cids == Cids::TooLong, "C03.packet.header.long.error_iff_cid_len_over_20");
                assert!(e.code == nom::error::ErrorKind::TooLarge, "C03.packet.header.long.sup.error_kind_too_large");
            }
            Err(nom::Err::Failure(_)) => assert!(false, "C03.packet.header.long.no_failure"),
        }
        let _ = n;
    }

    fn rest_at(input: &[u8], rest: &[u8], pos: usize) -> bool {
        pos <= input.len() && rest.len() == input.len() - pos && core::ptr::eq(rest.as_ptr(), input[pos..].as_ptr())
    }

    /// Handshake and 0-RTT: nothing behind the connection ids belongs to the header.
    #[kani::proof]
    #[kani::unwind(3)]
    fn header_handshake_zero_rtt_contract() {
        const M: usize = 46;
        let b: [u8; M] = kani::any();
        let n: usize = kani::any();
        kani::assume(n <= M);
        let input = &b[..n];
        let hs: bool = kani::any();
        let ty = if hs { LongTy::V1(Ver1::HANDSHAKE) } else { LongTy::V1(Ver1::ZERO_RTT) };
        let cids = spec_cids(&b, n);
        let r = be_header(Type::Long(ty), kani::any(), input);
        check_long_common(&b, n, &r, cids);
        match (&r, cids) {
            (Ok((rest, h)), Cids::Ok { pos, .. }) => {
                assert!(matches!(h, Header::Handshake(_)) == hs && matches!(h, Header::ZeroRtt(_)) == !hs, "C03.packet.header.hs0rtt.variant_matches_type");
                assert!(rest_at(input, rest, pos), "C03.packet.header.hs0rtt.rest_starts_behind_scid");
            }
            (Err(nom::Err::Incomplete(_)), c) => assert!(c == Cids::Incomplete, "C03.packet.header.hs0rtt.incomplete_iff_cids_truncated"),
            _ => {}
        }
        kani::cover!(matches!(cids, Cids::Ok { dl: 20, sl: 20, .. }), "C03.packet.header.hs0rtt.reach_max_cids");
        kani::cover!(matches!(cids, Cids::Ok { dl: 0, sl: 0, pos: 2 }) && n == 2, "C03.packet.header.hs0rtt.reach_empty_cids");
        kani::cover!(cids == Cids::TooLong && n == 1, "C03.packet.header.hs0rtt.reach_dcid_len_over_20");
        kani::cover!(cids == Cids::TooLong && b[0] == 0, "C03.packet.header.hs0rtt.reach_scid_len_over_20");
        kani::cover!(cids == Cids::Incomplete && n == 41, "C03.packet.header.hs0rtt.reach_truncated");
    }

    /// Initial: Token Length (i) + Token behind the connection ids (RFC 9000 §17.2.2).
    #[kani::proof]
    #[kani::unwind(9)]
    fn header_initial_contract() {
        const M: usize = 56;
        let b: [u8; M] = kani::any();
        let n: usize = kani::any();
        kani::assume(n <= M);
        let input = &b[..n];
        let cids = spec_cids(&b, n);
        let r = be_header(Type::Long(LongTy::V1(Ver1::INITIAL)), kani::any(), input);
        check_long_common(&b, n, &r, cids);
        if let Cids::Ok { pos, .. } = cids {
            let tok = spec_varint(&b, pos, n);
            match (&r, tok) {
                (Ok((rest, Header::Initial(h))), Some((tl, w))) => {
                    assert!(tl <= (n - pos - w) as u64, "C03.packet.header.initial.ok_only_if_token_available");
                    let tl = tl as usize;
                    assert!(h.token().len() == tl, "C03.packet.header.initial.token_len_is_wire_len");
                    let i: usize = kani::any();
                    assert!(i >= tl || h.token()[i] == b[pos + w + i], "C03.packet.header.initial.token_is_wire_bytes");
                    assert!(rest_at(input, rest, pos + w + tl), "C03.packet.header.initial.rest_starts_behind_token");
                }
                (Ok(_), _) => assert!(false, "C03.packet.header.initial.variant_matches_type"),
                (Err(nom::Err::Incomplete(_)), Some((tl, w))) => assert!(tl > (n - pos - w) as u64, "C03.packet.header.initial.incomplete_only_if_token_truncated"),
                (Err(nom::Err::Incomplete(_)), None) => {}
                (Err(_), _) => assert!(false, "C03.packet.header.initial.err_is_incomplete_when_cids_ok"),
            }
        } else {
            assert!(r.is_err(), "C03.packet.header.initial.err_if_cids_bad");
        }
        kani::cover!(matches!(cids, Cids::Ok { dl: 20, sl: 20, .. }) && r.is_ok(), "C03.packet.header.initial.reach_max_cids_ok");
        kani::cover!(matches!(cids, Cids::Ok { pos: 2, .. }) && b[2] == 0x7f && r.is_err(), "C03.packet.header.initial.reach_token_len_16383_truncated");
        kani::cover!(matches!(cids, Cids::Ok { pos: 2, .. }) && b[2] >= 0xc0 && n >= 10 && r.is_err(), "C03.packet.header.initial.reach_huge_token_len");
        kani::cover!(matches!(cids, Cids::Ok { pos: 2, .. }) && b[2] == 40 && r.is_ok(), "C03.packet.header.initial.reach_token_40");
        kani::cover!(matches!(cids, Cids::Ok { pos: 2, .. }) && b[2] == 0x40 && b[3] == 5 && r.is_ok(), "C03.packet.header.initial.reach_nonminimal_token_len");
        kani::cover!(cids == Cids::TooLong, "C03.packet.header.initial.reach_cid_len_over_20");
    }

    /// Retry: everything behind the connection ids is token || 128-bit integrity tag (RFC 9000 §17.2.5).
    #[kani::proof]
    #[kani::unwind(3)]
    fn header_retry_contract() {
        const M: usize = 64;
        let b: [u8; M] = kani::any();
        let n: usize = kani::any();
        kani::assume(n <= M);
        let input = &b[..n];
        let cids = spec_cids(&b, n);
        let r = be_header(Type::Long(LongTy::V1(Ver1::RETRY)), kani::any(), input);
        check_long_common(&b, n, &r, cids);
        if let Cids::Ok { pos, .. } = cids {
            match &r {
                Ok((rest, Header::Retry(h))) => {
                    assert!(n - pos >= 16, "C03.packet.header.retry.ok_only_if_tag_present");
                    assert!(rest.is_empty(), "C03.packet.header.retry.consumes_whole_datagram");
                    assert!(h.token().len() + 16 == n - pos, "C03.packet.header.retry.token_is_all_but_tag");
                    let i: usize = kani::any();
                    assert!(i >= h.token().len() || h.token()[i] == b[pos + i], "C03.packet.header.retry.token_is_wire_bytes");
                    let j: usize = kani::any();
                    assert!(j >= 16 || h.integrity()[j] == b[n - 16 + j], "C03.packet.header.retry.tag_is_last_16_bytes");
                }
                Ok(_) => assert!(false, "C03.packet.header.retry.variant_matches_type"),
                Err(nom::Err::Incomplete(_)) => assert!(n - pos < 16, "C03.packet.header.retry.incomplete_only_if_no_tag"),
                Err(_) => assert!(false, "C03.packet.header.retry.err_is_incomplete_when_cids_ok"),
            }
        } else {
            assert!(r.is_err(), "C03.packet.header.retry.err_if_cids_bad");
        }
        kani::cover!(matches!(cids, Cids::Ok { dl: 20, sl: 20, .. }) && r.is_ok(), "C03.packet.header.retry.reach_max_cids_ok");
        kani::cover!(matches!(cids, Cids::Ok { pos: 2, .. }) && n == 18, "C03.packet.header.retry.reach_empty_token");
        kani::cover!(matches!(cids, Cids::Ok { pos: 2, .. }) && n == 17, "C03.packet.header.retry.reach_no_tag");
        kani::cover!(cids == Cids::TooLong, "C03.packet.header.retry.reach_cid_len_over_20");
    }

    /// Version Negotiation: behind the ids a list of 32-bit versions up to the end of the datagram
    /// (RFC 9000 §17.2.1); a trailing partial version makes the packet incomplete.
    #[kani::proof]
    #[kani::unwind(9)]
    fn header_vn_contract() {
        const M: usize = 30; // <= 7 versions: many_till loop <= 8 iterations
        let b: [u8; M] = kani::any();
        let n: usize = kani::any();
        kani::assume(n <= M);
        let input = &b[..n];
        let cids = spec_cids(&b, n);
        let r = be_header(Type::Long(LongTy::VersionNegotiation), kani::any(), input);
        check_long_common(&b, n, &r, cids);
        if let Cids::Ok { pos, .. } = cids {
            match &r {
                Ok((rest, Header::VN(h))) => {
                    assert!((n - pos) % 4 == 0, "C03.packet.header.vn.ok_only_if_whole_versions");
                    assert!(rest.is_empty(), "C03.packet.header.vn.consumes_whole_datagram");
                    assert!(h.versions().len() * 4 == n - pos, "C03.packet.header.vn.version_count");
                    let i: usize = kani::any();
                    if i < h.versions().len() {
                        let p = pos + 4 * i;
                        assert!(h.versions()[i] == u32::from_be_bytes([b[p], b[p + 1], b[p + 2], b[p + 3]]), "C03.packet.header.vn.versions_are_wire_words");
                    }
                }
                Ok(_) => assert!(false, "C03.packet.header.vn.variant_matches_type"),
                Err(nom::Err::Incomplete(_)) => assert!((n - pos) % 4 != 0, "C03.packet.header.vn.incomplete_only_if_partial_version"),
                Err(_) => assert!(false, "C03.packet.header.vn.err_is_incomplete_when_cids_ok"),
            }
        } else {
            assert!(r.is_err(), "C03.packet.header.vn.err_if_cids_bad");
        }
        kani::cover!(matches!(cids, Cids::Ok { pos: 2, .. }) && n == 30 && r.is_ok(), "C03.packet.header.vn.reach_7_versions");
        kani::cover!(matches!(cids, Cids::Ok { pos: 2, .. }) && n == 2 && r.is_ok(), "C03.packet.header.vn.reach_no_versions");
        kani::cover!(matches!(cids, Cids::Ok { pos: 2, .. }) && n == 5, "C03.packet.header.vn.reach_partial_version");
        kani::cover!(matches!(cids, Cids::Ok { dl: 20, sl: 4, .. }) && r.is_ok(), "C03.packet.header.vn.reach_long_dcid");
        kani::cover!(cids == Cids::TooLong, "C03.packet.header.vn.reach_cid_len_over_20");
    }

    /// 1-RTT: DCID of the locally configured length, nothing else (RFC 9000 §17.3.1).
    #[kani::proof]
    #[kani::unwind(3)]
    fn header_short_contract() {
        const M: usize = 24;
        let b: [u8; M] = kani::any();
        let n: usize = kani::any();
        kani::assume(n <= M);
        let input = &b[..n];
        let dcid_len: usize = kani::any();
        kani::assume(dcid_len <= 20); // precondition (ConnectionId::from_slice); the only caller passes the constant 8
        let spin = if kani::any() { SpinBit::One } else { SpinBit::Zero };
        match be_header(Type::Short(OneRtt(spin)), dcid_len, input) {
            Ok((rest, Header::OneRtt(h))) => {
                assert!(n >= dcid_len, "C03.packet.header.short.ok_only_if_dcid_available");
                assert!(rest_at(input, rest, dcid_len), "C03.packet.header.short.rest_starts_behind_dcid");
                assert!(h.spin() == spin, "C03.packet.header.short.spin_from_type");
                let i: usize = kani::any();
                assert!(h.dcid().len() == dcid_len && (i >= dcid_len || h.dcid()[i] == b[i]), "C03.packet.header.short.dcid_is_wire_bytes");
            }
            Ok(_) => assert!(false, "C03.packet.header.short.variant_matches_type"),
            Err(nom::Err::Incomplete(_)) => assert!(n < dcid_len, "C03.packet.header.short.incomplete_only_if_dcid_truncated"),
            Err(_) => assert!(false, "C03.packet.header.short.err_is_incomplete_only"),
        }
        kani::cover!(dcid_len == 20 && n == 20, "C03.packet.header.short.reach_dcid_20_exact");
        kani::cover!(dcid_len == 0 && n == 0, "C03.packet.header.short.reach_dcid_0_empty");
        kani::cover!(dcid_len == 8 && n == 7, "C03.packet.header.short.reach_truncated");
    }
}
