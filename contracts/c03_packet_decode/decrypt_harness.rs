// ---- spliced by /verif (contracts/c03_packet_decode) : contracts on header-protection removal ----------
// RFC 9001 §5.4: the sample is 16 bytes taken 4 bytes behind the start of the packet-number field; the
// mask covers the low 4 (long) / 5 (short) bits of the first byte and up to 4 packet-number bytes.
// RFC 9000 §17.2 / §17.3.1: after unmasking the reserved bits must be 0, else PROTOCOL_VIOLATION.
//
// Precondition of remove_protection_of_{long,short}_packet, established by the packet reader
// (clauses C03.packet.be_packet.data.offset_ge_1 / .offset_plus_20_inside_packet, value passed unchanged
// through qinterface CipherPacket::new):   1 <= payload_offset  &&  payload_offset + 20 <= pkt_buf.len()
// and of the key: sample_len() <= 16 (RFC 9001 §5.4.2: 16 for every defined AEAD).
#[cfg(kani)]
mod verif_c03_decrypt {
    use super::*;

    /// header-protection key with an arbitrary mask and an arbitrary verdict
    struct AnyMaskKey {
        sample_len: usize,
        fail: bool,
        first_mask: u8,
        pn_mask: [u8; 4],
    }

    impl HeaderProtectionKey for AnyMaskKey {
        fn encrypt_in_place(&self, sample: &[u8], first: &mut u8, packet_number: &mut [u8]) -> Result<(), rustls::Error> {
            self.decrypt_in_place(sample, first, packet_number)
        }

        fn decrypt_in_place(&self, sample: &[u8], first: &mut u8, packet_number: &mut [u8]) -> Result<(), rustls::Error> {
            // what the callee is entitled to: the sample it asked for and at most 4 packet-number bytes
            assert!(sample.len() == self.sample_len, "C03.packet.unprotect.key_gets_sample_of_requested_length");
            assert!(packet_number.len() <= 4, "C03.packet.unprotect.key_gets_at_most_4_pn_bytes");
            if self.fail {
                return Err(rustls::Error::DecryptError);
            }
            *first ^= self.first_mask;
            let mut i = 0;
            while i < packet_number.len() {
                packet_number[i] ^= self.pn_mask[i];
                i += 1;
            }
            Ok(())
        }

        fn sample_len(&self) -> usize {
            self.sample_len
        }
    }

    /// the functions touch byte 0 and bytes payload_offset .. payload_offset + 4 + sample_len only
    const M: usize = 28;

    /// error *message* text is not part of the contract
    fn noop_fmt_write(_o: &mut dyn core::fmt::Write, _a: core::fmt::Arguments<'_>) -> core::fmt::Result {
        Ok(())
    }

    struct Setup {
        key: AnyMaskKey,
        orig: [u8; M],
        n: usize,
        off: usize,
    }

    fn setup() -> Setup {
        let key = AnyMaskKey { sample_len: kani::any(), fail: kani::any(), first_mask: kani::any(), pn_mask: kani::any() };
        kani::assume(key.sample_len <= 16); // RFC 9001 §5.4.2
        let n: usize = kani::any();
        let off: usize = kani::any();
        kani::assume(n <= M);
        kani::assume(off >= 1 && off <= M && off + 20 <= n); // the reader's postcondition (see header comment)
        Setup { key, orig: kani::any(), n, off }
    }

    /// bytes other than the first byte and the 4 packet-number-field bytes are never modified, and those
    /// five only by the key's mask
    fn frame_ok(s: &Setup, buf: &[u8; M], unmasked: bool) -> bool {
        let i: usize = kani::any();
        if i >= M {
            return true;
        }
        let want = if !unmasked {
            s.orig[i]
        } else if i == 0 {
            s.orig[0] ^ s.key.first_mask
        } else if i >= s.off && i < s.off + 4 {
            s.orig[i] ^ s.key.pn_mask[i - s.off]
        } else {
            s.orig[i]
        };
        buf[i] == want
    }

    fn wire_pn(buf: &[u8; M], off: usize, len: usize) -> u32 {
        let mut v = 0u32;
        let mut i = 0;
        while i < len {
            v = (v << 8) | buf[off + i] as u32;
            i += 1;
        }
        v
    }

    fn pn_value(pn: PacketNumber) -> u32 {
        match pn {
            PacketNumber::U8(x) => x as u32,
            PacketNumber::U16(x) => x as u32,
            PacketNumber::U24(x) => x,
            PacketNumber::U32(x) => x,
        }
    }

    #[kani::proof]
    #[kani::unwind(6)]
    #[kani::stub(core::fmt::write, noop_fmt_write)]
    fn remove_protection_long_contract() {
        let s = setup();
        let mut buf = s.orig;
        let r = remove_protection_of_long_packet(&s.key, &mut buf[..s.n], s.off);
        let first = s.orig[0] ^ s.key.first_mask;
        let (c_some, c_none, c_err) = (matches!(r, Ok(Some(_))), matches!(r, Ok(None)), r.is_err());
        let (c_pn4, c_pn1) = (matches!(r, Ok(Some(PacketNumber::U32(_)))), matches!(r, Ok(Some(PacketNumber::U8(_)))));
        match r {
            Ok(None) => {
                assert!(s.key.fail, "C03.packet.unprotect.long.none_iff_key_rejects");
                assert!(frame_ok(&s, &buf, false), "C03.packet.unprotect.long.reject_leaves_packet_untouched");
            }
            Ok(Some(pn)) => {
                assert!(!s.key.fail, "C03.packet.unprotect.long.none_iff_key_rejects");
                assert!(first & 0x0c == 0, "C03.packet.unprotect.long.ok_only_if_reserved_bits_zero");
                let len = (first & 0x03) as usize + 1;
                assert!(pn.size() == len, "C03.packet.unprotect.long.pn_len_from_low_2_bits");
                assert!(pn_value(pn) == wire_pn(&buf, s.off, len), "C03.packet.unprotect.long.pn_is_unmasked_wire_value");
                assert!(frame_ok(&s, &buf, true), "C03.packet.unprotect.long.only_first_byte_and_pn_field_change");
                // next step of the pipeline: decrypt_packet(pk, pn, buf, off + pn.size()) splits inside the packet
                assert!(s.off + pn.size() <= s.n, "C03.packet.unprotect.long.body_offset_inside_packet");
            }
            Err(e) => {
                assert!(!s.key.fail && first & 0x0c != 0, "C03.packet.unprotect.long.err_iff_reserved_bits_set");
                assert!(e == Error::InvalidReservedBits(first & 0x0c, 0x0c), "C03.packet.unprotect.long.err_is_invalid_reserved_bits");
            }
        }
        kani::cover!(s.off + 20 == s.n && s.key.sample_len == 16 && c_some, "C03.packet.unprotect.long.reach_minimal_packet");
        kani::cover!(c_pn4, "C03.packet.unprotect.long.reach_pn4");
        kani::cover!(c_pn1, "C03.packet.unprotect.long.reach_pn1");
        kani::cover!(c_err, "C03.packet.unprotect.long.reach_reserved_bits");
        kani::cover!(c_none, "C03.packet.unprotect.long.reach_key_rejects");
    }

    #[kani::proof]
    #[kani::unwind(6)]
    #[kani::stub(core::fmt::write, noop_fmt_write)]
    fn remove_protection_short_contract() {
        let s = setup();
        let mut buf = s.orig;
        let r = remove_protection_of_short_packet(&s.key, &mut buf[..s.n], s.off);
        let first = s.orig[0] ^ s.key.first_mask;
        let (c_some, c_none, c_err) = (matches!(r, Ok(Some(_))), matches!(r, Ok(None)), r.is_err());
        let c_pn3 = matches!(r, Ok(Some((PacketNumber::U24(_), KeyPhaseBit::One))));
        match r {
            Ok(None) => {
                assert!(s.key.fail, "C03.packet.unprotect.short.none_iff_key_rejects");
                assert!(frame_ok(&s, &buf, false), "C03.packet.unprotect.short.reject_leaves_packet_untouched");
            }
            Ok(Some((pn, kp))) => {
                assert!(!s.key.fail, "C03.packet.unprotect.short.none_iff_key_rejects");
                assert!(first & 0x18 == 0, "C03.packet.unprotect.short.ok_only_if_reserved_bits_zero");
                let len = (first & 0x03) as usize + 1;
                assert!(pn.size() == len, "C03.packet.unprotect.short.pn_len_from_low_2_bits");
                assert!(pn_value(pn) == wire_pn(&buf, s.off, len), "C03.packet.unprotect.short.pn_is_unmasked_wire_value");
                assert!((kp == KeyPhaseBit::One) == (first & 0x04 != 0), "C03.packet.unprotect.short.key_phase_is_bit_2");
                assert!(frame_ok(&s, &buf, true), "C03.packet.unprotect.short.only_first_byte_and_pn_field_change");
                assert!(s.off + pn.size() <= s.n, "C03.packet.unprotect.short.body_offset_inside_packet");
            }
            Err(e) => {
                assert!(!s.key.fail && first & 0x18 != 0, "C03.packet.unprotect.short.err_iff_reserved_bits_set");
                assert!(e == Error::InvalidReservedBits(first & 0x18, 0x18), "C03.packet.unprotect.short.err_is_invalid_reserved_bits");
            }
        }
        kani::cover!(s.off + 20 == s.n && s.key.sample_len == 16 && c_some, "C03.packet.unprotect.short.reach_minimal_packet");
        kani::cover!(c_pn3, "C03.packet.unprotect.short.reach_pn3_phase1");
        kani::cover!(c_err, "C03.packet.unprotect.short.reach_reserved_bits");
        kani::cover!(c_none, "C03.packet.unprotect.short.reach_key_rejects");
    }

    /// error mapping: the only error remove_protection_* returns (InvalidReservedBits, see
    /// *.err_is_invalid_reserved_bits) is converted by the caller (qinterface CipherPacket::decrypt_*_packet,
    /// `invalid_reverse_bits.into()`) into the connection error RFC 9000 §17.2 / §17.3.1 prescribes:
    /// PROTOCOL_VIOLATION; the conversion's `unreachable!()` arm is not reached for it.
    #[kani::proof]
    #[kani::unwind(3)]
    #[kani::stub(core::fmt::write, noop_fmt_write)]
    fn reserved_bits_error_mapping_contract() {
        let e = Error::InvalidReservedBits(kani::any(), kani::any());
        let q: crate::error::QuicError = e.into();
        assert!(q.kind() == crate::error::ErrorKind::ProtocolViolation, "C03.packet.unprotect.err_maps_to_protocol_violation");
    }

    /// packet key that "decrypts" to an arbitrary prefix of the body (the AEAD contract: plaintext is the
    /// body minus the tag) or rejects
    struct AnyPacketKey {
        fail: bool,
        plain_len: usize,
    }

    impl PacketKey for AnyPacketKey {
        fn encrypt_in_place(&self, _pn: u64, _header: &[u8], _payload: &mut [u8]) -> Result<rustls::quic::Tag, rustls::Error> {
            Err(rustls::Error::EncryptError)
        }

        fn decrypt_in_place<'a>(&self, _pn: u64, _header: &[u8], payload: &'a mut [u8]) -> Result<&'a [u8], rustls::Error> {
            if self.fail || self.plain_len > payload.len() {
                return Err(rustls::Error::DecryptError);
            }
            Ok(&payload[..self.plain_len])
        }

        fn confidentiality_limit(&self) -> u64 {
            0
        }

        fn integrity_limit(&self) -> u64 {
            0
        }

        fn tag_len(&self) -> usize {
            16
        }
    }

    /// `decrypt_packet` with body_offset = payload_offset + pn.size() (the only call shape): no slice panic,
    /// the reported body length stays inside the packet, failure is `DecryptPacketFailure` (the caller
    /// drops the packet).
    #[kani::proof]
    #[kani::unwind(3)]
    fn decrypt_packet_contract() {
        let mut buf: [u8; M] = kani::any();
        let n: usize = kani::any();
        let off: usize = kani::any();
        let pn_size: usize = kani::any();
        kani::assume(n <= M && off >= 1 && off <= M && off + 20 <= n); // reader's postcondition
        kani::assume(pn_size >= 1 && pn_size <= 4); // C03.packet.unprotect.*.pn_len_from_low_2_bits
        let key = AnyPacketKey { fail: kani::any(), plain_len: kani::any() };
        let body_offset = off + pn_size;
        match decrypt_packet(&key, kani::any(), &mut buf[..n], body_offset) {
            Ok(len) => {
                assert!(!key.fail && len == key.plain_len, "C03.packet.decrypt.ok_returns_plaintext_length");
                assert!(body_offset + len <= n, "C03.packet.decrypt.body_stays_inside_packet");
            }
            Err(e) => {
                assert!(key.fail || key.plain_len > n - body_offset, "C03.packet.decrypt.err_only_if_key_rejects");
                assert!(e == Error::DecryptPacketFailure, "C03.packet.decrypt.err_is_decrypt_failure");
            }
        }
        kani::cover!(off + 20 == n && pn_size == 4 && !key.fail && key.plain_len == 0, "C03.packet.decrypt.reach_minimal_packet_empty_body");
        kani::cover!(key.fail, "C03.packet.decrypt.reach_reject");
    }
}
