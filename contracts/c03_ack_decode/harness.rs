// ---- spliced by /verif (contracts/c03_ack_decode): decode totality of the ACK frame body on arbitrary bytes ----
#[cfg(kani)]
mod verif_c03_ack_decode {
    use super::*;
    use crate::varint::VarInt;
    //@include ../c03_param_decode/varint_spec.rs

    /// every byte string of 0..=12 bytes: the decoder returns (never panics, never allocates from an attacker-chosen
    /// count), `Ok` leaves a suffix of the input, failure is `Incomplete` (which be_frame maps to FRAME_ENCODING_ERROR).
    /// bound: 12 input bytes = largest, delay, count, first range and up to 4 (gap, range) pairs of 1-byte varints, or
    /// fewer wider ones; the loop consumes >= 2 bytes per iteration, so 7 unwindings cover every path.
    fn check(ecn: Ecn) {
        let buf: [u8; 12] = kani::any();
        let n: usize = kani::any();
        kani::assume(n <= 12);
        let r = ack_frame_with_ecn(ecn)(&buf[..n]);
        match &r {
            Ok((rest, f)) => {
                assert!(rest.len() <= n, "C03.frame.ack.decode.ok_leaves_a_suffix");
                assert!(n - rest.len() >= 4, "C03.frame.ack.decode.ok_consumed_at_least_the_four_fixed_fields");
                assert!(f.ranges.len() <= 4, "C03.frame.ack.decode.range_list_is_bounded_by_the_input_length");
            }
            Err(e) => {
                assert!(matches!(e, nom::Err::Incomplete(_)), "C03.frame.ack.decode.failure_is_incomplete_only");
            }
        }
        kani::cover!(r.is_ok(), "C03.frame.ack.decode.reach_ok");
        kani::cover!(r.is_err() && n >= 4, "C03.frame.ack.decode.reach_truncated_ranges");
    }

    #[kani::proof]
    #[kani::unwind(14)]
    #[kani::stub(crate::varint::be_varint, be_varint_spec)]
    fn ack_decode_total_no_ecn() {
        check(Ecn::None);
    }

    #[kani::proof]
    #[kani::unwind(14)]
    #[kani::stub(crate::varint::be_varint, be_varint_spec)]
    fn ack_decode_total_ecn() {
        check(Ecn::Exist);
    }
}
