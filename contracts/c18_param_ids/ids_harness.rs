// ---- spliced by /verif (contracts/c18_param_ids) : contracts on the macro-derived ParameterId tables ------
// The functions under contract are the *expanded* output of `#[derive(qmacro::ParameterId)]`
// (qmacro/src/derive.rs) on the real enum, plus the hand-written `ParameterId::belong_to`.
// Every expectation below is written from RFC 9000 §18.2 (+ RFC 9221 §3, RFC 9287 §3), not from the
// `#[param(...)]` attributes.
#[cfg(kani)]
mod verif_c18_param_ids {
    use super::*;

    /// one row of the RFC registry: wire type, who may send it, default (as integer / milliseconds)
    #[derive(Clone, Copy)]
    struct Row {
        ty: ParameterValueType,
        server_only: bool,
        client_only: bool,
        default: Option<u64>,
    }

    const fn row(ty: ParameterValueType, server_only: bool, default: Option<u64>) -> Option<Row> {
        Some(Row { ty, server_only, client_only: false, default })
    }

    /// RFC 9000 §18.2 table (0x00..=0x10), RFC 9221 (0x20), RFC 9287 (0x2ab2) and the project's one
    /// private extension (0xffee client_name: opaque bytes, sent by clients only).
    fn rfc_row(x: u64) -> Option<Row> {
        use ParameterValueType as T;
        match x {
            0x00 => row(T::ConnectionId, true, None),      // original_destination_connection_id
            0x01 => row(T::Duration, false, Some(0)),      // max_idle_timeout (ms), default 0 = none
            0x02 => row(T::ResetToken, true, None),        // stateless_reset_token
            0x03 => row(T::VarInt, false, Some(65527)),    // max_udp_payload_size
            0x04 => row(T::VarInt, false, Some(0)),        // initial_max_data
            0x05 => row(T::VarInt, false, Some(0)),        // initial_max_stream_data_bidi_local
            0x06 => row(T::VarInt, false, Some(0)),        // initial_max_stream_data_bidi_remote
            0x07 => row(T::VarInt, false, Some(0)),        // initial_max_stream_data_uni
            0x08 => row(T::VarInt, false, Some(0)),        // initial_max_streams_bidi
            0x09 => row(T::VarInt, false, Some(0)),        // initial_max_streams_uni
            0x0a => row(T::VarInt, false, Some(3)),        // ack_delay_exponent
            0x0b => row(T::Duration, false, Some(25)),     // max_ack_delay (ms)
            0x0c => row(T::Boolean, false, None),          // disable_active_migration
            0x0d => row(T::PreferredAddress, true, None),  // preferred_address
            0x0e => row(T::VarInt, false, Some(2)),        // active_connection_id_limit
            0x0f => row(T::ConnectionId, false, None),     // initial_source_connection_id
            0x10 => row(T::ConnectionId, true, None),      // retry_source_connection_id
            0x20 => row(T::VarInt, false, Some(0)),        // max_datagram_frame_size (RFC 9221)
            0x2ab2 => row(T::Boolean, false, None),        // grease_quic_bit (RFC 9287)
            0xffee => Some(Row { ty: T::Bytes, server_only: false, client_only: true, default: None }),
            _ => None,
        }
    }

    fn any_varint() -> VarInt {
        let x: u64 = kani::any();
        kani::assume(x <= VARINT_MAX); // type invariant of VarInt
        VarInt::from_u64(x).unwrap()
    }

    /// `ParameterId::try_from(VarInt)` / `VarInt::from(ParameterId)`: the set of known ids is exactly the
    /// registry above; unknown ids yield `UnknownParameterId` (which `parse_from_bytes` skips, RFC 9000 §7.4.2);
    /// id -> wire -> id is the identity.
    #[kani::proof]
    fn id_codec_contract() {
        let v = any_varint();
        let x = v.into_u64();
        match ParameterId::try_from(v) {
            Ok(id) => {
                assert!(rfc_row(x).is_some(), "C18.ids.try_from.known_only_if_registered");
                assert!(VarInt::from(id).into_u64() == x, "C05.param.id.wire_of_id_roundtrips");
                assert!(id as u64 == x, "C18.ids.try_from.sup.discriminant_is_wire_value");
            }
            Err(e) => {
                assert!(rfc_row(x).is_none(), "C18.ids.try_from.registered_is_known");
                assert!(
                    matches!(e, Error::UnknownParameterId(u) if u.into_u64() == x),
                    "C18.ids.try_from.unknown_reported_as_unknown"
                );
            }
        }
        kani::cover!(x == 0x00, "C18.ids.try_from.reach_odcid");
        kani::cover!(x == 0x10, "C18.ids.try_from.reach_retry_scid");
        kani::cover!(x == 0x11, "C18.ids.try_from.reach_first_unassigned");
        kani::cover!(x == 0x20, "C18.ids.try_from.reach_datagram");
        kani::cover!(x == 0x2ab2, "C18.ids.try_from.reach_grease");
        kani::cover!(x == 0xffee, "C18.ids.try_from.reach_ext");
        kani::cover!(x == VARINT_MAX, "C18.ids.try_from.reach_max");
    }

    /// any id of the real enum (through the real decoder, so that a variant added later is included)
    fn any_id() -> (ParameterId, Row) {
        let v = any_varint();
        let id = ParameterId::try_from(v);
        kani::assume(id.is_ok());
        let id = id.unwrap();
        let row = rfc_row(v.into_u64());
        kani::assume(row.is_some()); // established by id_codec_contract (known_only_if_registered)
        (id, row.unwrap())
    }

    /// `value_type` (decides which wire decoder `be_parameter_value` uses) and `default_value`
    /// (what `Parameters::get` yields for an absent parameter) agree with the registry.
    #[kani::proof]
    fn value_type_and_default_contract() {
        let (id, row) = any_id();
        assert!(id.value_type() == row.ty, "C18.ids.value_type.matches_rfc_wire_type");
        match (id.default_value(), row.default) {
            (None, None) => {}
            (Some(ParameterValue::VarInt(v)), Some(d)) => {
                assert!(row.ty == ParameterValueType::VarInt, "C18.ids.default.sup.kind_matches_type");
                assert!(v.into_u64() == d, "C18.ids.default.integer_default_is_rfc_default");
            }
            (Some(ParameterValue::Duration(t)), Some(d)) => {
                assert!(row.ty == ParameterValueType::Duration, "C18.ids.default.sup.kind_matches_type");
                assert!(t == Duration::from_millis(d), "C18.ids.default.time_default_is_rfc_default");
            }
            (Some(_), None) => {
                // the private extension 0xffee declares `default = 0u32` on a Bytes-typed parameter: a typed
                // `get::<String>` of it yields None, so it is observationally "no default". Anything else
                // having a default the RFC does not give is a contract failure.
                assert!(id == ParameterId::ClientName, "C18.ids.default.no_default_where_rfc_has_none");
            }
            _ => assert!(false, "C18.ids.default.default_present_where_rfc_has_one"),
        }
        kani::cover!(id == ParameterId::MaxIdleTimeout, "C18.ids.default.reach_idle");
        kani::cover!(id == ParameterId::MaxAckDelay, "C18.ids.default.reach_ack_delay");
        kani::cover!(id == ParameterId::MaxUdpPayloadSize, "C18.ids.default.reach_udp");
        kani::cover!(id == ParameterId::StatelessResetToken, "C18.ids.default.reach_token");
        kani::cover!(id == ParameterId::ClientName, "C18.ids.default.reach_ext");
    }

    /// `belong_to(role)`: `role` is the role of the endpoint that *sent* the parameter set
    /// (`Parameters::<R>::parse_from_bytes` passes `R::into_role()`, R = Client for a ClientHello).
    /// RFC 9000 §18.2: "A client MUST NOT include any server-only transport parameter:
    /// original_destination_connection_id, preferred_address, retry_source_connection_id, or
    /// stateless_reset_token. A server MUST treat receipt of any of these as TRANSPORT_PARAMETER_ERROR."
    #[kani::proof]
    fn belong_to_contract() {
        let (id, row) = any_id();
        let role = if kani::any() { Role::Client } else { Role::Server };
        let r = id.belong_to(role);
        if role == Role::Client && row.server_only {
            assert!(
                matches!(r, Err(Error::InvalidParameterId(i, ro)) if i == id && ro == Role::Client),
                "C18.ids.belong_to.server_only_from_client_rejected"
            );
        } else if role == Role::Server && row.client_only {
            assert!(
                matches!(r, Err(Error::InvalidParameterId(i, ro)) if i == id && ro == Role::Server),
                "C18.ids.belong_to.ext_client_only_from_server_rejected"
            );
        } else {
            assert!(r.is_ok(), "C18.ids.belong_to.permitted_id_accepted");
        }
        // the four ids named by the RFC, spelled out independently of the table above
        let named = matches!(
            id,
            ParameterId::OriginalDestinationConnectionId
                | ParameterId::PreferredAddress
                | ParameterId::RetrySourceConnectionId
                | ParameterId::StatelessResetToken
        );
        assert!(named == row.server_only, "C18.ids.belong_to.sup.table_names_the_four_server_only_ids");
        kani::cover!(role == Role::Client && id == ParameterId::OriginalDestinationConnectionId, "C18.ids.belong_to.reach_odcid_client");
        kani::cover!(role == Role::Client && id == ParameterId::PreferredAddress, "C18.ids.belong_to.reach_pa_client");
        kani::cover!(role == Role::Client && id == ParameterId::RetrySourceConnectionId, "C18.ids.belong_to.reach_rscid_client");
        kani::cover!(role == Role::Client && id == ParameterId::StatelessResetToken, "C18.ids.belong_to.reach_token_client");
        kani::cover!(role == Role::Server && id == ParameterId::StatelessResetToken, "C18.ids.belong_to.reach_token_server");
        kani::cover!(role == Role::Server && id == ParameterId::ClientName, "C18.ids.belong_to.reach_ext_server");
        kani::cover!(role == Role::Client && id == ParameterId::InitialSourceConnectionId, "C18.ids.belong_to.reach_iscid_client");
    }
}
