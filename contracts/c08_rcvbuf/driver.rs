// ---- spliced by /verif (contracts/c08_rcvbuf): paired native search for a failing input --------------
// Used ONLY after a proof obligation of the Verus unit has failed, to look for a concrete input on the real
// code; it never contributes a pass. Exhaustive small scope: one 6-byte source, every fragment that is a slice
// of it (28, including empty ones), interleaved with try_next, every operation sequence up to length 4.
#[cfg(test)]
mod verif_drv_c08 {
    use std::collections::BTreeMap;

    use super::*;

    #[derive(Clone, Copy, Debug)]
    enum Op {
        Recv(u64, u64),
        Next,
    }

    fn view(b: &RecvBuf) -> BTreeMap<u64, u8> {
        let mut m = BTreeMap::new();
        for s in b.segments.iter() {
            for (i, x) in s.data.iter().enumerate() {
                m.insert(s.offset + i as u64, *x);
            }
        }
        m
    }

    fn wf(b: &RecvBuf) -> Result<(), String> {
        let mut prev_end = b.nread;
        if b.nread > b.largest_offset {
            return Err("nread > largest_offset".into());
        }
        for s in b.segments.iter() {
            if s.data.is_empty() {
                return Err("empty segment".into());
            }
            if s.offset < prev_end {
                return Err(format!("segment at {} overlaps / precedes {}", s.offset, prev_end));
            }
            prev_end = s.offset + s.data.len() as u64;
            if prev_end > b.largest_offset {
                return Err("segment beyond largest_offset".into());
            }
        }
        Ok(())
    }

    fn run(ops: &[Op], src: &[u8]) -> Result<(), String> {
        let mut buf = RecvBuf::default();
        let mut model: BTreeMap<u64, u8> = BTreeMap::new();
        let mut read: Vec<u8> = vec![];
        let mut charged = 0u64;
        for (step, op) in ops.iter().enumerate() {
            let nread0 = buf.nread;
            let largest0 = buf.largest_offset;
            match *op {
                Op::Recv(off, len) => {
                    let data = Bytes::copy_from_slice(&src[off as usize..(off + len) as usize]);
                    let r = buf.recv(off, data);
                    for p in off.max(nread0)..off + len {
                        model.entry(p).or_insert(src[p as usize]);
                    }
                    let want_largest = if len > 0 { largest0.max(off + len) } else { largest0 };
                    if buf.largest_offset != want_largest {
                        return Err(format!("step {step}: largest_offset {} != {}", buf.largest_offset, want_largest));
                    }
                    if r != want_largest - largest0 {
                        return Err(format!("step {step}: recv returned {r}, expected {}", want_largest - largest0));
                    }
                    charged += r;
                    if buf.nread != nread0 {
                        return Err(format!("step {step}: recv changed nread"));
                    }
                }
                Op::Next => {
                    let readable = model.contains_key(&nread0);
                    if buf.is_readable() != readable {
                        return Err(format!("step {step}: is_readable {} but byte at nread buffered = {readable}", buf.is_readable()));
                    }
                    match buf.try_next() {
                        Some(b) => {
                            if !readable || b.is_empty() {
                                return Err(format!("step {step}: try_next returned {:?} with nothing readable", b));
                            }
                            for (k, x) in b.iter().enumerate() {
                                if model.remove(&(nread0 + k as u64)) != Some(*x) {
                                    return Err(format!("step {step}: try_next byte {k} = {x} not the buffered byte"));
                                }
                            }
                            if buf.nread != nread0 + b.len() as u64 {
                                return Err(format!("step {step}: nread not advanced by chunk length"));
                            }
                            read.extend_from_slice(&b);
                        }
                        None => {
                            if readable {
                                return Err(format!("step {step}: try_next = None although byte {nread0} is buffered"));
                            }
                        }
                    }
                    if buf.largest_offset != largest0 {
                        return Err(format!("step {step}: try_next changed largest_offset"));
                    }
                }
            }
            // (the representation invariant is deliberately NOT an oracle: only what a caller can observe counts)
            let _ = wf(&buf);
            if view(&buf) != model {
                return Err(format!("step {step}: buffered view {:?} != expected {:?}", view(&buf), model));
            }
            if read[..] != src[..read.len()] {
                return Err(format!("step {step}: bytes handed to the reader {:?} are not a prefix of the source", read));
            }
            if charged != buf.largest_offset {
                return Err(format!("step {step}: sum of reported growth {charged} != highest offset {}", buf.largest_offset));
            }
        }
        Ok(())
    }

    #[test]
    fn search() {
        // watchdog: a sequence that does not finish within 10 s is a hang of the real code ("never loops")
        use std::sync::{Arc, Mutex, atomic::{AtomicU64, Ordering}};
        let progress = Arc::new(AtomicU64::new(0));
        let current: Arc<Mutex<Vec<Op>>> = Arc::new(Mutex::new(vec![]));
        let (p2, c2) = (progress.clone(), current.clone());
        let worker = std::thread::spawn(move || search_all(&p2, &c2));
        let mut last = 0;
        let mut stuck = 0;
        loop {
            std::thread::sleep(std::time::Duration::from_millis(500));
            if worker.is_finished() {
                break;
            }
            let now = progress.load(Ordering::Relaxed);
            if now == last {
                stuck += 1;
                if stuck >= 20 {
                    println!("VERIF-WITNESS property=C08 ops={:?} on src=[1, 2, 3, 4, 5, 6]: the real code does not return (no progress for 10 s)", current.lock().unwrap());
                    std::process::exit(1);
                }
            } else {
                stuck = 0;
                last = now;
            }
        }
        worker.join().unwrap();
    }

    fn search_all(progress: &std::sync::atomic::AtomicU64, current: &std::sync::Mutex<Vec<Op>>) {
        let src: Vec<u8> = (1..=6).collect();
        let mut alphabet = vec![Op::Next];
        for off in 0..=6u64 {
            for len in 0..=(6 - off) {
                alphabet.push(Op::Recv(off, len));
            }
        }
        let n = alphabet.len();
        let mut count = 0u64;
        for depth in 1..=4usize {
            let mut idx = vec![0usize; depth];
            loop {
                let ops: Vec<Op> = idx.iter().map(|i| alphabet[*i]).collect();
                count += 1;
                *current.lock().unwrap() = ops.clone();
                progress.store(count, std::sync::atomic::Ordering::Relaxed);
                if let Err(e) = std::panic::catch_unwind(|| run(&ops, &src)).unwrap_or_else(|_| Err("panicked".into())) {
                    println!("VERIF-WITNESS property=C08 ops={:?} on src={:?}: {}", ops, src, e);
                    std::process::exit(1);
                }
                let mut k = depth;
                loop {
                    if k == 0 {
                        break;
                    }
                    k -= 1;
                    idx[k] += 1;
                    if idx[k] < n {
                        break;
                    }
                    idx[k] = 0;
                    if k == 0 {
                        k = usize::MAX;
                        break;
                    }
                }
                if k == usize::MAX {
                    break;
                }
            }
        }
        println!("VERIF-SEARCH-DONE sequences={count} no failing input");
    }
}
