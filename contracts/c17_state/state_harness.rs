// ---- spliced by /verif (contracts/c17_state) : contracts on the real connection life-cycle state ---------
//
// Sequential contracts (Kani has no threads).  `update` is a compare-exchange loop on one AtomicU8: under
// contention every successful CAS is one atomic step `code -> max(code, new)`, so the sequential contract
// from an ARBITRARY code is the contract of each linearised step (argument, not proof, recorded in
// unit.json).  `enter_closing` / `enter_draining` are `update` followed by `SetOnce::set`: the window
// between the two is not at lock granularity and is NOT decided here.
#[cfg(kani)]
mod verif_c17_state {
    use qbase::{error::AppError, varint::VarInt};

    use super::*;

    //@include ../_shared/kani_stubs.rs

    const MAPPED: [QlogConnectionState; 9] = [
        QlogConnectionState::Base(BaseConnectionStates::Attempted),
        QlogConnectionState::Base(BaseConnectionStates::HandshakeStarted),
        QlogConnectionState::Granular(GranularConnectionStates::PeerValidated),
        QlogConnectionState::Granular(GranularConnectionStates::EarlyWrite),
        QlogConnectionState::Base(BaseConnectionStates::HandshakeComplete),
        QlogConnectionState::Granular(GranularConnectionStates::HandshakeConfirmed),
        QlogConnectionState::Granular(GranularConnectionStates::Closing),
        QlogConnectionState::Granular(GranularConnectionStates::Draining),
        QlogConnectionState::Base(BaseConnectionStates::Closed),
    ];

    /// the life-cycle order of the property statement (attempted < ... < handshake confirmed < closing <
    /// draining < closed), written independently of `encode`
    fn rank(s: QlogConnectionState) -> u8 {
        match s {
            QlogConnectionState::Base(BaseConnectionStates::Attempted) => 1,
            QlogConnectionState::Base(BaseConnectionStates::HandshakeStarted) => 2,
            QlogConnectionState::Granular(GranularConnectionStates::PeerValidated) => 3,
            QlogConnectionState::Granular(GranularConnectionStates::EarlyWrite) => 4,
            QlogConnectionState::Base(BaseConnectionStates::HandshakeComplete) => 5,
            QlogConnectionState::Granular(GranularConnectionStates::HandshakeConfirmed) => 6,
            QlogConnectionState::Granular(GranularConnectionStates::Closing) => 7,
            QlogConnectionState::Granular(GranularConnectionStates::Draining) => 8,
            QlogConnectionState::Base(BaseConnectionStates::Closed) => 9,
            QlogConnectionState::Granular(GranularConnectionStates::Closed) => 9,
        }
    }

    fn any_mapped_state() -> QlogConnectionState {
        let i: usize = kani::any();
        kani::assume(i < 9);
        MAPPED[i]
    }

    fn app_error(code: u32) -> Error {
        Error::App(AppError::new(VarInt::from_u32(code), ""))
    }

    /// the error code stored as terminating error (all errors in these harnesses are App errors with a
    /// symbolic 32-bit code, so two different errors are distinguishable)
    fn terminated_code(st: &ArcConnState) -> Option<u64> {
        match st.terminated.get() {
            None => None,
            Some(Error::App(e)) => Some(e.error_code()),
            Some(Error::Quic(_)) => Some(u64::MAX),
        }
    }

    /// an arbitrary connection state: any code 0..=9 and the terminating error set or not
    fn any_conn_state(code: u8, term: Option<u32>) -> ArcConnState {
        ArcConnState {
            state: Arc::new(AtomicU8::new(code)),
            handshaked: Arc::new(SetOnce::new()),
            terminated: Arc::new(SetOnce::new_with(term.map(app_error))),
        }
    }

    /// the invariant between the code and the terminating error (holds initially, kept by every operation):
    /// before closing no error; in closing / draining the error is there.  (Closed can be entered directly
    /// by `Event::Terminated`, so code 9 says nothing.)
    fn inv(code: u8, term: Option<u32>) -> bool {
        code <= 9 && (code >= 7 || term.is_none()) && (!(code == 7 || code == 8) || term.is_some())
    }

    /// encode / decode are mutually inverse on the codes in use, order-preserving w.r.t. the life cycle, and
    /// nothing else decodes.
    #[kani::proof]
    fn codec_bijection() {
        let code: u8 = kani::any();
        match decode(code) {
            Some(s) => {
                assert!(1 <= code && code <= 9, "C17.state.codec.decode_some_only_for_codes_in_use");
                assert!(encode(s) == code, "C17.state.codec.encode_inverts_decode");
            }
            None => assert!(code == 0 || code > 9, "C17.state.codec.decode_total_on_codes_in_use"),
        }
        let s = any_mapped_state();
        assert!(decode(encode(s)) == Some(s), "C17.state.codec.decode_inverts_encode");
        assert!(encode(s) == rank(s), "C17.state.codec.order_is_life_cycle_order");
        let t = any_mapped_state();
        assert!((encode(s) == encode(t)) == (s == t), "C17.state.codec.encode_injective");
        kani::cover!(code == 9, "C17.state.codec.reach_closed");
    }

    /// caller obligation: `encode` (hence `update`) must not be given Granular(Closed) -- the exported
    /// constant `CLOSED` is exactly that value and would panic in `update`.
    #[kani::proof]
    #[kani::should_panic]
    fn encode_granular_closed_panics() {
        let _ = encode(CLOSED);
    }

    /// contract of `update(new)` from an arbitrary code: the code only moves forward,
    /// code' == max(code, encode(new)); returns Some(old state) iff it advanced.
    #[kani::proof]
    #[kani::unwind(2)]
    #[kani::stub(qevent::telemetry::macro_support::build_and_emit_event, noop_emit)]
    fn update_contract() {
        let code: u8 = kani::any();
        kani::assume(code <= 9);
        let st = any_conn_state(code, None);
        let new = any_mapped_state();

        let r = st.update(new);

        let code2 = st.state.load(Ordering::Acquire);
        assert!(code2 >= code, "C17.state.update.never_moves_backward");
        assert!(code2 == core::cmp::max(code, rank(new)), "C17.state.update.code_is_max_of_old_and_new");
        assert!(r.is_some() == (rank(new) > code), "C17.state.update.returns_old_iff_advanced");
        if let Some(old) = r {
            assert!(if code == 0 { old == MAPPED[0] } else { Some(old) == decode(code) }, "C17.state.update.sup.returned_state_is_the_old_one");
        }
        assert!(st.current() == decode(code2), "C17.state.update.sup.current_reads_the_code");
        assert!(terminated_code(&st).is_none(), "C17.state.update.does_not_touch_terminating_error");
        kani::cover!(r.is_some() && code == 0, "C17.state.update.reach_first_transition");
        kani::cover!(r.is_none() && code == 9, "C17.state.update.reach_rejected_after_closed");
        kani::cover!(r.is_some() && code2 == 9, "C17.state.update.reach_closed");
    }

    /// the error handed to `enter_closing` (which is generic: `&(impl Into<Error> + Clone)`): a harness type
    /// whose conversion builds the `Error` directly, so that no `Cow<str>`/`String` clone is on the path
    /// (CBMC does not get through `Error::clone`'s owned-string branch: > 25 GB).
    #[derive(Clone)]
    struct CloseReason(u32);
    impl From<CloseReason> for Error {
        fn from(e: CloseReason) -> Error {
            app_error(e.0)
        }
    }

    /// stubs for the two conversions on `enter_draining`'s path (`ccf.clone().into()`): they allocate and copy
    /// the reason string, which CBMC cannot get through; the life-cycle contract does not depend on the text.
    fn ccf_to_error_stub(frame: ConnectionCloseFrame) -> Error {
        let code = match &frame {
            ConnectionCloseFrame::App(f) => f.error_code() as u32,
            ConnectionCloseFrame::Quic(_) => 0,
        };
        core::mem::forget(frame);
        app_error(code)
    }
    fn ccf_clone_stub(frame: &ConnectionCloseFrame) -> ConnectionCloseFrame {
        match frame {
            ConnectionCloseFrame::App(f) => ConnectionCloseFrame::new_app(VarInt::from_u32(f.error_code() as u32), ""),
            ConnectionCloseFrame::Quic(_) => ConnectionCloseFrame::new_app(VarInt::from_u32(0), ""),
        }
    }

    // The contracts of enter_closing / enter_draining are proved from an arbitrary code and an arbitrary
    // terminating error satisfying `inv`; the two shapes of the SetOnce (empty / set) are separate harnesses
    // because a symbolic `Option<Error>` inside the SetOnce makes CBMC run out of memory.

    /// `enter_closing(e)` while NO terminating error is fixed yet (codes 0..=6 and 9): advances to Closing and
    /// fixes the error iff the connection was not closed; no panic (`expect` unreachable).
    #[kani::proof]
    #[kani::unwind(2)]
    #[kani::stub(qevent::telemetry::macro_support::build_and_emit_event, noop_emit)]
    fn enter_closing_first_error() {
        let code: u8 = kani::any();
        kani::assume(inv(code, None)); // type invariant of ArcConnState (lemma_invariant_* below)
        let st = any_conn_state(code, None);
        let e: u32 = kani::any();

        let r = st.enter_closing(&CloseReason(e));

        let code2 = st.state.load(Ordering::Acquire);
        if code < 7 {
            assert!(r.is_some() && code2 == 7, "C17.state.enter_closing.advances_to_closing");
            assert!(terminated_code(&st) == Some(e as u64), "C17.state.enter_closing.fixes_terminating_error");
        } else {
            assert!(r.is_none() && code2 == code, "C17.state.enter_closing.no_effect_once_closing");
            assert!(terminated_code(&st).is_none(), "C17.state.enter_closing.first_error_stays");
        }
        assert!(inv(code2, terminated_code(&st).map(|x| x as u32)), "C17.state.inv.preserved_by_enter_closing");
        kani::cover!(code < 7, "C17.state.enter_closing.reach_first_close");
        kani::cover!(code == 9, "C17.state.enter_closing.reach_after_closed_without_error");
        core::mem::forget(st); // skip the drop glue (not under contract)
    }

    /// `enter_closing(e)` while a terminating error IS fixed (codes 7..=9): nothing changes, the first error
    /// stays.
    #[kani::proof]
    #[kani::unwind(2)]
    #[kani::stub(qevent::telemetry::macro_support::build_and_emit_event, noop_emit)]
    fn enter_closing_second_error() {
        let code: u8 = kani::any();
        let t: u32 = kani::any();
        kani::assume(inv(code, Some(t)));
        let st = any_conn_state(code, Some(t));
        let e: u32 = kani::any();

        let r = st.enter_closing(&CloseReason(e));

        let code2 = st.state.load(Ordering::Acquire);
        assert!(r.is_none() && code2 == code, "C17.state.enter_closing.no_effect_once_closing");
        assert!(terminated_code(&st) == Some(t as u64), "C17.state.enter_closing.first_error_stays");
        assert!(inv(code2, Some(t)), "C17.state.inv.preserved_by_enter_closing");
        kani::cover!(code == 7 && t != e, "C17.state.enter_closing.reach_second_close_other_error");
        kani::cover!(code == 8, "C17.state.enter_closing.reach_close_while_draining");
        core::mem::forget(st);
    }

    /// `enter_draining(ccf)` while no terminating error is fixed: advances to Draining and takes the error
    /// from the peer's frame iff the connection was not closed.
    #[kani::proof]
    #[kani::unwind(2)]
    #[kani::stub(qevent::telemetry::macro_support::build_and_emit_event, noop_emit)]
    #[kani::stub(<qbase::error::Error as core::convert::From<qbase::frame::ConnectionCloseFrame>>::from, ccf_to_error_stub)]
    #[kani::stub(<qbase::frame::ConnectionCloseFrame as core::clone::Clone>::clone, ccf_clone_stub)]
    fn enter_draining_first_error() {
        let code: u8 = kani::any();
        kani::assume(inv(code, None));
        let st = any_conn_state(code, None);
        let e: u32 = kani::any();
        let ccf = ConnectionCloseFrame::new_app(VarInt::from_u32(e), "");

        let r = st.enter_draining(&ccf);

        let code2 = st.state.load(Ordering::Acquire);
        if code < 7 {
            assert!(r.is_some() && code2 == 8, "C17.state.enter_draining.advances_to_draining");
            assert!(terminated_code(&st) == Some(e as u64), "C17.state.enter_draining.fixes_terminating_error");
        } else {
            assert!(r.is_none() && code2 == code, "C17.state.enter_draining.no_effect_once_draining");
            assert!(terminated_code(&st).is_none(), "C17.state.enter_draining.first_error_stays");
        }
        assert!(inv(code2, terminated_code(&st).map(|x| x as u32)), "C17.state.inv.preserved_by_enter_draining");
        kani::cover!(code < 7, "C17.state.enter_draining.reach_peer_closes_first");
        core::mem::forget(st);
        core::mem::forget(ccf);
    }

    /// `enter_draining(ccf)` while a terminating error is fixed: closing -> draining keeps the local error,
    /// draining / closed: nothing changes.
    #[kani::proof]
    #[kani::unwind(2)]
    #[kani::stub(qevent::telemetry::macro_support::build_and_emit_event, noop_emit)]
    #[kani::stub(<qbase::error::Error as core::convert::From<qbase::frame::ConnectionCloseFrame>>::from, ccf_to_error_stub)]
    #[kani::stub(<qbase::frame::ConnectionCloseFrame as core::clone::Clone>::clone, ccf_clone_stub)]
    fn enter_draining_second_error() {
        let code: u8 = kani::any();
        let t: u32 = kani::any();
        kani::assume(inv(code, Some(t)));
        let st = any_conn_state(code, Some(t));
        let e: u32 = kani::any();
        let ccf = ConnectionCloseFrame::new_app(VarInt::from_u32(e), "");

        let r = st.enter_draining(&ccf);

        let code2 = st.state.load(Ordering::Acquire);
        if code == 7 {
            assert!(r == Some(CLOSING) && code2 == 8, "C17.state.enter_draining.closing_to_draining");
        } else {
            assert!(r.is_none() && code2 == code, "C17.state.enter_draining.no_effect_once_draining");
        }
        assert!(terminated_code(&st) == Some(t as u64), "C17.state.enter_draining.first_error_stays");
        assert!(inv(code2, Some(t)), "C17.state.inv.preserved_by_enter_draining");
        kani::cover!(code == 7 && t != e, "C17.state.enter_draining.reach_after_local_close");
        kani::cover!(code == 8, "C17.state.enter_draining.reach_second_peer_close");
        core::mem::forget(st);
        core::mem::forget(ccf);
    }

    /// the remaining operations keep the invariant: a fresh state satisfies it; `update` to a non-closing
    /// state / to Closed (the only direct `update` callers: enter_handshaked and Event::Terminated) keeps it.
    #[kani::proof]
    #[kani::unwind(2)]
    #[kani::stub(qevent::telemetry::macro_support::build_and_emit_event, noop_emit)]
    fn lemma_invariant_initial_and_other_ops() {
        let fresh = ArcConnState::new();
        assert!(fresh.state.load(Ordering::Acquire) == 0 && terminated_code(&fresh).is_none() && inv(0, None), "C17.state.inv.holds_initially");
        assert!(fresh.current().is_none(), "C17.state.inv.sup.fresh_has_no_state");

        let code: u8 = kani::any();
        let term: Option<u32> = kani::any();
        kani::assume(inv(code, term));
        let st = any_conn_state(code, term);
        if kani::any() {
            let r = st.enter_handshaked();
            assert!(r.is_some() == (code < 6), "C17.state.enter_handshaked.advances_iff_before_confirmed");
        } else {
            let _ = st.update(BaseConnectionStates::Closed.into()); // Event::Terminated
            assert!(st.state.load(Ordering::Acquire) == 9, "C17.state.update.closed_is_final");
        }
        let code2 = st.state.load(Ordering::Acquire);
        assert!(terminated_code(&st) == term.map(|x| x as u64), "C17.state.inv.sup.error_untouched_by_other_ops");
        assert!(inv(code2, term), "C17.state.inv.preserved_by_other_ops");
    }
}
