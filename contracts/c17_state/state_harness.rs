// ---- spliced by /verif (contracts/c17_state) : contracts on the real connection life-cycle state ---------
//
// Sequential contracts (Kani has no threads).  `update` is a compare-exchange loop on one AtomicU8: under
// contention every successful CAS is one atomic step `code -> max(code, new)`, so the sequential contract
// from an ARBITRARY code is the contract of each linearised step (argument, not proof, recorded in
// unit.json).  `enter_closing` / `enter_draining` are `update` followed by `SetOnce::set`: the window
// between the two is not at lock granularity and is NOT decided here.
#[cfg(kani)]
mod verif_c17_state {
    use qbase::{error::AppError, varint::VarInt};

    use super::*;

    //@include ../_shared/kani_stubs.rs

    /// stub for `tokio::sync::Notify::notify_waiters` (called by `SetOnce::set` after the value is stored):
    /// no task waits on the SetOnce inside a harness, so waking "all waiters" has no effect on the state under
    /// contract.  (Its real body walks an intrusive waiter list and calls wakers through raw vtables; CBMC
    /// resolves those calls to every `fn(*const ())` of the crate graph -- minutes per call.)
    #[allow(dead_code)]
    fn noop_notify_waiters(_n: &tokio::sync::Notify) {}

    const MAPPED: [QlogConnectionState; 9] = [
        QlogConnectionState::Base(BaseConnectionStates::Attempted),
        QlogConnectionState::Base(BaseConnectionStates::HandshakeStarted),
        QlogConnectionState::Granular(GranularConnectionStates::PeerValidated),
        QlogConnectionState::Granular(GranularConnectionStates::EarlyWrite),
        QlogConnectionState::Base(BaseConnectionStates::HandshakeComplete),
        QlogConnectionState::Granular(GranularConnectionStates::HandshakeConfirmed),
        QlogConnectionState::Granular(GranularConnectionStates::Closing),
        QlogConnectionState::Granular(GranularConnectionStates::Draining),
        QlogConnectionState::Base(BaseConnectionStates::Closed),
    ];

    /// the life-cycle order of the property statement (attempted < ... < handshake confirmed < closing <
    /// draining < closed), written independently of `encode`
    fn rank(s: QlogConnectionState) -> u8 {
        match s {
            QlogConnectionState::Base(BaseConnectionStates::Attempted) => 1,
            QlogConnectionState::Base(BaseConnectionStates::HandshakeStarted) => 2,
            QlogConnectionState::Granular(GranularConnectionStates::PeerValidated) => 3,
            QlogConnectionState::Granular(GranularConnectionStates::EarlyWrite) => 4,
            QlogConnectionState::Base(BaseConnectionStates::HandshakeComplete) => 5,
            QlogConnectionState::Granular(GranularConnectionStates::HandshakeConfirmed) => 6,
            QlogConnectionState::Granular(GranularConnectionStates::Closing) => 7,
            QlogConnectionState::Granular(GranularConnectionStates::Draining) => 8,
            QlogConnectionState::Base(BaseConnectionStates::Closed) => 9,
            QlogConnectionState::Granular(GranularConnectionStates::Closed) => 9,
        }
    }

    fn any_mapped_state() -> QlogConnectionState {
        let i: usize = kani::any();
        kani::assume(i < 9);
        MAPPED[i]
    }

    fn app_error(code: u32) -> Error {
        Error::App(AppError::new(VarInt::from_u32(code), ""))
    }

    /// the error code stored as terminating error (all errors in these harnesses are App errors with a
    /// symbolic 32-bit code, so two different errors are distinguishable)
    fn terminated_code(st: &ArcConnState) -> Option<u64> {
        match st.terminated.get() {
            None => None,
            Some(Error::App(e)) => Some(e.error_code()),
            Some(Error::Quic(_)) => Some(u64::MAX),
        }
    }

    /// an arbitrary connection state: any code 0..=9 and the terminating error set or not
    fn any_conn_state(code: u8, term: Option<u32>) -> ArcConnState {
        ArcConnState {
            state: Arc::new(AtomicU8::new(code)),
            handshaked: Arc::new(SetOnce::new()),
            terminated: Arc::new(SetOnce::new_with(term.map(app_error))),
        }
    }

    /// the invariant between the code and the terminating error (holds initially, kept by every operation):
    /// before closing no error; in closing / draining the error is there.  (Closed can be entered directly
    /// by `Event::Terminated`, so code 9 says nothing.)
    fn inv(code: u8, term: Option<u32>) -> bool {
        code <= 9 && (code >= 7 || term.is_none()) && (!(code == 7 || code == 8) || term.is_some())
    }

    /// encode / decode are mutually inverse on the codes in use, order-preserving w.r.t. the life cycle, and
    /// nothing else decodes.
    #[kani::proof]
    fn codec_bijection() {
        let code: u8 = kani::any();
        match decode(code) {
            Some(s) => {
                assert!(1 <= code && code <= 9, "C17.state.codec.decode_some_only_for_codes_in_use");
                assert!(encode(s) == code, "C17.state.codec.encode_inverts_decode");
            }
            None => assert!(code == 0 || code > 9, "C17.state.codec.decode_total_on_codes_in_use"),
        }
        let s = any_mapped_state();
        assert!(decode(encode(s)) == Some(s), "C17.state.codec.decode_inverts_encode");
        assert!(encode(s) == rank(s), "C17.state.codec.order_is_life_cycle_order");
        let t = any_mapped_state();
        assert!((encode(s) == encode(t)) == (s == t), "C17.state.codec.encode_injective");
        kani::cover!(code == 9, "C17.state.codec.reach_closed");
    }

    /// caller obligation: `encode` (hence `update`) must not be given Granular(Closed) -- the exported
    /// constant `CLOSED` is exactly that value and would panic in `update`.
    #[kani::proof]
    #[kani::should_panic]
    fn encode_granular_closed_panics() {
        let _ = encode(CLOSED);
    }

    /// contract of `update(new)` from an arbitrary code: the code only moves forward,
    /// code' == max(code, encode(new)); returns Some(old state) iff it advanced.
    #[kani::proof]
    #[kani::unwind(2)]
    #[kani::stub(qevent::telemetry::macro_support::build_and_emit_event, noop_emit)]
    #[kani::stub(tokio::sync::Notify::notify_waiters, noop_notify_waiters)]
    fn update_contract() {
        let code: u8 = kani::any();
        kani::assume(code <= 9);
        let st = any_conn_state(code, None);
        let new = any_mapped_state();

        let r = st.update(new);

        let code2 = st.state.load(Ordering::Acquire);
        assert!(code2 >= code, "C17.state.update.never_moves_backward");
        assert!(code2 == core::cmp::max(code, rank(new)), "C17.state.update.code_is_max_of_old_and_new");
        assert!(r.is_some() == (rank(new) > code), "C17.state.update.returns_old_iff_advanced");
        if let Some(old) = r {
            assert!(if code == 0 { old == MAPPED[0] } else { Some(old) == decode(code) }, "C17.state.update.sup.returned_state_is_the_old_one");
        }
        assert!(st.current() == decode(code2), "C17.state.update.sup.current_reads_the_code");
        assert!(terminated_code(&st).is_none(), "C17.state.update.does_not_touch_terminating_error");
        kani::cover!(r.is_some() && code == 0, "C17.state.update.reach_first_transition");
        kani::cover!(r.is_none() && code == 9, "C17.state.update.reach_rejected_after_closed");
        kani::cover!(r.is_some() && code2 == 9, "C17.state.update.reach_closed");
    }

    /// contract of `enter_closing(e)` from any state satisfying the invariant: advances to Closing and fixes
    /// the terminating error iff the connection was not yet closing; otherwise NOTHING changes -- the first
    /// error stays.  (No panic: the `expect("Terminated error already set")` is unreachable under `inv`.)
    #[kani::proof]
    #[kani::unwind(2)]
    #[kani::stub(qevent::telemetry::macro_support::build_and_emit_event, noop_emit)]
    #[kani::stub(tokio::sync::Notify::notify_waiters, noop_notify_waiters)]
    fn enter_closing_contract() {
        let code: u8 = kani::any();
        let term: Option<u32> = kani::any();
        kani::assume(inv(code, term)); // type invariant of ArcConnState (lemma_invariant_* below)
        let st = any_conn_state(code, term);
        let e: u32 = kani::any();

        let r = st.enter_closing(&app_error(e));

        let code2 = st.state.load(Ordering::Acquire);
        if code < 7 {
            assert!(r.is_some() && code2 == 7, "C17.state.enter_closing.advances_to_closing");
            assert!(terminated_code(&st) == Some(e as u64), "C17.state.enter_closing.fixes_terminating_error");
        } else {
            assert!(r.is_none() && code2 == code, "C17.state.enter_closing.no_effect_once_closing");
            assert!(terminated_code(&st) == term.map(|x| x as u64), "C17.state.enter_closing.first_error_stays");
        }
        let term2 = terminated_code(&st).map(|x| x as u32);
        assert!(inv(code2, term2), "C17.state.inv.preserved_by_enter_closing");
        kani::cover!(code < 7, "C17.state.enter_closing.reach_first_close");
        kani::cover!(code == 7 && term.is_some_and(|t| t != e), "C17.state.enter_closing.reach_second_close_other_error");
        kani::cover!(code == 9 && term.is_none(), "C17.state.enter_closing.reach_after_closed_without_error");
    }

    /// contract of `enter_draining(ccf)`: advances to Draining iff not yet draining/closed; the terminating
    /// error is taken from the peer's frame only if none was fixed before (closing -> draining keeps it).
    #[kani::proof]
    #[kani::unwind(2)]
    #[kani::stub(qevent::telemetry::macro_support::build_and_emit_event, noop_emit)]
    #[kani::stub(tokio::sync::Notify::notify_waiters, noop_notify_waiters)]
    fn enter_draining_contract() {
        let code: u8 = kani::any();
        let term: Option<u32> = kani::any();
        kani::assume(inv(code, term));
        let st = any_conn_state(code, term);
        let e: u32 = kani::any();
        let ccf = ConnectionCloseFrame::new_app(VarInt::from_u32(e), "");

        let r = st.enter_draining(&ccf);

        let code2 = st.state.load(Ordering::Acquire);
        if code < 7 {
            assert!(r.is_some() && code2 == 8, "C17.state.enter_draining.advances_to_draining");
            assert!(terminated_code(&st) == Some(e as u64), "C17.state.enter_draining.fixes_terminating_error");
        } else if code == 7 {
            assert!(r == Some(CLOSING) && code2 == 8, "C17.state.enter_draining.closing_to_draining");
            assert!(terminated_code(&st) == term.map(|x| x as u64), "C17.state.enter_draining.first_error_stays");
        } else {
            assert!(r.is_none() && code2 == code, "C17.state.enter_draining.no_effect_once_draining");
            assert!(terminated_code(&st) == term.map(|x| x as u64), "C17.state.enter_draining.first_error_stays");
        }
        let term2 = terminated_code(&st).map(|x| x as u32);
        assert!(inv(code2, term2), "C17.state.inv.preserved_by_enter_draining");
        kani::cover!(code < 7, "C17.state.enter_draining.reach_peer_closes_first");
        kani::cover!(code == 7 && term.is_some_and(|t| t != e), "C17.state.enter_draining.reach_after_local_close");
        kani::cover!(code == 8, "C17.state.enter_draining.reach_second_peer_close");
    }

    /// the remaining operations keep the invariant: a fresh state satisfies it; `update` to a non-closing
    /// state / to Closed (the only direct `update` callers: enter_handshaked and Event::Terminated) keeps it.
    #[kani::proof]
    #[kani::unwind(2)]
    #[kani::stub(qevent::telemetry::macro_support::build_and_emit_event, noop_emit)]
    #[kani::stub(tokio::sync::Notify::notify_waiters, noop_notify_waiters)]
    fn lemma_invariant_initial_and_other_ops() {
        let fresh = ArcConnState::new();
        assert!(fresh.state.load(Ordering::Acquire) == 0 && terminated_code(&fresh).is_none() && inv(0, None), "C17.state.inv.holds_initially");
        assert!(fresh.current().is_none(), "C17.state.inv.sup.fresh_has_no_state");

        let code: u8 = kani::any();
        let term: Option<u32> = kani::any();
        kani::assume(inv(code, term));
        let st = any_conn_state(code, term);
        if kani::any() {
            let r = st.enter_handshaked();
            assert!(r.is_some() == (code < 6), "C17.state.enter_handshaked.advances_iff_before_confirmed");
        } else {
            let _ = st.update(BaseConnectionStates::Closed.into()); // Event::Terminated
            assert!(st.state.load(Ordering::Acquire) == 9, "C17.state.update.closed_is_final");
        }
        let code2 = st.state.load(Ordering::Acquire);
        assert!(terminated_code(&st) == term.map(|x| x as u64), "C17.state.inv.sup.error_untouched_by_other_ops");
        assert!(inv(code2, term), "C17.state.inv.preserved_by_other_ops");
    }

    /// the property clause on a whole history: whatever two closes (local error, then any of local close /
    /// peer close, or the other way round) happen, the terminating error is the FIRST one and the state
    /// sequence is increasing.
    #[kani::proof]
    #[kani::unwind(2)]
    #[kani::stub(qevent::telemetry::macro_support::build_and_emit_event, noop_emit)]
    #[kani::stub(tokio::sync::Notify::notify_waiters, noop_notify_waiters)]
    fn lemma_terminating_error_fixed_once() {
        let st = ArcConnState::new();
        let (e1, e2): (u32, u32) = (kani::any(), kani::any());
        let first_is_local: bool = kani::any();
        if first_is_local {
            assert!(st.enter_closing(&app_error(e1)).is_some(), "C17.state.history.first_close_wins");
        } else {
            assert!(st.enter_draining(&ConnectionCloseFrame::new_app(VarInt::from_u32(e1), "")).is_some(), "C17.state.history.first_close_wins");
        }
        let c1 = st.state.load(Ordering::Acquire);
        if kani::any() {
            let _ = st.enter_closing(&app_error(e2));
        } else {
            let _ = st.enter_draining(&ConnectionCloseFrame::new_app(VarInt::from_u32(e2), ""));
        }
        let c2 = st.state.load(Ordering::Acquire);
        assert!(terminated_code(&st) == Some(e1 as u64), "C17.state.history.terminating_error_is_the_first");
        assert!(c2 >= c1 && c1 >= 7, "C17.state.history.state_only_moves_forward");
        kani::cover!(e1 != e2 && c2 == 8 && c1 == 7, "C17.state.history.reach_local_then_peer_close");
    }

    #[derive(Clone)]
    struct ExpE(u32);
    impl From<ExpE> for Error {
        fn from(e: ExpE) -> Error {
            app_error(e.0)
        }
    }
    #[kani::proof]
    #[kani::unwind(2)]
    #[kani::stub(qevent::telemetry::macro_support::build_and_emit_event, noop_emit)]
    fn exp_f_closing_term_some() {
        let code: u8 = kani::any();
        let t: u32 = kani::any();
        kani::assume(inv(code, Some(t)));
        let st = any_conn_state(code, Some(t));
        let e: u32 = kani::any();
        let r = st.enter_closing(&ExpE(e));
        assert!(r.is_none(), "C17.state.exp.a");
        assert!(terminated_code(&st) == Some(t as u64), "C17.state.exp.b");
        core::mem::forget(st);
    }
    #[kani::proof]
    #[kani::unwind(2)]
    #[kani::stub(qevent::telemetry::macro_support::build_and_emit_event, noop_emit)]
    fn exp_g_draining_term_none() {
        let code: u8 = kani::any();
        kani::assume(inv(code, None));
        let st = any_conn_state(code, None);
        let e: u32 = kani::any();
        let ccf = ConnectionCloseFrame::new_app(VarInt::from_u32(e), "");
        let r = st.enter_draining(&ccf);
        assert!(r.is_some() == (code < 7), "C17.state.exp.a");
        if code < 7 { assert!(terminated_code(&st) == Some(e as u64), "C17.state.exp.b"); }
        core::mem::forget(st);
        core::mem::forget(ccf);
    }
    #[kani::proof]
    #[kani::unwind(2)]
    #[kani::stub(qevent::telemetry::macro_support::build_and_emit_event, noop_emit)]
    fn exp_h_draining_term_some() {
        let code: u8 = kani::any();
        let t: u32 = kani::any();
        kani::assume(inv(code, Some(t)));
        let st = any_conn_state(code, Some(t));
        let e: u32 = kani::any();
        let ccf = ConnectionCloseFrame::new_app(VarInt::from_u32(e), "");
        let r = st.enter_draining(&ccf);
        assert!(r.is_some() == (code == 7), "C17.state.exp.a");
        assert!(terminated_code(&st) == Some(t as u64), "C17.state.exp.b");
        core::mem::forget(st);
        core::mem::forget(ccf);
    }
}
