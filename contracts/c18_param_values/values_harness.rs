// ---- spliced by /verif (contracts/c18_param_values) : contract on the macro-derived ParameterId::validate --
// `validate` is the *expanded* `#[derive(qmacro::ParameterId)]` code (qmacro/src/derive.rs gen_validate) on the real
// enum. It is the only value check between the wire and the connection: `Parameters::<R>::parse_from_bytes` does
// `belong_to` -> `be_parameter_value` -> `set` -> `validate`. The legal ranges below are RFC 9000 §18.2 (and
// RFC 9221 §3), NOT the `#[param(bound = ..)]` attributes.
#[cfg(kani)]
mod verif_c18_param_values {
    use std::net::{Ipv4Addr, Ipv6Addr, SocketAddrV4, SocketAddrV6};

    use super::*;

    fn any_varint() -> VarInt {
        let x: u64 = kani::any();
        kani::assume(x <= VARINT_MAX); // type invariant of VarInt
        VarInt::from_u64(x).unwrap()
    }

    /// any id of the real enum (through the real decoder, so that a variant added later is included)
    fn any_id() -> ParameterId {
        let id = ParameterId::try_from(any_varint());
        kani::assume(id.is_ok());
        id.unwrap()
    }

    fn any_cid() -> ConnectionId {
        let len: u8 = kani::any();
        kani::assume(len as usize <= crate::cid::MAX_CID_SIZE); // type invariant
        ConnectionId { len, bytes: kani::any() }
    }

    /// every value of wire type `ty` that `be_parameter_value` can hand to `set`/`validate`
    /// (that it always hands over a value of the id's own wire type is C03.param.value.*.type_matches_id)
    fn any_value_of(ty: ParameterValueType) -> ParameterValue {
        match ty {
            ParameterValueType::VarInt => ParameterValue::VarInt(any_varint()),
            ParameterValueType::Boolean => ParameterValue::True,
            ParameterValueType::Bytes => ParameterValue::Bytes(if kani::any() { Bytes::new() } else { Bytes::from_static(b"c") }),
            ParameterValueType::Duration => ParameterValue::Duration(Duration::from_millis(any_varint().into_u64())),
            ParameterValueType::ResetToken => ParameterValue::ResetToken(ResetToken::new(&kani::any::<[u8; 16]>())),
            ParameterValueType::ConnectionId => ParameterValue::ConnectionId(any_cid()),
            ParameterValueType::PreferredAddress => ParameterValue::PreferredAddress(PreferredAddress::new(
                SocketAddrV4::new(Ipv4Addr::from(kani::any::<[u8; 4]>()), kani::any()),
                SocketAddrV6::new(Ipv6Addr::from(kani::any::<[u8; 16]>()), kani::any(), 0, 0),
                any_cid(),
                ResetToken::new(&kani::any::<[u8; 16]>()),
            )),
        }
    }

    /// RFC 9000 §18.2: is this value allowed for this id?
    fn rfc_legal(id: ParameterId, v: &ParameterValue) -> bool {
        match (id, v) {
            // "Values below 1200 are invalid."
            (ParameterId::MaxUdpPayloadSize, ParameterValue::VarInt(x)) => x.into_u64() >= 1200,
            // "If a max_streams transport parameter ... is received with a value greater than 2^60 ... the
            //  connection MUST be closed immediately with ... TRANSPORT_PARAMETER_ERROR" (§4.6, §18.2)
            (ParameterId::InitialMaxStreamsBidi | ParameterId::InitialMaxStreamsUni, ParameterValue::VarInt(x)) => {
                x.into_u64() <= (1u64 << 60)
            }
            // "Values above 20 are invalid."
            (ParameterId::AckDelayExponent, ParameterValue::VarInt(x)) => x.into_u64() <= 20,
            // "Values of 2^14 or greater are invalid."  (milliseconds)
            (ParameterId::MaxAckDelay, ParameterValue::Duration(d)) => d.as_millis() < (1u128 << 14),
            // "The value of the active_connection_id_limit parameter MUST be at least 2."
            (ParameterId::ActiveConnectionIdLimit, ParameterValue::VarInt(x)) => x.into_u64() >= 2,
            // "a server MUST NOT include a zero-length connection ID in this transport parameter. A client MUST
            //  treat a violation of these requirements as ... TRANSPORT_PARAMETER_ERROR."
            (ParameterId::PreferredAddress, ParameterValue::PreferredAddress(pa)) => pa.connection_id().len != 0,
            _ => true,
        }
    }

    /// the three regions where the real `validate` is more permissive than RFC 9000 (each pinned by its own
    /// `expect_fail` harness below; reported as candidate findings)
    fn known_bad_region(id: ParameterId, v: &ParameterValue) -> bool {
        match (id, v) {
            (ParameterId::InitialMaxStreamsBidi | ParameterId::InitialMaxStreamsUni, ParameterValue::VarInt(x)) => {
                x.into_u64() > (1u64 << 60)
            }
            (ParameterId::MaxAckDelay, ParameterValue::Duration(d)) => d.as_millis() >= (1u128 << 14),
            (ParameterId::PreferredAddress, ParameterValue::PreferredAddress(pa)) => pa.connection_id().len == 0,
            _ => false,
        }
    }

    /// ensures  Ok  => the value is RFC-legal for the id            (the C18 clause "every value within its range")
    /// ensures  RFC-legal (and, for max_udp_payload_size, <= 65527 = largest possible UDP payload) => Ok
    /// ensures  Err => Error::OutOfBounds(id, value, _)             (-> TRANSPORT_PARAMETER_ERROR, C03.param.error.*)
    #[kani::proof]
    fn validate_contract() {
        let id = any_id();
        let v = any_value_of(id.value_type());
        kani::assume(!known_bad_region(id, &v)); // excluded: pinned by the three expect_fail harnesses below
        let r = id.validate(&v);
        let legal = rfc_legal(id, &v);
        assert!(!r.is_ok() || legal, "C18.values.validate.accepted_implies_rfc_legal");
        // the code also refuses max_udp_payload_size > 65527 (no UDP datagram can carry more; RFC 9000 does not
        // call such a value invalid) -- stricter than the RFC, not a C18 violation; excluded from completeness
        let above_udp = matches!((id, &v), (ParameterId::MaxUdpPayloadSize, ParameterValue::VarInt(x)) if x.into_u64() > 65527);
        assert!(!legal || above_udp || r.is_ok(), "C18.values.validate.rfc_legal_value_accepted");
        if let Err(e) = &r {
            assert!(
                matches!((e, &v), (Error::OutOfBounds(i, x, _), ParameterValue::VarInt(val)) if *i == id && *x == val.into_u64()),
                "C18.values.validate.rejection_names_id_and_value"
            );
        }
        kani::cover!(id == ParameterId::MaxUdpPayloadSize && r.is_err() && !above_udp, "C18.values.validate.reach_udp_below_1200");
        kani::cover!(id == ParameterId::MaxUdpPayloadSize && r.is_err() && above_udp, "C18.values.validate.reach_udp_above_65527_refused");
        kani::cover!(id == ParameterId::AckDelayExponent && r.is_err(), "C18.values.validate.reach_ack_delay_exponent_21");
        kani::cover!(id == ParameterId::ActiveConnectionIdLimit && r.is_err(), "C18.values.validate.reach_cid_limit_below_2");
        kani::cover!(id == ParameterId::ActiveConnectionIdLimit && r.is_ok(), "C18.values.validate.reach_cid_limit_ok");
        kani::cover!(id == ParameterId::InitialMaxStreamsBidi && r.is_ok(), "C18.values.validate.reach_streams_ok");
        kani::cover!(id == ParameterId::MaxAckDelay && r.is_ok(), "C18.values.validate.reach_max_ack_delay_ok");
        kani::cover!(id == ParameterId::PreferredAddress && r.is_ok(), "C18.values.validate.reach_preferred_address_ok");
        kani::cover!(id == ParameterId::StatelessResetToken, "C18.values.validate.reach_token");
        kani::cover!(id == ParameterId::ClientName, "C18.values.validate.reach_ext");
    }

    /// KNOWN-BAD REGION (expect_fail): initial_max_streams_{bidi,uni} > 2^60 is accepted.
    /// (downstream: `qbase::sid` asserts `val <= MAX_STREAMS_LIMIT`, so the peer-chosen value panics the endpoint.)
    #[kani::proof]
    fn validate_max_streams_above_2pow60() {
        let id = if kani::any() { ParameterId::InitialMaxStreamsBidi } else { ParameterId::InitialMaxStreamsUni };
        let v = any_varint();
        kani::assume(v.into_u64() > (1u64 << 60));
        kani::cover!(v.into_u64() == (1u64 << 60) + 1, "C18.values.max_streams.reach_2pow60_plus_1");
        assert!(id.validate(&ParameterValue::VarInt(v)).is_err(), "C18.values.max_streams.above_2pow60_rejected");
    }

    /// KNOWN-BAD REGION (expect_fail): max_ack_delay >= 2^14 ms is accepted.
    #[kani::proof]
    fn validate_max_ack_delay_ge_2pow14() {
        let ms = any_varint().into_u64();
        kani::assume(ms >= (1u64 << 14));
        kani::cover!(ms == (1u64 << 14), "C18.values.max_ack_delay.reach_2pow14");
        let v = ParameterValue::Duration(Duration::from_millis(ms));
        assert!(ParameterId::MaxAckDelay.validate(&v).is_err(), "C18.values.max_ack_delay.ge_2pow14_rejected");
    }

    /// KNOWN-BAD REGION (expect_fail): preferred_address carrying a zero-length connection id is accepted.
    #[kani::proof]
    fn validate_preferred_address_zero_cid() {
        let v = any_value_of(ParameterValueType::PreferredAddress);
        kani::assume(matches!(&v, ParameterValue::PreferredAddress(pa) if pa.connection_id().len == 0));
        assert!(ParameterId::PreferredAddress.validate(&v).is_err(), "C18.values.preferred_address.zero_length_cid_rejected");
    }

    /// `validate` on a value whose kind is not the id's wire type (cannot come off the wire, only from a local
    /// `Parameters::set` call): the four range-checked ids answer InvalidValueType. (For all other ids the derived
    /// code performs no type check at all -- recorded as an observation in the unit's report, not a C18 clause.)
    #[kani::proof]
    fn validate_wrong_kind_contract() {
        let id = any_id();
        let ty = match kani::any::<u8>() % 7 {
            0 => ParameterValueType::VarInt,
            1 => ParameterValueType::Boolean,
            2 => ParameterValueType::Bytes,
            3 => ParameterValueType::Duration,
            4 => ParameterValueType::ResetToken,
            5 => ParameterValueType::ConnectionId,
            _ => ParameterValueType::PreferredAddress,
        };
        kani::assume(ty != id.value_type());
        let v = any_value_of(ty);
        let r = id.validate(&v);
        let range_checked = matches!(
            id,
            ParameterId::MaxUdpPayloadSize | ParameterId::AckDelayExponent | ParameterId::ActiveConnectionIdLimit
        );
        if range_checked {
            assert!(
                matches!(r, Err(Error::InvalidValueType(i, t)) if i == id && t == ty),
                "C18.values.wrong_kind.sup.range_checked_ids_reject_wrong_kind"
            );
        }
        kani::cover!(range_checked, "C18.values.wrong_kind.reach_range_checked");
        kani::cover!(!range_checked && r.is_ok(), "C18.values.wrong_kind.reach_unchecked_id_accepts_wrong_kind");
    }
}
