// ---- spliced by /verif (contracts/c08_available_k): bounded stand-in for RecvBuf::available / is_readable ----
// `available()` is an iterator try_fold with a closure: outside Verus. Kani cannot take a symbolic VecDeque, so the
// deque SHAPE is concrete (0, 1, 2 or 3 segments) while offsets, lengths (1..=4) and the read cursor are symbolic.
#[cfg(kani)]
mod verif_c08_available_k {
    use super::*;

    static ZEROS: [u8; 4] = [0; 4];

    fn seg(offset: u64, len: usize) -> Segment {
        Segment { offset, data: Bytes::from_static(&ZEROS).slice(..len) }
    }

    /// a well-formed buffer with `n` segments: sorted, disjoint, non-empty, at or after nread
    fn any_buf(n: usize) -> (RecvBuf, [u64; 3], [usize; 3]) {
        let nread: u64 = kani::any();
        kani::assume(nread < (1 << 62));
        let mut offs = [0u64; 3];
        let mut lens = [0usize; 3];
        let mut segments = VecDeque::new();
        let mut prev_end = nread;
        let mut i = 0;
        while i < n {
            let off: u64 = kani::any();
            let len: usize = kani::any();
            kani::assume(off >= prev_end && off < (1 << 62) && len >= 1 && len <= 4);
            offs[i] = off;
            lens[i] = len;
            prev_end = off + len as u64;
            segments.push_back(seg(off, len));
            i += 1;
        }
        (RecvBuf { nread, largest_offset: prev_end, segments }, offs, lens)
    }

    /// length of the contiguous run of buffered data that starts exactly at the read cursor
    fn spec_available(nread: u64, n: usize, offs: &[u64; 3], lens: &[usize; 3]) -> u64 {
        let mut end = nread;
        let mut i = 0;
        while i < n {
            if offs[i] != end {
                break;
            }
            end += lens[i] as u64;
            i += 1;
        }
        end - nread
    }

    fn check(n: usize) {
        let (buf, offs, lens) = any_buf(n);
        let nread = buf.nread;
        let a = buf.available();
        assert!(a == spec_available(nread, n, &offs, &lens), "C08.rcvbuf.available.is_length_of_contiguous_unread_run");
        assert!(buf.is_readable() == (a > 0), "C08.rcvbuf.available.positive_iff_readable");
        kani::cover!(a > 0, "C08.rcvbuf.available.reach_readable");
    }

    #[kani::proof]
    #[kani::unwind(5)]
    fn available_0_segments() {
        let (buf, _, _) = any_buf(0);
        assert!(buf.available() == 0, "C08.rcvbuf.available.empty_buffer_has_nothing");
        assert!(!buf.is_readable(), "C08.rcvbuf.available.empty_buffer_not_readable");
    }

    #[kani::proof]
    #[kani::unwind(5)]
    fn available_1_segment() {
        check(1);
    }

    #[kani::proof]
    #[kani::unwind(5)]
    fn available_2_segments() {
        check(2);
        kani::cover!(true, "C08.rcvbuf.available.reach2");
    }

    #[kani::proof]
    #[kani::unwind(5)]
    fn available_3_segments() {
        check(3);
    }
}
