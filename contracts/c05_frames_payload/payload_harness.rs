// ---- spliced by /verif (contracts/c05_frames_payload): C05 contracts of the payload-carrying frame codecs -------
//
// STREAM (all 8 flag combinations), CRYPTO, DATAGRAM (with/without length), NEW_TOKEN, CONNECTION_CLOSE (0x1c/0x1d):
//
//   put_data_frame(f, data) / put_frame(f) through the real `BufMut for &mut [u8]` writes
//        written == f.encoding_size() (+ data.len() for the three data frames, whose EncodeSize is the header)
//        written <= f.max_encoding_size() (+ data.len())
//   be_frame_type(bytes) == the frame type of f, complete_frame(type, raw)(rest) == Ok((<empty>, (f, data)))
//
// Payload / token / reason are at most 4 bytes long (bound of the unit, stated per harness); offsets, stream ids,
// error codes are fully symbolic. The length *field* of a data frame equals the payload length (type invariant at
// every call site: qrecovery send/outgoing.rs, crypto.rs, qdatagram writer.rs), so it is bounded too; arbitrary
// length fields are covered on the decoding side by unit c03_frame_decode.
//
// "admitted by size => fits": StreamFrame::{estimate_max_capacity, encoding_strategy} and
// CryptoFrame::estimate_max_capacity are pure arithmetic and are verified over their full domain.
#[cfg(kani)]
mod verif_c05_frames_payload {
    use super::*;
    //@include ../c05_frames_fixed/prelude.rs

    /// like `verif_enc!` for a frame with payload (`WriteDataFrame::put_data_frame`)
    macro_rules! verif_enc_data {
        ($f:expr, $d:expr, $m:expr) => {{
            let mut buf = [0u8; $m];
            let left = {
                let mut w = &mut buf[..];
                w.put_data_frame($f, $d);
                w.len()
            };
            (buf, $m - left)
        }};
    }

    struct Rt {
        written: usize,
        size_exact: bool,
        size_le_max: bool,
        type_of_value: bool,
        type_roundtrip: bool,
        decodes: bool,
        consumes_exactly: bool,
        value_equal: bool,
    }

    /// decode `buf[..written]` the way `be_frame` does (type, then `complete_frame` with the whole packet as `raw`)
    fn decode(buf: &[u8], written: usize, ft: FrameType, mut r: Rt, eq: impl Fn(Frame) -> bool) -> Rt {
        let input = &buf[..written];
        if let Ok((rest, t)) = be_frame_type(input) {
            r.type_roundtrip = t == ft;
            let raw = Bytes::from_static(stat(input));
            if let Ok((rest, frame)) = complete_frame(ft, raw)(rest) {
                r.decodes = true;
                r.consumes_exactly = rest.is_empty();
                r.value_equal = eq(frame);
            }
        }
        r
    }

    /// an arbitrary payload of 0..=4 bytes
    fn any_payload(store: &[u8; 4]) -> &[u8] {
        let l: usize = kani::any();
        kani::assume(l <= 4);
        &store[..l]
    }

    // ------------------------------------------------------------------------------------------------------
    // STREAM
    // ------------------------------------------------------------------------------------------------------
    fn stream_rt(off_nonzero: bool, len_bit: Len, fin: bool, ft: FrameType) -> Rt {
        let store: [u8; 4] = kani::any();
        let data = any_payload(&store);
        let offset: u64 = kani::any();
        // RFC 9000 §19.8 validity: offset + length <= 2^62 - 1
        kani::assume(offset <= crate::varint::VARINT_MAX - data.len() as u64);
        kani::assume((offset != 0) == off_nonzero);
        // type invariant of (StreamFrame, data): frame.len() == data.len()
        let mut f = StreamFrame::new(any_sid(), offset, data.len());
        f.set_eos_flag(fin);
        f.set_len_bit(len_bit);
        let (buf, written) = verif_enc_data!(&f, &data, 32);
        let r = Rt {
            written,
            size_exact: written == f.encoding_size() + data.len(),
            size_le_max: written <= f.max_encoding_size() + data.len() && f.encoding_size() <= f.max_encoding_size(),
            type_of_value: f.frame_type() == ft,
            type_roundtrip: false,
            decodes: false,
            consumes_exactly: false,
            value_equal: false,
        };
        decode(&buf, written, ft, r, |fr| match fr {
            Frame::Stream(g, d) => g == f && d.as_ref() == data,
            _ => false,
        })
    }

    #[kani::proof]
    #[kani::unwind(7)]
    #[kani::stub(alloc::fmt::format, fmt_stub)]
    #[kani::stub(crate::varint::be_varint, be_varint_spec)]
    fn stream_08_roundtrip() {
        let r = stream_rt(false, Len::Omit, false, FrameType::Stream(Offset::Zero, Len::Omit, Fin::No));
        assert!(r.size_exact, "C05.frame.stream_08.written_eq_encoding_size_plus_data");
        assert!(r.size_le_max, "C05.frame.stream_08.written_le_max_encoding_size_plus_data");
        assert!(r.type_of_value && r.type_roundtrip, "C05.frame.stream_08.type_roundtrip");
        assert!(r.decodes, "C05.frame.stream_08.decodes");
        assert!(r.consumes_exactly, "C05.frame.stream_08.consumes_exactly");
        assert!(r.value_equal, "C05.frame.stream_08.value_and_data_equal");
        kani::cover!(r.written == 2, "C05.frame.stream_08.reach_empty_payload");
        kani::cover!(r.written == 1 + 8 + 4, "C05.frame.stream_08.reach_max");
    }

    #[kani::proof]
    #[kani::unwind(7)]
    #[kani::stub(alloc::fmt::format, fmt_stub)]
    #[kani::stub(crate::varint::be_varint, be_varint_spec)]
    fn stream_09_roundtrip() {
        let r = stream_rt(false, Len::Omit, true, FrameType::Stream(Offset::Zero, Len::Omit, Fin::Yes));
        assert!(r.size_exact, "C05.frame.stream_09.written_eq_encoding_size_plus_data");
        assert!(r.size_le_max, "C05.frame.stream_09.written_le_max_encoding_size_plus_data");
        assert!(r.type_of_value && r.type_roundtrip, "C05.frame.stream_09.type_roundtrip");
        assert!(r.decodes, "C05.frame.stream_09.decodes");
        assert!(r.consumes_exactly, "C05.frame.stream_09.consumes_exactly");
        assert!(r.value_equal, "C05.frame.stream_09.value_and_data_equal");
        kani::cover!(r.written == 1 + 8 + 4, "C05.frame.stream_09.reach_max");
    }

    #[kani::proof]
    #[kani::unwind(7)]
    #[kani::stub(alloc::fmt::format, fmt_stub)]
    #[kani::stub(crate::varint::be_varint, be_varint_spec)]
    fn stream_0a_roundtrip() {
        let r = stream_rt(false, Len::Explicit, false, FrameType::Stream(Offset::Zero, Len::Explicit, Fin::No));
        assert!(r.size_exact, "C05.frame.stream_0a.written_eq_encoding_size_plus_data");
        assert!(r.size_le_max, "C05.frame.stream_0a.written_le_max_encoding_size_plus_data");
        assert!(r.type_of_value && r.type_roundtrip, "C05.frame.stream_0a.type_roundtrip");
        assert!(r.decodes, "C05.frame.stream_0a.decodes");
        assert!(r.consumes_exactly, "C05.frame.stream_0a.consumes_exactly");
        assert!(r.value_equal, "C05.frame.stream_0a.value_and_data_equal");
        kani::cover!(r.written == 1 + 8 + 1 + 4, "C05.frame.stream_0a.reach_max");
    }

    #[kani::proof]
    #[kani::unwind(7)]
    #[kani::stub(alloc::fmt::format, fmt_stub)]
    #[kani::stub(crate::varint::be_varint, be_varint_spec)]
    fn stream_0b_roundtrip() {
        let r = stream_rt(false, Len::Explicit, true, FrameType::Stream(Offset::Zero, Len::Explicit, Fin::Yes));
        assert!(r.size_exact, "C05.frame.stream_0b.written_eq_encoding_size_plus_data");
        assert!(r.size_le_max, "C05.frame.stream_0b.written_le_max_encoding_size_plus_data");
        assert!(r.type_of_value && r.type_roundtrip, "C05.frame.stream_0b.type_roundtrip");
        assert!(r.decodes, "C05.frame.stream_0b.decodes");
        assert!(r.consumes_exactly, "C05.frame.stream_0b.consumes_exactly");
        assert!(r.value_equal, "C05.frame.stream_0b.value_and_data_equal");
        kani::cover!(r.written == 3, "C05.frame.stream_0b.reach_empty_fin");
    }

    #[kani::proof]
    #[kani::unwind(7)]
    #[kani::stub(alloc::fmt::format, fmt_stub)]
    #[kani::stub(crate::varint::be_varint, be_varint_spec)]
    fn stream_0c_roundtrip() {
        let r = stream_rt(true, Len::Omit, false, FrameType::Stream(Offset::NonZero, Len::Omit, Fin::No));
        assert!(r.size_exact, "C05.frame.stream_0c.written_eq_encoding_size_plus_data");
        assert!(r.size_le_max, "C05.frame.stream_0c.written_le_max_encoding_size_plus_data");
        assert!(r.type_of_value && r.type_roundtrip, "C05.frame.stream_0c.type_roundtrip");
        assert!(r.decodes, "C05.frame.stream_0c.decodes");
        assert!(r.consumes_exactly, "C05.frame.stream_0c.consumes_exactly");
        assert!(r.value_equal, "C05.frame.stream_0c.value_and_data_equal");
        kani::cover!(r.written == 1 + 8 + 8 + 4, "C05.frame.stream_0c.reach_max");
    }

    #[kani::proof]
    #[kani::unwind(7)]
    #[kani::stub(alloc::fmt::format, fmt_stub)]
    #[kani::stub(crate::varint::be_varint, be_varint_spec)]
    fn stream_0d_roundtrip() {
        let r = stream_rt(true, Len::Omit, true, FrameType::Stream(Offset::NonZero, Len::Omit, Fin::Yes));
        assert!(r.size_exact, "C05.frame.stream_0d.written_eq_encoding_size_plus_data");
        assert!(r.size_le_max, "C05.frame.stream_0d.written_le_max_encoding_size_plus_data");
        assert!(r.type_of_value && r.type_roundtrip, "C05.frame.stream_0d.type_roundtrip");
        assert!(r.decodes, "C05.frame.stream_0d.decodes");
        assert!(r.consumes_exactly, "C05.frame.stream_0d.consumes_exactly");
        assert!(r.value_equal, "C05.frame.stream_0d.value_and_data_equal");
        kani::cover!(r.written == 3, "C05.frame.stream_0d.reach_min");
    }

    #[kani::proof]
    #[kani::unwind(7)]
    #[kani::stub(alloc::fmt::format, fmt_stub)]
    #[kani::stub(crate::varint::be_varint, be_varint_spec)]
    fn stream_0e_roundtrip() {
        let r = stream_rt(true, Len::Explicit, false, FrameType::Stream(Offset::NonZero, Len::Explicit, Fin::No));
        assert!(r.size_exact, "C05.frame.stream_0e.written_eq_encoding_size_plus_data");
        assert!(r.size_le_max, "C05.frame.stream_0e.written_le_max_encoding_size_plus_data");
        assert!(r.type_of_value && r.type_roundtrip, "C05.frame.stream_0e.type_roundtrip");
        assert!(r.decodes, "C05.frame.stream_0e.decodes");
        assert!(r.consumes_exactly, "C05.frame.stream_0e.consumes_exactly");
        assert!(r.value_equal, "C05.frame.stream_0e.value_and_data_equal");
        kani::cover!(r.written == 1 + 8 + 8 + 1 + 4, "C05.frame.stream_0e.reach_max");
    }

    #[kani::proof]
    #[kani::unwind(7)]
    #[kani::stub(alloc::fmt::format, fmt_stub)]
    #[kani::stub(crate::varint::be_varint, be_varint_spec)]
    fn stream_0f_roundtrip() {
        let r = stream_rt(true, Len::Explicit, true, FrameType::Stream(Offset::NonZero, Len::Explicit, Fin::Yes));
        assert!(r.size_exact, "C05.frame.stream_0f.written_eq_encoding_size_plus_data");
        assert!(r.size_le_max, "C05.frame.stream_0f.written_le_max_encoding_size_plus_data");
        assert!(r.type_of_value && r.type_roundtrip, "C05.frame.stream_0f.type_roundtrip");
        assert!(r.decodes, "C05.frame.stream_0f.decodes");
        assert!(r.consumes_exactly, "C05.frame.stream_0f.consumes_exactly");
        assert!(r.value_equal, "C05.frame.stream_0f.value_and_data_equal");
        kani::cover!(r.written == 1 + 8 + 8 + 1 + 4, "C05.frame.stream_0f.reach_max");
        kani::cover!(r.written == 4, "C05.frame.stream_0f.reach_min");
    }

    // ------------------------------------------------------------------------------------------------------
    // CRYPTO
    // ------------------------------------------------------------------------------------------------------
    fn crypto_rt(offset: u64) -> Rt {
        let store: [u8; 4] = kani::any();
        let data = any_payload(&store);
        // RFC 9000 §19.6 validity: offset + length <= 2^62 - 1
        kani::assume(offset <= crate::varint::VARINT_MAX - data.len() as u64);
        // precondition asserted by put_data_frame: frame.len() == data.len()
        let f = CryptoFrame::new(VarInt::from_u64(offset).unwrap(), VarInt::from_u32(data.len() as u32));
        let (buf, written) = verif_enc_data!(&f, &data, 24);
        let r = Rt {
            written,
            size_exact: written == f.encoding_size() + data.len(),
            size_le_max: written <= f.max_encoding_size() + data.len() && f.encoding_size() <= f.max_encoding_size(),
            type_of_value: f.frame_type() == FrameType::Crypto,
            type_roundtrip: false,
            decodes: false,
            consumes_exactly: false,
            value_equal: false,
        };
        decode(&buf, written, FrameType::Crypto, r, |fr| match fr {
            Frame::Crypto(g, d) => g == f && d.as_ref() == data,
            _ => false,
        })
    }

    #[kani::proof]
    #[kani::unwind(7)]
    #[kani::stub(alloc::fmt::format, fmt_stub)]
    #[kani::stub(crate::varint::be_varint, be_varint_spec)]
    fn crypto_roundtrip() {
        let offset: u64 = kani::any();
        // known finding (see crypto_offset_ge_2pow61_roundtrip): be_crypto_frame tests `offset + offset > VARINT_MAX`
        // instead of `offset + length`, i.e. it refuses every offset >= 2^61. Excluded here: exactly that region.
        kani::assume(offset < (1u64 << 61));
        let r = crypto_rt(offset);
        assert!(r.size_exact, "C05.frame.crypto.written_eq_encoding_size_plus_data");
        assert!(r.size_le_max, "C05.frame.crypto.written_le_max_encoding_size_plus_data");
        assert!(r.type_of_value && r.type_roundtrip, "C05.frame.crypto.type_roundtrip");
        assert!(r.decodes, "C05.frame.crypto.decodes");
        assert!(r.consumes_exactly, "C05.frame.crypto.consumes_exactly");
        assert!(r.value_equal, "C05.frame.crypto.value_and_data_equal");
        kani::cover!(r.written == 1 + 8 + 1 + 4, "C05.frame.crypto.reach_max");
        kani::cover!(r.written == 3, "C05.frame.crypto.reach_min");
    }

    /// confined to the recorded finding: a valid CRYPTO frame (offset + length <= 2^62-1) with offset >= 2^61
    #[kani::proof]
    #[kani::unwind(7)]
    #[kani::stub(alloc::fmt::format, fmt_stub)]
    #[kani::stub(crate::varint::be_varint, be_varint_spec)]
    fn crypto_offset_ge_2pow61_roundtrip() {
        let offset: u64 = kani::any();
        kani::assume(offset >= (1u64 << 61));
        let r = crypto_rt(offset);
        assert!(r.size_exact && r.type_roundtrip, "C05.frame.crypto.finding_offset_ge_2pow61.sup.encodes");
        assert!(r.decodes, "C05.frame.crypto.finding_offset_ge_2pow61.valid_frame_decodes");
    }

    // ------------------------------------------------------------------------------------------------------
    // DATAGRAM
    // ------------------------------------------------------------------------------------------------------
    fn datagram_rt(with_len: bool, ft: FrameType) -> Rt {
        let store: [u8; 4] = kani::any();
        let data = any_payload(&store);
        // type invariant of (DatagramFrame, data) at the call sites (qdatagram writer.rs): frame.len() == data.len()
        let f = DatagramFrame::new(with_len, VarInt::from_u32(data.len() as u32));
        let (buf, written) = verif_enc_data!(&f, &data, 16);
        let r = Rt {
            written,
            size_exact: written == f.encoding_size() + data.len(),
            size_le_max: written <= f.max_encoding_size() + data.len() && f.encoding_size() <= f.max_encoding_size(),
            type_of_value: f.frame_type() == ft,
            type_roundtrip: false,
            decodes: false,
            consumes_exactly: false,
            value_equal: false,
        };
        decode(&buf, written, ft, r, |fr| match fr {
            Frame::Datagram(g, d) => g == f && d.as_ref() == data,
            _ => false,
        })
    }

    #[kani::proof]
    #[kani::unwind(7)]
    #[kani::stub(alloc::fmt::format, fmt_stub)]
    #[kani::stub(crate::varint::be_varint, be_varint_spec)]
    fn datagram_30_roundtrip() {
        let r = datagram_rt(false, FrameType::Datagram(0));
        assert!(r.size_exact, "C05.frame.datagram_30.written_eq_encoding_size_plus_data");
        assert!(r.size_le_max, "C05.frame.datagram_30.written_le_max_encoding_size_plus_data");
        assert!(r.type_of_value && r.type_roundtrip, "C05.frame.datagram_30.type_roundtrip");
        assert!(r.decodes, "C05.frame.datagram_30.decodes");
        assert!(r.consumes_exactly, "C05.frame.datagram_30.consumes_exactly");
        assert!(r.value_equal, "C05.frame.datagram_30.value_and_data_equal");
        kani::cover!(r.written == 1, "C05.frame.datagram_30.reach_empty");
        kani::cover!(r.written == 5, "C05.frame.datagram_30.reach_max");
    }

    #[kani::proof]
    #[kani::unwind(7)]
    #[kani::stub(alloc::fmt::format, fmt_stub)]
    #[kani::stub(crate::varint::be_varint, be_varint_spec)]
    fn datagram_31_roundtrip() {
        let r = datagram_rt(true, FrameType::Datagram(1));
        assert!(r.size_exact, "C05.frame.datagram_31.written_eq_encoding_size_plus_data");
        assert!(r.size_le_max, "C05.frame.datagram_31.written_le_max_encoding_size_plus_data");
        assert!(r.type_of_value && r.type_roundtrip, "C05.frame.datagram_31.type_roundtrip");
        assert!(r.decodes, "C05.frame.datagram_31.decodes");
        assert!(r.consumes_exactly, "C05.frame.datagram_31.consumes_exactly");
        assert!(r.value_equal, "C05.frame.datagram_31.value_and_data_equal");
        kani::cover!(r.written == 2, "C05.frame.datagram_31.reach_empty");
        kani::cover!(r.written == 6, "C05.frame.datagram_31.reach_max");
    }

    // ------------------------------------------------------------------------------------------------------
    // NEW_TOKEN, CONNECTION_CLOSE (plain WriteFrame)
    // ------------------------------------------------------------------------------------------------------
    fn roundtrip<F, const M: usize>(f: &F, ft: FrameType, pick: impl Fn(Frame) -> Option<F>) -> Rt
    where
        F: PartialEq + EncodeSize + GetFrameType,
        for<'a> &'a mut [u8]: WriteFrame<F>,
    {
        let (buf, written) = verif_enc!(f, M);
        let r = Rt {
            written,
            size_exact: written == f.encoding_size(),
            size_le_max: written <= f.max_encoding_size(),
            type_of_value: f.frame_type() == ft,
            type_roundtrip: false,
            decodes: false,
            consumes_exactly: false,
            value_equal: false,
        };
        decode(&buf, written, ft, r, |fr| match pick(fr) {
            Some(g) => g == *f,
            None => false,
        })
    }

    /// a token of 1..=4 arbitrary bytes (RFC 9000 §19.7: an empty token is not a valid NEW_TOKEN value)
    fn any_token() -> Vec<u8> {
        let store: [u8; 4] = kani::any();
        let l: usize = kani::any();
        kani::assume(1 <= l && l <= 4);
        let mut v = Vec::with_capacity(4);
        let mut i = 0;
        while i < l {
            v.push(store[i]);
            i += 1;
        }
        v
    }

    #[kani::proof]
    #[kani::unwind(7)]
    #[kani::stub(alloc::fmt::format, fmt_stub)]
    #[kani::stub(crate::varint::be_varint, be_varint_spec)]
    fn new_token_roundtrip() {
        let f = NewTokenFrame::new(any_token());
        let r = roundtrip::<_, 12>(&f, FrameType::NewToken, |fr| match fr {
            Frame::NewToken(g) => Some(g),
            _ => None,
        });
        assert!(r.size_exact, "C05.frame.new_token.written_eq_encoding_size");
        assert!(r.size_le_max, "C05.frame.new_token.written_le_max_encoding_size");
        assert!(r.type_of_value && r.type_roundtrip, "C05.frame.new_token.type_roundtrip");
        assert!(r.decodes, "C05.frame.new_token.decodes");
        assert!(r.consumes_exactly, "C05.frame.new_token.consumes_exactly");
        assert!(r.value_equal, "C05.frame.new_token.value_equal");
        kani::cover!(r.written == 6, "C05.frame.new_token.reach_4_byte_token");
        kani::cover!(r.written == 3, "C05.frame.new_token.reach_1_byte_token");
    }

    /// confined to the recorded finding: `NewTokenFrame::{encoding_size,max_encoding_size}` count one byte for the
    /// length field, `put_frame` writes it as a varint - two bytes from 64 on (first length not covered by a unit test).
    /// Only sizes are looked at, so the token content is fixed (zeros) and only its length (64) matters.
    #[kani::proof]
    #[kani::unwind(4)]
    fn new_token_64_bytes_size() {
        let f = NewTokenFrame::new(vec![0u8; 64]);
        let (_buf, written) = verif_enc!(&f, 80);
        kani::cover!(written == 67, "C05.frame.new_token.finding_len64.reach_67_bytes_written");
        assert!(written == f.encoding_size(), "C05.frame.new_token.finding_len64.written_eq_encoding_size");
        assert!(written <= f.max_encoding_size(), "C05.frame.new_token.finding_len64.written_le_max_encoding_size");
    }

    /// byte-wise equality with an explicit loop (no memcmp on zero-length slices)
    fn same_bytes(a: &[u8], b: &[u8]) -> bool {
        if a.len() != b.len() {
            return false;
        }
        let mut i = 0;
        while i < a.len() {
            if a[i] != b[i] {
                return false;
            }
            i += 1;
        }
        true
    }

    /// a reason phrase of 0..=4 ASCII bytes (valid UTF-8 by construction, so `from_utf8_lossy` must give it back);
    /// returns the string and a copy of its bytes
    fn any_reason() -> (String, [u8; 4], usize) {
        let store: [u8; 4] = kani::any();
        let l: usize = kani::any();
        kani::assume(l <= 4);
        let mut v = Vec::with_capacity(4);
        let mut i = 0;
        while i < l {
            kani::assume(store[i] < 0x80);
            v.push(store[i]);
            i += 1;
        }
        (unsafe { String::from_utf8_unchecked(v) }, store, l)
    }

    /// every transport error code RFC 9000 §20.1 defines (plus the project's NoViablePath 0x10)
    fn any_error_kind() -> crate::error::ErrorKind {
        use crate::error::ErrorKind as K;
        match kani::any::<u8>() % 18 {
            0 => K::None,
            1 => K::Internal,
            2 => K::ConnectionRefused,
            3 => K::FlowControl,
            4 => K::StreamLimit,
            5 => K::StreamState,
            6 => K::FinalSize,
            7 => K::FrameEncoding,
            8 => K::TransportParameter,
            9 => K::ConnectionIdLimit,
            10 => K::ProtocolViolation,
            11 => K::InvalidToken,
            12 => K::Application,
            13 => K::CryptoBufferExceeded,
            14 => K::KeyUpdate,
            15 => K::AeadLimitReached,
            16 => K::NoViablePath,
            _ => K::Crypto(kani::any()),
        }
    }

    /// the frame types RFC 9000 defines (one-byte codes 0x00..=0x1e) as the "Frame Type" field of a 0x1c close
    fn any_v1_frame_type() -> FrameType {
        let code: u8 = kani::any();
        kani::assume(code <= 0x1e);
        match FrameType::try_from(VarInt::from(code)) {
            Ok(t) => t,
            Err(_) => {
                kani::assume(false);
                unreachable!()
            }
        }
    }

    /// sizes of CONNECTION_CLOSE (encoder and size functions only; cheap, so both layers in one harness)
    #[kani::proof]
    #[kani::unwind(7)]
    fn close_sizes() {
        let (reason, _, l) = any_reason();
        let f = ConnectionCloseFrame::new_app(vi(), reason);
        let (_buf, written) = verif_enc!(&f, 20);
        assert!(written == f.encoding_size(), "C05.frame.app_close.sizes.written_eq_encoding_size");
        assert!(written <= f.max_encoding_size(), "C05.frame.app_close.sizes.written_le_max_encoding_size");
        kani::cover!(written == 1 + 8 + 1 + 4 && l == 4, "C05.frame.app_close.sizes.reach_max");

        // known findings excluded here (pinned by quic_close_ext_frame_type_* below): a "Frame Type" field that is
        // not a one-byte RFC 9000 frame type (the project's own 4-byte types and ErrorFrameType::Ext)
        let (reason, _, l) = any_reason();
        let f = ConnectionCloseFrame::new_quic(any_error_kind(), any_v1_frame_type().into(), reason);
        let (_buf, written) = verif_enc!(&f, 20);
        assert!(written == f.encoding_size(), "C05.frame.quic_close.sizes.written_eq_encoding_size");
        assert!(written <= f.max_encoding_size(), "C05.frame.quic_close.sizes.written_le_max_encoding_size");
        kani::cover!(written == 1 + 2 + 1 + 1 + 4 && l == 4, "C05.frame.quic_close.sizes.reach_crypto_error_max");
        kani::cover!(written == 4, "C05.frame.quic_close.sizes.reach_min");
    }

    #[kani::proof]
    #[kani::unwind(7)]
    #[kani::stub(alloc::fmt::format, fmt_stub)]
    #[kani::stub(crate::varint::be_varint, be_varint_spec)]
    #[kani::stub(alloc::string::String::from_utf8_lossy, lossy_stub)]
    fn app_close_roundtrip() {
        let code = vi();
        let (reason, rb, rl) = any_reason();
        let f = ConnectionCloseFrame::new_app(code, reason);
        let (buf, written) = verif_enc!(&f, 20);
        let r = Rt {
            written,
            size_exact: written == f.encoding_size(),
            size_le_max: written <= f.max_encoding_size(),
            type_of_value: f.frame_type() == FrameType::ConnectionClose(Layer::App),
            type_roundtrip: false,
            decodes: false,
            consumes_exactly: false,
            value_equal: false,
        };
        // field-wise equality (the derived `==` on Cow<str> goes through memcmp models that are needlessly expensive)
        let r = decode(&buf, written, FrameType::ConnectionClose(Layer::App), r, |fr| match fr {
            Frame::Close(ConnectionCloseFrame::App(g)) => g.error_code() == code.into_u64() && same_bytes(g.reason().as_bytes(), &rb[..rl]),
            _ => false,
        });
        assert!(r.size_exact, "C05.frame.app_close.written_eq_encoding_size");
        assert!(r.size_le_max, "C05.frame.app_close.written_le_max_encoding_size");
        assert!(r.type_of_value && r.type_roundtrip, "C05.frame.app_close.type_roundtrip");
        assert!(r.decodes, "C05.frame.app_close.decodes");
        assert!(r.consumes_exactly, "C05.frame.app_close.consumes_exactly");
        assert!(r.value_equal, "C05.frame.app_close.value_equal");
        kani::cover!(r.written == 1 + 8 + 1 + 4, "C05.frame.app_close.reach_max");
        kani::cover!(r.written == 3, "C05.frame.app_close.reach_empty_reason");
    }

    #[kani::proof]
    #[kani::unwind(7)]
    #[kani::stub(alloc::fmt::format, fmt_stub)]
    #[kani::stub(crate::varint::be_varint, be_varint_spec)]
    #[kani::stub(alloc::string::String::from_utf8_lossy, lossy_stub)]
    fn quic_close_roundtrip() {
        let kind = any_error_kind();
        let fty: crate::error::ErrorFrameType = any_v1_frame_type().into();
        let (reason, rb, rl) = any_reason();
        let f = ConnectionCloseFrame::new_quic(kind, fty, reason);
        let (buf, written) = verif_enc!(&f, 20);
        let r = Rt {
            written,
            size_exact: written == f.encoding_size(),
            size_le_max: written <= f.max_encoding_size(),
            type_of_value: f.frame_type() == FrameType::ConnectionClose(Layer::Quic),
            type_roundtrip: false,
            decodes: false,
            consumes_exactly: false,
            value_equal: false,
        };
        let r = decode(&buf, written, FrameType::ConnectionClose(Layer::Quic), r, |fr| match fr {
            Frame::Close(ConnectionCloseFrame::Quic(g)) => {
                g.error_kind() == kind && g.frame_type() == fty && same_bytes(g.reason().as_bytes(), &rb[..rl])
            }
            _ => false,
        });
        assert!(r.size_exact, "C05.frame.quic_close.written_eq_encoding_size");
        assert!(r.size_le_max, "C05.frame.quic_close.written_le_max_encoding_size");
        assert!(r.type_of_value && r.type_roundtrip, "C05.frame.quic_close.type_roundtrip");
        assert!(r.decodes, "C05.frame.quic_close.decodes");
        assert!(r.consumes_exactly, "C05.frame.quic_close.consumes_exactly");
        assert!(r.value_equal, "C05.frame.quic_close.value_equal");
        kani::cover!(r.written == 1 + 2 + 1 + 1 + 4, "C05.frame.quic_close.reach_crypto_error_max");
        kani::cover!(r.written == 4, "C05.frame.quic_close.reach_min");
    }

    /// confined to the recorded finding: CONNECTION_CLOSE(0x1c) naming one of the project's own frames (4-byte type
    /// 0x3d7e90..0x3d7e96, what `From<frame::Error> for QuicError` produces for e.g. ADD_ADDRESS in an Initial packet):
    /// `encoding_size()` counts 1 byte for the Frame Type field, `put_frame` writes 4.  (encoder and sizes only)
    #[kani::proof]
    #[kani::unwind(7)]
    fn quic_close_ext_frame_type_size() {
        let f = ConnectionCloseFrame::new_quic(
            crate::error::ErrorKind::FrameEncoding,
            FrameType::AddAddress(Family::V4).into(),
            String::new(),
        );
        let (_buf, written) = verif_enc!(&f, 20);
        kani::cover!(written == 7, "C05.frame.quic_close.finding_ext_frame_type_size.reach_7_bytes_written");
        assert!(written == f.encoding_size(), "C05.frame.quic_close.finding_ext_frame_type_size.written_eq_encoding_size");
    }

    /// confined to the recorded finding: CONNECTION_CLOSE(0x1c) whose Frame Type field is a type this endpoint does
    /// not know (`ErrorFrameType::Ext`, e.g. a peer's extension frame): it is encoded, but `be_quic_close_frame`
    /// only accepts known frame types and refuses the whole frame.
    #[kani::proof]
    #[kani::unwind(7)]
    #[kani::stub(alloc::fmt::format, fmt_stub)]
    #[kani::stub(crate::varint::be_varint, be_varint_spec)]
    #[kani::stub(alloc::string::String::from_utf8_lossy, lossy_stub)]
    fn quic_close_unknown_frame_type_decodes() {
        let f = ConnectionCloseFrame::new_quic(
            crate::error::ErrorKind::ProtocolViolation,
            crate::error::ErrorFrameType::Ext(VarInt::from_u32(0x1f)),
            String::new(),
        );
        let (buf, written) = verif_enc!(&f, 20);
        assert!(written == 4 && buf[0] == 0x1c && buf[1] == 0x0a && buf[2] == 0x1f && buf[3] == 0, "C05.frame.quic_close.finding_unknown_frame_type.sup.encodes");
        let bytes: [u8; 4] = [0x0a, 0x1f, 0x00, 0x00];
        let res = complete_frame(FrameType::ConnectionClose(Layer::Quic), Bytes::new())(&bytes[..3]);
        assert!(res.is_ok(), "C05.frame.quic_close.finding_unknown_frame_type.decodes");
    }

    // ------------------------------------------------------------------------------------------------------
    // "admitted by size => fits": the capacity estimators (pure arithmetic, full domain)
    // ------------------------------------------------------------------------------------------------------
    /// contract of `StreamFrame::estimate_max_capacity` + `StreamFrame::encoding_strategy` as they are used by
    /// qrecovery/src/send/outgoing.rs::try_load_data_into:
    ///   m = estimate_max_capacity(C, sid, off);  L <= m bytes are picked;  f = new(sid, off, L);
    ///   s = f.encoding_strategy(C);  f.set_len_bit(s.len_bit());  put s.pre_padding() PADDING bytes, then (f, data)
    /// `written == f.encoding_size() + L` is the obligation of the stream_0x_roundtrip harnesses.
    #[kani::proof]
    fn stream_capacity_contract() {
        let capacity: usize = kani::any();
        let sid = any_sid();
        let offset: u64 = kani::any();
        kani::assume(offset <= crate::varint::VARINT_MAX); // documented precondition (assert! in the function)
        kani::assume(capacity < (1usize << 62)); // precondition of encoding_strategy ("length ... must be less than 2^62")
        let header = 1 + vlen(u64::from(sid)) + if offset != 0 { vlen(offset) } else { 0 };
        match StreamFrame::estimate_max_capacity(capacity, sid, offset) {
            None => {
                assert!(capacity <= header, "C05.frame.stream.capacity.none_only_if_not_even_one_byte_fits");
            }
            Some(m) => {
                assert!(m >= 1 && header + m <= capacity, "C05.frame.stream.capacity.estimate_fits_without_length");
                let l: usize = kani::any();
                kani::assume(l <= m);
                kani::assume(offset <= crate::varint::VARINT_MAX - l as u64); // RFC 9000 §19.8 validity
                let mut f = StreamFrame::new(sid, offset, l);
                f.set_eos_flag(kani::any());
                let s = f.encoding_strategy(capacity); // its assert!(size <= capacity) is part of `.safety`
                f.set_len_bit(s.len_bit());
                let total = s.pre_padding() + f.encoding_size() + l;
                assert!(total <= capacity, "C05.frame.stream.capacity.admitted_frame_with_padding_fits");
                if s.len_bit() == Len::Omit {
                    // RFC 9000 §19.8: without LEN the data extends to the end of the packet
                    assert!(total == capacity, "C05.frame.stream.capacity.length_less_frame_ends_the_packet");
                } else {
                    assert!(f.encoding_size() == header + vlen(l as u64), "C05.frame.stream.capacity.sup.explicit_length_counted");
                }
                kani::cover!(s.len_bit() == Len::Omit && s.pre_padding() > 0, "C05.frame.stream.capacity.reach_omit_with_padding");
                kani::cover!(s.len_bit() == Len::Explicit && s.pre_padding() == 0 && total < capacity, "C05.frame.stream.capacity.reach_room_left");
                kani::cover!(s.len_bit() == Len::Explicit && s.pre_padding() > 0, "C05.frame.stream.capacity.reach_explicit_padded");
                kani::cover!(l == 16384 && capacity == 65535, "C05.frame.stream.capacity.reach_udp_sized");
            }
        }
    }

    /// contract of `CryptoFrame::estimate_max_capacity` as used by qrecovery/src/crypto.rs::try_load_data:
    ///   m = estimate_max_capacity(C, off); 1..=m bytes are picked; the frame (header + data) is dumped into C bytes.
    #[kani::proof]
    fn crypto_capacity_contract() {
        let capacity: usize = kani::any();
        let offset: u64 = kani::any();
        kani::assume(offset <= crate::varint::VARINT_MAX); // documented precondition (assert! in the function)
        kani::assume(capacity <= (1usize << 30)); // documented precondition ("panic if the capacity is too large (about 2^32)")
        match CryptoFrame::estimate_max_capacity(capacity, offset) {
            None => {
                // type + offset + 1-byte length + 1 byte of data do not fit
                assert!(capacity < 1 + vlen(offset) + 2, "C05.frame.crypto.capacity.none_only_if_not_even_one_byte_fits");
            }
            Some(m) => {
                assert!(m >= 1, "C05.frame.crypto.capacity.some_carries_data");
                let l: usize = kani::any();
                kani::assume(1 <= l && l <= m);
                let f = CryptoFrame::new(VarInt::from_u64(offset).unwrap(), VarInt::from_u64(l as u64).unwrap());
                assert!(f.encoding_size() + l <= capacity, "C05.frame.crypto.capacity.admitted_frame_fits");
                assert!(f.encoding_size() <= f.max_encoding_size(), "C05.frame.crypto.capacity.encoding_size_le_max");
                kani::cover!(l == m && f.encoding_size() + l == capacity, "C05.frame.crypto.capacity.reach_exact_fill");
                kani::cover!(m == 0x3fff && capacity == 1 + 1 + 2 + 0x4000, "C05.frame.crypto.capacity.reach_rollback_0x4000");
                kani::cover!(l == 63 && m == 63, "C05.frame.crypto.capacity.reach_63");
                kani::cover!(capacity == 1200, "C05.frame.crypto.capacity.reach_initial_sized");
            }
        }
    }
}
