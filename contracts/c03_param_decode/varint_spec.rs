    // ---- shared by contracts/c03_param_decode and contracts/c05_param_codec (included into each module) ----
    /// RFC 9000 §16: length of a variable-length integer from its first byte
    fn varint_len(first: u8) -> usize {
        1usize << (first >> 6)
    }

    /// RFC 9000 §16 / A.1: value of the variable-length integer at the start of `b` (caller checked the length).
    /// Written out per width (no loop, no symbolic index) to keep CBMC's formula small.
    fn varint_val(b: &[u8]) -> u64 {
        let b0 = (b[0] & 0x3f) as u64;
        match b[0] >> 6 {
            0 => b0,
            1 => (b0 << 8) | b[1] as u64,
            2 => (b0 << 24) | (b[1] as u64) << 16 | (b[2] as u64) << 8 | b[3] as u64,
            _ => {
                (b0 << 56)
                    | (b[1] as u64) << 48
                    | (b[2] as u64) << 40
                    | (b[3] as u64) << 32
                    | (b[4] as u64) << 24
                    | (b[5] as u64) << 16
                    | (b[6] as u64) << 8
                    | b[7] as u64
            }
        }
    }

    fn is_incomplete_err<T>(r: &nom::IResult<&[u8], T>) -> bool {
        matches!(r, Err(nom::Err::Incomplete(_)))
    }

    /// RFC 9000 §16 decoder written directly from the RFC (loop-free). Used as a verified
    /// stand-in for `crate::varint::be_varint` (a nom bit-level parser that costs CBMC minutes per call) in the
    /// harnesses below; `be_varint_refines_spec` proves the real function returns exactly this on every input.
    fn be_varint_spec(input: &[u8]) -> nom::IResult<&[u8], VarInt> {
        if input.is_empty() {
            return Err(nom::Err::Incomplete(nom::Needed::new(1)));
        }
        let n = varint_len(input[0]);
        if input.len() < n {
            return Err(nom::Err::Incomplete(nom::Needed::new(n - input.len())));
        }
        let v = VarInt::from_u64(varint_val(input)).unwrap();
        match n {
            1 => Ok((&input[1..], v)),
            2 => Ok((&input[2..], v)),
            4 => Ok((&input[4..], v)),
            _ => Ok((&input[8..], v)),
        }
    }

    /// `be_varint` == `be_varint_spec` on every input (inputs longer than 9 bytes differ only in the untouched
    /// tail: the decoder reads at most 8 bytes). Complete for the function: width-bounded.
    #[kani::proof]
    #[kani::unwind(10)]
    fn be_varint_refines_spec() {
        let buf: [u8; 9] = kani::any();
        let n: usize = kani::any();
        kani::assume(n <= 9);
        let real = be_varint(&buf[..n]);
        let spec = be_varint_spec(&buf[..n]);
        match (&real, &spec) {
            (Ok((r1, v1)), Ok((r2, v2))) => {
                assert!(v1.into_u64() == v2.into_u64(), "C03.param.varint.same_value_as_rfc_decoder");
                assert!(r1.len() == r2.len() && r1.as_ptr() == r2.as_ptr(), "C03.param.varint.same_remainder_as_rfc_decoder");
                assert!(
                    v1.into_u64() == v2.into_u64() && r1.len() == r2.len(),
                    "C05.param.varint.decoder_equals_rfc_decoder"
                );
            }
            (Err(nom::Err::Incomplete(a)), Err(nom::Err::Incomplete(b))) => {
                assert!(a == b, "C03.param.varint.sup.same_needed_count");
            }
            _ => assert!(false, "C03.param.varint.same_outcome_as_rfc_decoder"),
        }
        kani::cover!(real.is_ok() && n == 9, "C03.param.varint.reach_8byte_with_surplus");
        kani::cover!(real.is_err() && n == 7, "C03.param.varint.reach_truncated_8byte");
        kani::cover!(real.is_err() && n == 0, "C03.param.varint.reach_empty");
    }

