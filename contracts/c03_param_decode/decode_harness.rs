// ---- spliced by /verif (contracts/c03_param_decode) : contracts on the transport-parameter wire decoders -----
// `Parameters::<R>::parse_from_bytes` (HashMap-backed, outside CBMC) is   loop { be_raw_parameter;
// ParameterId::try_from; belong_to; be_parameter_value -> handle_nom_error (assert!(Incomplete));
// assert!(remain.is_empty()); set }.   Its freedom from panics on a peer-chosen blob therefore rests on three
// obligations of its callees, which are the contracts below:
//   (P) be_raw_parameter consumes >= 2 bytes whenever it succeeds (loop progress) and fails with Incomplete only;
//   (E) be_parameter_value(data, id) never leaves a remainder when it returns Ok;
//   (I) be_parameter_value fails with nom::Err::Incomplete only (anything else trips handle_nom_error's assert!).
#[cfg(kani)]
mod verif_c03_param_decode {
    use super::*;
    use crate::varint::VARINT_MAX;

    // The ids of one wire type. Each harness below runs the decoder once per *concrete* id of the class on the
    // same symbolic input: with a symbolic id CBMC expands all seven decoders (and the `bytes` vtable machinery
    // behind `ParameterValue::Bytes`) in every harness. That the lists are exactly the ids of each type is proved
    // by `id_lists_cover_every_id` (and, against the RFC, by C18.ids.value_type.matches_rfc_wire_type).
    const INTEGER_IDS: [ParameterId; 12] = [
        ParameterId::MaxIdleTimeout,
        ParameterId::MaxUdpPayloadSize,
        ParameterId::InitialMaxData,
        ParameterId::InitialMaxStreamDataBidiLocal,
        ParameterId::InitialMaxStreamDataBidiRemote,
        ParameterId::InitialMaxStreamDataUni,
        ParameterId::InitialMaxStreamsBidi,
        ParameterId::InitialMaxStreamsUni,
        ParameterId::AckDelayExponent,
        ParameterId::MaxAckDelay,
        ParameterId::ActiveConnectionIdLimit,
        ParameterId::MaxDatagramFrameSize,
    ];
    const FLAG_IDS: [ParameterId; 2] = [ParameterId::DisableActiveMigration, ParameterId::GreaseQuicBit];
    const CID_IDS: [ParameterId; 3] = [
        ParameterId::OriginalDestinationConnectionId,
        ParameterId::InitialSourceConnectionId,
        ParameterId::RetrySourceConnectionId,
    ];

    /// the three lists above, the token, the preferred address and the private extension are all 20 ids
    #[kani::proof]
    fn id_lists_cover_every_id() {
        let x: u64 = kani::any();
        kani::assume(x <= VARINT_MAX);
        if let Ok(id) = ParameterId::try_from(VarInt::from_u64(x).unwrap()) {
            let mut n = 0;
            let mut i = 0;
            while i < 12 {
                n += (INTEGER_IDS[i] == id) as u32;
                i += 1;
            }
            n += (FLAG_IDS[0] == id) as u32 + (FLAG_IDS[1] == id) as u32;
            n += (CID_IDS[0] == id) as u32 + (CID_IDS[1] == id) as u32 + (CID_IDS[2] == id) as u32;
            n += (id == ParameterId::StatelessResetToken) as u32
                + (id == ParameterId::PreferredAddress) as u32
                + (id == ParameterId::ClientName) as u32;
            assert!(n == 1, "C03.param.value.sup.every_id_is_in_exactly_one_decoder_class");
            let ty = id.value_type();
            let in_int = matches!(ty, ParameterValueType::VarInt | ParameterValueType::Duration);
            let mut listed_int = false;
            let mut i = 0;
            while i < 12 {
                listed_int |= INTEGER_IDS[i] == id;
                i += 1;
            }
            assert!(in_int == listed_int, "C03.param.value.sup.integer_list_is_the_integer_typed_ids");
            assert!(
                (ty == ParameterValueType::Boolean) == (id == FLAG_IDS[0] || id == FLAG_IDS[1]),
                "C03.param.value.sup.flag_list_is_the_flag_typed_ids"
            );
            assert!(
                (ty == ParameterValueType::ConnectionId) == (id == CID_IDS[0] || id == CID_IDS[1] || id == CID_IDS[2]),
                "C03.param.value.sup.cid_list_is_the_cid_typed_ids"
            );
            assert!((ty == ParameterValueType::ResetToken) == (id == ParameterId::StatelessResetToken), "C03.param.value.sup.token_id");
            assert!((ty == ParameterValueType::PreferredAddress) == (id == ParameterId::PreferredAddress), "C03.param.value.sup.pa_id");
            assert!((ty == ParameterValueType::Bytes) == (id == ParameterId::ClientName), "C03.param.value.sup.bytes_id");
        }
        kani::cover!(x == 0x2ab2, "C03.param.value.sup.reach_grease");
    }

    //@include varint_spec.rs

    fn is_incomplete<T>(r: &nom::IResult<&[u8], T>) -> bool {
        matches!(r, Err(nom::Err::Incomplete(_)))
    }

    // ------------------------------------------------------------------------------------------------------
    /// (P) `be_raw_parameter`: id varint, length varint, `length` bytes of value.
    /// bound: 18 input bytes = longest id (8) + longest length field (8) + 2 value bytes; longer inputs only
    /// lengthen the `take(length)` slice.
    #[kani::proof]
    #[kani::unwind(10)]
    #[kani::stub(crate::varint::be_varint, be_varint_spec)]
    fn raw_parameter_contract() {
        const N: usize = 18;
        let buf: [u8; N] = kani::any();
        let n: usize = kani::any();
        kani::assume(n <= N);
        let input = &buf[..n];
        let r = be_raw_parameter(input);
        // independent description of a complete parameter at the head of `input`
        let complete = n >= 1 && {
            let il = varint_len(buf[0]);
            n > il && {
                let ll = varint_len(buf[il]);
                n >= il + ll && (varint_val(&buf[il..]) as u128) <= (n - il - ll) as u128
            }
        };
        match &r {
            Ok((rest, (id, data))) => {
                let il = varint_len(buf[0]);
                let ll = varint_len(buf[il]);
                let consumed = n - rest.len();
                assert!(complete, "C03.param.raw.ok_only_on_complete_parameter");
                assert!(consumed >= 2, "C03.param.raw.progress_at_least_two_bytes");
                assert!(consumed == il + ll + data.len(), "C03.param.raw.consumed_is_id_len_value");
                assert!(data.len() as u64 == varint_val(&buf[il..]), "C03.param.raw.value_has_announced_length");
                assert!(id.into_u64() == varint_val(&buf[..]), "C03.param.raw.id_is_rfc_varint");
                assert!(
                    data.as_ptr() == buf[il + ll..].as_ptr() && rest.as_ptr() == buf[consumed..].as_ptr(),
                    "C03.param.raw.value_and_rest_are_the_following_bytes"
                );
            }
            Err(_) => {
                assert!(!complete, "C03.param.raw.complete_parameter_accepted");
                assert!(is_incomplete(&r), "C03.param.raw.error_is_incomplete_only");
            }
        }
        kani::cover!(r.is_ok() && n == N, "C03.param.raw.reach_longest");
        kani::cover!(matches!(&r, Ok((rest, (_, data))) if data.is_empty() && !rest.is_empty()), "C03.param.raw.reach_empty_value_with_rest");
        kani::cover!(r.is_err() && n == 0, "C03.param.raw.reach_empty_input");
        kani::cover!(r.is_err() && n == N && buf[0] < 0x40 && buf[1] >= 0xc0, "C03.param.raw.reach_huge_length");
    }

    // ------------------------------------------------------------------------------------------------------
    /// integer-valued parameters, value field of exactly one varint or a truncated one. Run on one id of the VarInt
    /// kind and one of the Duration kind: all twelve integer ids (`id_lists_cover_every_id`) take one of these two
    /// match arms of `be_parameter_value` (a loop over all twelve ran 22 CPU minutes and out of memory).
    #[kani::proof]
    #[kani::unwind(12)]
    #[kani::stub(crate::varint::be_varint, be_varint_spec)]
    fn value_integer_contract() {
        let buf: [u8; 8] = kani::any();
        let n: usize = kani::any();
        // excluded: value field longer than its varint -- pinned by value_integer_surplus (expect_fail)
        kani::assume(n <= 8 && (n == 0 || n <= varint_len(buf[0])));
        let whole = n != 0 && n == varint_len(buf[0]);
        let r = be_parameter_value(&buf[..n], ParameterId::InitialMaxData);
        match &r {
            Ok((rest, ParameterValue::VarInt(d))) => {
                assert!(rest.is_empty(), "C03.param.value.integer.ok_leaves_no_remainder");
                assert!(whole, "C03.param.value.integer.ok_only_on_whole_varint");
                assert!(d.into_u64() == varint_val(&buf[..]), "C03.param.value.integer.value_is_rfc_varint");
            }
            Ok(_) => assert!(false, "C03.param.value.integer.type_matches_id"),
            Err(_) => {
                assert!(is_incomplete(&r), "C03.param.value.integer.error_is_incomplete_only");
                assert!(!whole, "C03.param.value.integer.whole_varint_accepted");
            }
        }
        let r = be_parameter_value(&buf[..n], ParameterId::MaxIdleTimeout);
        match &r {
            Ok((rest, ParameterValue::Duration(d))) => {
                assert!(rest.is_empty(), "C03.param.value.integer.ok_leaves_no_remainder");
                assert!(whole, "C03.param.value.integer.ok_only_on_whole_varint");
                assert!(*d == Duration::from_millis(varint_val(&buf[..])), "C03.param.value.integer.duration_is_milliseconds");
            }
            Ok(_) => assert!(false, "C03.param.value.integer.type_matches_id"),
            Err(_) => {
                assert!(is_incomplete(&r), "C03.param.value.integer.error_is_incomplete_only");
                assert!(!whole, "C03.param.value.integer.whole_varint_accepted");
            }
        }
        kani::cover!(whole && n == 8, "C03.param.value.integer.reach_8byte");
        kani::cover!(whole && n == 1, "C03.param.value.integer.reach_1byte");
        kani::cover!(n == 0, "C03.param.value.integer.reach_empty");
        kani::cover!(!whole && n == 3, "C03.param.value.integer.reach_truncated");
    }

    /// FORMERLY KNOWN-BAD REGION (repaired by fix 8b88434): an integer-valued parameter whose length field exceeds the varint inside.
    /// `be_parameter_value` returns Ok with a non-empty remainder; `parse_from_bytes` then hits
    /// `assert!(remain.is_empty())`. Witness blob e.g. [0x04, 0x02, 0x00, 0x00] (initial_max_data, len 2).
    #[kani::proof]
    #[kani::unwind(10)]
    #[kani::stub(crate::varint::be_varint, be_varint_spec)]
    fn value_integer_surplus() {
        let buf: [u8; 9] = kani::any();
        let n: usize = kani::any();
        kani::assume(n >= 1 && n <= 9 && n > varint_len(buf[0]));
        kani::cover!(n == 2, "C03.param.value.integer_surplus.reach_witness");
        // one VarInt-kind and one Duration-kind id (all twelve take the same two code paths, see the general harness)
        let r = be_parameter_value(&buf[..n], ParameterId::InitialMaxData);
// (after fix 8b88434 the caller turns a non-empty remainder / a non-Incomplete error into TRANSPORT_PARAMETER_ERROR; what remains
        // under contract here is that the value parser itself never panics on these inputs: the harness's `.safety` obligation)
        assert!(r.is_ok() || r.is_err(), "C03.param.value.integer_surplus.value_parser_returns");
        let r = be_parameter_value(&buf[..n], ParameterId::MaxIdleTimeout);
        assert!(r.is_ok() || r.is_err(), "C03.param.value.integer_surplus.value_parser_returns");
    }

    // ------------------------------------------------------------------------------------------------------
    /// zero-length flags (disable_active_migration, grease_quic_bit): RFC 9000 §18.2 "This parameter is a
    /// zero-length value."
    #[kani::proof]
    fn value_flag_contract() {
        let x: u8 = kani::any();
        let mut k = 0;
        while k < FLAG_IDS.len() {
            let r = be_parameter_value(&[], FLAG_IDS[k]);
            assert!(matches!(&r, Ok((rest, ParameterValue::True)) if rest.is_empty()), "C03.param.value.flag.empty_value_is_true");
            k += 1;
        }
        kani::cover!(x == 0, "C03.param.value.flag.reach_end");
    }

    /// FORMERLY KNOWN-BAD REGION (repaired by fix 8b88434): a flag parameter with a non-empty value. Ok with the whole value as
    /// remainder -> `assert!(remain.is_empty())` in `parse_from_bytes`. Witness blob [0x0c, 0x01, 0x00].
    #[kani::proof]
    fn value_flag_with_payload() {
        let buf: [u8; 2] = kani::any();
        let n: usize = kani::any();
        kani::assume(n >= 1 && n <= 2);
        let mut k = 0;
        while k < FLAG_IDS.len() {
            let r = be_parameter_value(&buf[..n], FLAG_IDS[k]);
            assert!(matches!(&r, Ok((rest, ParameterValue::True)) if rest.len() == n), "C03.param.value.flag_payload.whole_payload_is_left_as_remainder_for_the_caller_to_refuse");
            k += 1;
        }
    }

    // ------------------------------------------------------------------------------------------------------
    /// opaque bytes (the private client_name extension). bound: value of at most 4 bytes.
    #[kani::proof]
    #[kani::unwind(6)]
    fn value_bytes_contract() {
        let buf: [u8; 4] = kani::any();
        let n: usize = kani::any();
        kani::assume(n <= 4);
        let id = ParameterId::ClientName;
        let r = be_parameter_value(&buf[..n], id);
        match &r {
            Ok((rest, ParameterValue::Bytes(b))) => {
                assert!(rest.is_empty(), "C03.param.value.bytes.ok_leaves_no_remainder");
                let mut same = b.len() == n;
                let mut i = 0;
                while i < n && same {
                    same = b[i] == buf[i];
                    i += 1;
                }
                assert!(same, "C03.param.value.bytes.value_is_the_input");
            }
            _ => assert!(false, "C03.param.value.bytes.always_ok_with_bytes"),
        }
        kani::cover!(n == 0, "C03.param.value.bytes.reach_empty");
        kani::cover!(n == 4, "C03.param.value.bytes.reach_4");
        std::mem::forget(r); // dropping a `Bytes` is a call through its vtable (tool cost only)
    }

    // ------------------------------------------------------------------------------------------------------
    /// stateless_reset_token: exactly 16 bytes (RFC 9000 §18.2 "This parameter is a sequence of 16 bytes.")
    #[kani::proof]
    #[kani::unwind(18)]
    fn value_reset_token_contract() {
        let buf: [u8; 16] = kani::any();
        let id = ParameterId::StatelessResetToken;
        let r = be_parameter_value(&buf[..], id);
        match &r {
            Ok((rest, ParameterValue::ResetToken(t))) => {
                assert!(rest.is_empty(), "C03.param.value.token.ok_leaves_no_remainder");
                assert!(**t == buf, "C03.param.value.token.value_is_the_input");
            }
            _ => assert!(false, "C03.param.value.token.sixteen_bytes_accepted"),
        }
    }

    /// FORMERLY KNOWN-BAD REGION (repaired by fix 8b88434): stateless_reset_token whose length is not 16.
    /// shorter: `be_reset_token` uses nom's *complete* take -> Err(Error(Eof)), which trips
    /// `assert!(matches!(nom_error, Incomplete))` in `handle_nom_error`;  longer: Ok with a remainder -> trips
    /// `assert!(remain.is_empty())`. Witness blobs (server's set): [0x02, 0x01, 0x00] and [0x02, 0x11, 17 bytes].
    #[kani::proof]
    #[kani::unwind(20)]
    fn value_reset_token_wrong_length() {
        let buf: [u8; 18] = kani::any();
        let n: usize = kani::any();
        kani::assume(n <= 18 && n != 16);
        let r = be_parameter_value(&buf[..n], ParameterId::StatelessResetToken);
        kani::cover!(n == 1, "C03.param.value.token_length.reach_short");
        kani::cover!(n == 17, "C03.param.value.token_length.reach_long");
// (after fix 8b88434 the caller turns a non-empty remainder / a non-Incomplete error into TRANSPORT_PARAMETER_ERROR; what remains
        // under contract here is that the value parser itself never panics on these inputs: the harness's `.safety` obligation)
        assert!(n < 16 || matches!(&r, Ok((rest, _)) if rest.len() == n - 16), "C03.param.value.token_length.surplus_is_left_as_remainder_for_the_caller_to_refuse");
        assert!(n >= 16 || r.is_err(), "C03.param.value.token_length.short_token_is_an_error");
    }

    // ------------------------------------------------------------------------------------------------------
    /// connection-id valued parameters: the value is the id itself, 0..=20 bytes (RFC 9000 §17.2 / §18.2)
    #[kani::proof]
    #[kani::unwind(22)]
    fn value_cid_contract() {
        let buf: [u8; 20] = kani::any();
        let n: usize = kani::any();
        kani::assume(n <= 20); // excluded: longer values -- pinned by value_cid_overlong (expect_fail)
        let mut k = 0;
        while k < CID_IDS.len() {
            value_cid_case(CID_IDS[k], &buf, n);
            k += 1;
        }
        kani::cover!(n == 0, "C03.param.value.cid.reach_zero_length");
        kani::cover!(n == 20, "C03.param.value.cid.reach_20");
    }

    fn value_cid_case(id: ParameterId, buf: &[u8; 20], n: usize) {
        let r = be_parameter_value(&buf[..n], id);
        match &r {
            Ok((rest, ParameterValue::ConnectionId(c))) => {
                assert!(rest.is_empty(), "C03.param.value.cid.ok_leaves_no_remainder");
                let mut same = c.len as usize == n;
                let mut i = 0;
                while i < 20 {
                    same &= if i < n { c.bytes[i] == buf[i] } else { c.bytes[i] == 0 };
                    i += 1;
                }
                assert!(same, "C03.param.value.cid.value_is_the_input");
            }
            _ => assert!(false, "C03.param.value.cid.up_to_20_bytes_accepted"),
        }
    }

    /// KNOWN-BAD REGION (expect_fail, the failing obligation is `<id>.safety`): a connection-id valued parameter
    /// longer than 20 bytes. `ConnectionId::from_slice` panics (debug_assert!, and in release the slice index
    /// `res.bytes[..bytes.len()]`). Reachable by a *client* before authentication: ClientHello with
    /// initial_source_connection_id of 21 bytes: [0x0f, 0x15, 21 bytes].
    #[kani::proof]
    #[kani::unwind(24)]
    fn value_cid_overlong() {
        let buf: [u8; 22] = kani::any();
        let n: usize = kani::any();
        kani::assume(n == 21 || n == 22);
        let id = ParameterId::InitialSourceConnectionId; // the one a client can send before authentication
        kani::cover!(n == 21, "C03.param.value.cid_overlong.reach_witness");
        let r = be_parameter_value(&buf[..n], id);
        assert!(r.is_err(), "C03.param.value.cid_overlong.rejected_with_error");
    }

    // ------------------------------------------------------------------------------------------------------
    const PA_MAX: usize = 4 + 2 + 16 + 2 + 1 + 20 + 16; // 61

    /// where a preferred_address value of `n` bytes stops being well formed (RFC 9000 §18.2 figure 22):
    /// 0 = well formed or cut before the reset token (streaming `take`s -> Incomplete), 1 = cid length > 20,
    /// 2 = cut inside the reset token, 3 = surplus bytes after the token
    fn pa_defect(buf: &[u8; PA_MAX + 1], n: usize) -> u8 {
        if n < 25 {
            return 0;
        }
        let cl = buf[24] as usize;
        if cl > 20 {
            1
        } else if n < 25 + cl {
            0
        } else if n < 25 + cl + 16 {
            2
        } else if n > 25 + cl + 16 {
            3
        } else {
            0
        }
    }

    /// preferred_address. bound: none beyond the format (the longest well-formed value is 61 bytes; 62 are given).
    #[kani::proof]
    #[kani::unwind(24)]
    fn value_preferred_address_contract() {
        let buf: [u8; PA_MAX + 1] = kani::any();
        let n: usize = kani::any();
        kani::assume(n <= PA_MAX + 1);
        kani::assume(pa_defect(&buf, n) == 0); // excluded: pinned by value_preferred_address_malformed
        let r = be_parameter_value(&buf[..n], ParameterId::PreferredAddress);
        match &r {
            Ok((rest, ParameterValue::PreferredAddress(pa))) => {
                let cl = buf[24] as usize;
                assert!(rest.is_empty(), "C03.param.value.pa.ok_leaves_no_remainder");
                assert!(n == 25 + cl + 16, "C03.param.value.pa.ok_only_on_whole_value");
                let v4 = pa.address_v4();
                assert!(
                    v4.ip().octets() == [buf[0], buf[1], buf[2], buf[3]] && v4.port() == u16::from_be_bytes([buf[4], buf[5]]),
                    "C03.param.value.pa.v4_address_and_port"
                );
                let v6 = pa.address_v6();
                let mut same = v6.port() == u16::from_be_bytes([buf[22], buf[23]]);
                let o = v6.ip().octets();
                let mut i = 0;
                while i < 16 {
                    same &= o[i] == buf[6 + i];
                    i += 1;
                }
                assert!(same, "C03.param.value.pa.v6_address_and_port");
                let c = pa.connection_id();
                let t = pa.stateless_reset_token();
                let mut same = c.len as usize == cl;
                let mut i = 0;
                while i < 20 {
                    same &= i >= cl || c.bytes[i] == buf[25 + i];
                    i += 1;
                }
                let mut i = 0;
                while i < 16 {
                    same &= t[i] == buf[25 + cl + i];
                    i += 1;
                }
                assert!(same, "C03.param.value.pa.cid_and_token");
            }
            Ok(_) => assert!(false, "C03.param.value.pa.type_matches_id"),
            Err(_) => {
                assert!(is_incomplete(&r), "C03.param.value.pa.error_is_incomplete_only");
                assert!(n < 25 || n < 25 + buf[24] as usize, "C03.param.value.pa.whole_value_accepted");
            }
        }
        kani::cover!(r.is_ok() && n == PA_MAX, "C03.param.value.pa.reach_longest");
        kani::cover!(r.is_ok() && n == 41, "C03.param.value.pa.reach_zero_length_cid");
        kani::cover!(r.is_err() && n == 30, "C03.param.value.pa.reach_cut_in_cid");
        kani::cover!(r.is_err() && n == 3, "C03.param.value.pa.reach_cut_in_v4");
    }

    /// FORMERLY KNOWN-BAD REGION (repaired by fix 8b88434): malformed preferred_address values.
    /// cid length byte > 20 -> Err(Error(TooLarge)); cut inside the reset token -> Err(Error(Eof)) (both trip
    /// handle_nom_error's assert!); surplus bytes -> Ok with remainder (trips assert!(remain.is_empty())).
    #[kani::proof]
    #[kani::unwind(24)]
    fn value_preferred_address_malformed() {
        let buf: [u8; PA_MAX + 1] = kani::any();
        let n: usize = kani::any();
        kani::assume(n <= PA_MAX + 1);
        let d = pa_defect(&buf, n);
        kani::assume(d != 0);
        let r = be_parameter_value(&buf[..n], ParameterId::PreferredAddress);
        kani::cover!(d == 1, "C03.param.value.pa_malformed.reach_cid_too_long");
        kani::cover!(d == 2, "C03.param.value.pa_malformed.reach_cut_in_token");
        kani::cover!(d == 3, "C03.param.value.pa_malformed.reach_surplus");
// (after fix 8b88434 the caller turns a non-empty remainder / a non-Incomplete error into TRANSPORT_PARAMETER_ERROR; what remains
        // under contract here is that the value parser itself never panics on these inputs: the harness's `.safety` obligation)
        assert!(d == 3 || r.is_err(), "C03.param.value.pa_malformed.bad_cid_length_or_cut_token_is_an_error");
        assert!(d != 3 || matches!(&r, Ok((rest, _)) if !rest.is_empty()), "C03.param.value.pa_malformed.surplus_is_left_as_remainder_for_the_caller_to_refuse");
    }

    // ------------------------------------------------------------------------------------------------------
    /// `param::Error -> QuicError`: every parameter error is reported as TRANSPORT_PARAMETER_ERROR (RFC 9000 §7.4,
    /// §20.1) attributed to the CRYPTO frame that carried the handshake message.
    #[kani::proof]
    #[kani::unwind(24)]
    fn error_mapping_contract() {
        let x: u64 = kani::any();
        kani::assume(x <= VARINT_MAX);
        let id = INTEGER_IDS[(kani::any::<u8>() % 12) as usize];
        let role = if kani::any() { Role::Client } else { Role::Server };
        let e = match kani::any::<u8>() % 7 {
            0 => Error::IncompleteParameterId(String::new()),
            1 => Error::UnknownParameterId(VarInt::from_u64(x).unwrap()),
            2 => Error::LackParameterId(role, id),
            3 => Error::InvalidParameterId(id, role),
            4 => Error::IncompleteValue(id, String::new()),
            5 => Error::InvalidValueType(id, ParameterValueType::Bytes),
            _ => Error::OutOfBounds(id, x, 2..=VARINT_MAX),
        };
        let q: QuicError = e.into();
        assert!(q.kind() == crate::error::ErrorKind::TransportParameter, "C03.param.error.kind_is_transport_parameter");
        assert!(
            q.frame_type() == crate::error::ErrorFrameType::from(crate::frame::FrameType::Crypto),
            "C03.param.error.frame_type_is_crypto"
        );
    }
}
