import json, subprocess, sys
t=open('/verif/notes/seed_prompt_template.md').read()
ids=sys.argv[1:]
for l in open('/verif/properties.jsonl'):
    p=json.loads(l)
    if p['id'] in ids:
        wt='/tmp/seed-'+p['id'].lower()
        subprocess.run(['git','-C','/repo','worktree','add','-q','--detach',wt,'HEAD'],check=True)
        anchors='; '.join(f"{m.get('name')} ({m.get('where')})" for m in p['anchors']['mechanism'])+' — files: '+', '.join(p['anchors']['files'])
        s=t.format(WT=wt,ID=p['id'],TITLE=p['title'],STATEMENT=p['statement'],QUANT=p['quantifier']['text'],ANCHORS=anchors,N=3)
        open(f"/tmp/seed_prompt_{p['id']}.txt",'w').write(s)
        print('ready',p['id'])
