#![feature(allocator_api)]
use vstd::prelude::*;
use std::collections::VecDeque;
verus! {
pub assume_specification<T, A: std::alloc::Allocator> [std::collections::VecDeque::<T, A>::get] (d: &VecDeque<T, A>, i: usize) -> (r: Option<&T>)
    ensures i >= d@.len() ==> r.is_none(), i < d@.len() ==> r == Some(&d@[i as int]);
pub assume_specification<T, A: std::alloc::Allocator> [std::collections::VecDeque::<T, A>::front] (d: &VecDeque<T, A>) -> (r: Option<&T>)
    ensures d@.len() == 0 ==> r.is_none(), d@.len() > 0 ==> r == Some(&d@[0]);
pub assume_specification [usize::overflowing_add] (a: usize, b: usize) -> (r: (usize, bool))
    ensures a + b <= usize::MAX ==> r.0 == a + b && !r.1, a + b > usize::MAX ==> r.0 == a + b - usize::MAX - 1 && r.1;

#[derive(Default, PartialEq, Eq, Clone, Copy, Structural)]
enum Color {
    #[default]
    Pending,
    Flighting,
    Recved,
    Lost,
}

#[derive(PartialEq, PartialOrd, Eq, Clone, Copy)]
struct State(u64);

spec fn color_of(x: u64) -> Color {
    if x >> 62 == 0 { Color::Pending } else if x >> 62 == 1 { Color::Flighting } else if x >> 62 == 2 { Color::Lost } else { Color::Recved }
}

impl State {
    const SUFFIX: u64 = u64::MAX >> 2;

    fn offset(&self) -> (r: u64)
        ensures r == self.0 & 0x3fff_ffff_ffff_ffffu64
    {
        assert(u64::MAX >> 2 == 0x3fff_ffff_ffff_ffffu64) by(bit_vector);
        self.0 & Self::SUFFIX
    }

    fn color(&self) -> (r: Color)
        ensures r == color_of(self.0)
    {
        let ghost x = self.0;
        assert(x >> 62 <= 3) by(bit_vector);
        match self.0 >> 62 {
            0b00 => Color::Pending,
            0b01 => Color::Flighting,
            0b10 => Color::Lost,
            0b11 => Color::Recved,
            _ => unreachable!("impossible"),
        }
    }
}

struct BufMap(VecDeque<State>, u64);

impl BufMap {
    fn size(&self) -> (r: u64) ensures r == self.1 {
        self.1
    }

    fn same_after(&self, mut index: usize, color: Color) -> (r: usize)
        requires index < self.0@.len() || index == usize::MAX, self.0@.len() < usize::MAX,
        ensures
            index < self.0@.len() ==> index <= r < self.0@.len(),
            index < self.0@.len() ==> forall|j: int| index < j <= r ==> color_of(self.0@[j].0) == color,
            index < self.0@.len() ==> (r + 1 < self.0@.len() ==> color_of(self.0@[r + 1].0) != color),
    {
        let ghost index0 = index;
        loop
            invariant
                self.0@.len() < usize::MAX,
                index0 < self.0@.len() ==> index0 <= index < self.0@.len(),
                index0 < self.0@.len() ==> forall|j: int| index0 < j <= index ==> color_of(self.0@[j].0) == color,
                index0 == usize::MAX ==> (index == usize::MAX || index < self.0@.len()),
            ensures
                index0 < self.0@.len() ==> index0 <= index < self.0@.len(),
                index0 < self.0@.len() ==> forall|j: int| index0 < j <= index ==> color_of(self.0@[j].0) == color,
                index0 < self.0@.len() ==> (index + 1 < self.0@.len() ==> color_of(self.0@[index + 1].0) != color),
            decreases (if index == usize::MAX { self.0@.len() as int + 1 } else { self.0@.len() as int - index as int }),
        {
            let next = index.overflowing_add(1).0;
            match self.0.get(next) {
                Some(s) if s.color() == color => index = next,
                _ => break,
            }
        }
        index
    }
}
}
fn main(){}
