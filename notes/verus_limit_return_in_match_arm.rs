use vstd::prelude::*;
verus! {
struct S { a: u64, b: u64 }
impl S {
    fn f(&mut self) -> (r: u64)
        requires old(self).a < 10
        ensures final(self).b == old(self).b, 
    {
        loop
            invariant self.b == old(self).b, self.a <= 10
            decreases 10 - self.a
        {
            if self.a < 10 { self.a = self.a + 1; } else { return self.b; }
        }
    }
    #[verifier::loop_isolation(false)]
    fn g(&mut self) -> (r: u64)
        requires old(self).a < 10
        ensures final(self).b == old(self).b,
    {
        loop
            invariant self.b == old(self).b, self.a <= 10
            decreases 10 - self.a
        {
            let e = if self.a < 10 { Some(self.a) } else { None };
            match e {
                Some(x) if x < 10 => { self.a = self.a + 1; }
                Some(x) => return x,
                None => return self.b,
            }
        }
    }
}
}
