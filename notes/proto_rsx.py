#!/usr/bin/env python3
"""Prototype: extract Rust items (fn/struct/enum/impl methods/const) by name with brace matching."""
import re, sys

def mask(src):
    """Return a copy of src where comments/strings/chars are replaced by spaces (same length)."""
    out = list(src); i = 0; n = len(src)
    def blank(a, b):
        for k in range(a, b):
            if out[k] != '\n': out[k] = ' '
    while i < n:
        c = src[i]
        if src.startswith('//', i):
            j = src.find('\n', i); j = n if j < 0 else j
            blank(i, j); i = j
        elif src.startswith('/*', i):
            depth = 1; j = i + 2
            while j < n and depth:
                if src.startswith('/*', j): depth += 1; j += 2
                elif src.startswith('*/', j): depth -= 1; j += 2
                else: j += 1
            blank(i, j); i = j
        elif c == '"' or (c == 'r' and re.match(r'r#*"', src[i:]) ) or (c=='b' and i+1<n and src[i+1]=='"'):
            m = re.match(r'b?r(#*)"', src[i:])
            if m:
                hashes = m.group(1); end = '"' + hashes
                j = src.find(end, i + len(m.group(0))); j = n if j < 0 else j + len(end)
            else:
                j = i + (2 if c == 'b' else 1)
                while j < n and src[j] != '"':
                    j += 2 if src[j] == '\\' else 1
                j += 1
            blank(i + 1, j - 1); i = j
        elif c == "'":
            m = re.match(r"'(\\.[^']*|[^'\\])'", src[i:])
            if m: blank(i + 1, i + len(m.group(0)) - 1); i += len(m.group(0))
            else: i += 1  # lifetime
        else:
            i += 1
    return ''.join(out)

def match_brace(m, i):
    depth = 0
    while i < len(m):
        if m[i] == '{': depth += 1
        elif m[i] == '}':
            depth -= 1
            if depth == 0: return i
        i += 1
    raise ValueError("unbalanced")

def item_span(src, m, start_kw):
    """Given index of keyword start (after attrs), return (start_with_attrs, end_exclusive)."""
    # walk back over attributes / doc comments / visibility
    line_start = src.rfind('\n', 0, start_kw) + 1
    s = line_start
    while True:
        prev_end = s - 1
        if prev_end <= 0: break
        prev_start = src.rfind('\n', 0, prev_end) + 1
        line = src[prev_start:prev_end].strip()
        if line.startswith('#[') or line.startswith('///') or line.startswith('//!'):
            s = prev_start
        else: break
    # find body: first '{' or ';' at depth 0 of () <> [] after start_kw
    i = start_kw; par = 0
    while i < len(m):
        ch = m[i]
        if ch in '([': par += 1
        elif ch in ')]': par -= 1
        elif ch == '{' and par == 0:
            return s, match_brace(m, i) + 1
        elif ch == ';' and par == 0:
            return s, i + 1
        i += 1
    raise ValueError

def find_impl_blocks(src, m, type_name):
    res = []
    for mm in re.finditer(r'(?m)^\s*impl\b([^{;]*)\{', m):
        hdr = mm.group(1)
        # the implementing type = last path segment before '{' / 'where', after optional 'for'
        h = re.split(r'\bwhere\b', hdr)[0]
        if ' for ' in h: tgt = h.split(' for ')[-1]; trait = h.split(' for ')[0]
        else: tgt = h; trait = None
        tgt = re.sub(r'^<[^>]*>', '', tgt.strip()).strip()
        name = re.match(r'[\w:]+', tgt)
        if name and name.group(0).split('::')[-1] == type_name:
            ob = mm.end() - 1
            res.append((mm.start(), ob, match_brace(m, ob), trait.strip() if trait else None))
    return res

def extract(path, spec):
    """spec: 'fn name' | 'struct Name' | 'enum Name' | 'const NAME' | 'Type::method' | 'Type::<Trait>::method'"""
    src = open(path).read(); m = mask(src)
    if '::' in spec:
        parts = spec.split('::'); ty, meth = parts[0], parts[-1]
        trait = parts[1].strip('<>') if len(parts) == 3 else None
        for (_, ob, cb, tr) in find_impl_blocks(src, m, ty):
            if trait and (tr is None or trait not in tr): continue
            if not trait and tr is not None: continue
            for mm in re.finditer(r'\bfn\s+' + re.escape(meth) + r'\b', m[ob:cb]):
                k = ob + mm.start()
                # ensure depth 1 within impl
                depth = m[ob:k].count('{') - m[ob:k].count('}')
                if depth != 1: continue
                # include qualifiers (pub, const, unsafe, async, pub(crate))
                ls = src.rfind('\n', 0, k) + 1
                s, e = item_span(src, m, ls + (len(src[ls:k]) - len(src[ls:k].lstrip())))
                return src[s:e]
        raise KeyError(spec)
    kw, name = spec.split()
    mm = re.search(r'(?m)^[ \t]*(pub(\([^)]*\))?\s+)?(const\s+|unsafe\s+|async\s+)*' + kw + r'\s+' + re.escape(name) + r'\b', m)
    if not mm: raise KeyError(spec)
    s, e = item_span(src, m, mm.start() + (len(mm.group(0)) - len(mm.group(0).lstrip())))
    return src[s:e]

if __name__ == '__main__':
    path = sys.argv[1]
    for spec in sys.argv[2:]:
        print(extract(path, spec)); print()
