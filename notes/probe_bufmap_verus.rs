#![feature(allocator_api)]
use vstd::prelude::*;
use std::collections::VecDeque;
use std::cmp::Ordering;
use std::ops::Range;
verus! {
pub assume_specification<T, A: std::alloc::Allocator> [std::collections::VecDeque::<T, A>::front] (d: &VecDeque<T, A>) -> (r: Option<&T>)
    ensures d@.len() == 0 ==> r.is_none(), d@.len() > 0 ==> r == Some(&d@[0]);
pub assume_specification<T, A: std::alloc::Allocator> [std::collections::VecDeque::<T, A>::back] (d: &VecDeque<T, A>) -> (r: Option<&T>)
    ensures d@.len() == 0 ==> r.is_none(), d@.len() > 0 ==> r == Some(&d@[d@.len()-1]);
pub assume_specification<T, A: std::alloc::Allocator> [std::collections::VecDeque::<T, A>::get] (d: &VecDeque<T, A>, i: usize) -> (r: Option<&T>)
    ensures i >= d@.len() ==> r.is_none(), i < d@.len() ==> r == Some(&d@[i as int]);

pub assume_specification<'a, T, A: std::alloc::Allocator, F: FnMut(&'a T) -> Ordering> [std::collections::VecDeque::<T, A>::binary_search_by] (d: &'a VecDeque<T, A>, f: F) -> (r: Result<usize, usize>)
    ensures
        match r {
            Ok(i) => i < d@.len() && f.ensures((&d@[i as int],), Ordering::Equal),
            Err(i) => i <= d@.len()
                && (forall|j: int| 0 <= j < i ==> f.ensures((&d@[j],), Ordering::Less))
                && (forall|j: int| i <= j < d@.len() ==> f.ensures((&d@[j],), Ordering::Greater)),
        };

#[verifier::external_body]
fn vd_drain_range<T>(d: &mut VecDeque<T>, a: usize, b: usize)
    requires a <= b <= old(d)@.len(),
    ensures final(d)@ == old(d)@.subrange(0, a as int) + old(d)@.subrange(b as int, old(d)@.len() as int)
{ d.drain(a..b); }

pub assume_specification [usize::overflowing_sub] (a: usize, b: usize) -> (r: (usize, bool))
    ensures a >= b ==> r.0 == a - b && !r.1, a < b ==> r.0 == a + usize::MAX + 1 - b && r.1;
pub assume_specification [usize::overflowing_add] (a: usize, b: usize) -> (r: (usize, bool))
    ensures a + b <= usize::MAX ==> r.0 == a + b && !r.1, a + b > usize::MAX ==> r.0 == a + b - usize::MAX - 1 && r.1;
pub assume_specification<T, A: std::alloc::Allocator> [std::collections::VecDeque::<T, A>::get_mut] (d: &mut VecDeque<T, A>, i: usize) -> (r: Option<&mut T>);
/// To indicate the state of a data segment, it is colored.
#[derive(Default, PartialEq, Eq, Clone, Copy, Debug)]
enum Color {
    #[default]
    Pending,
    Flighting,
    Recved,
    Lost,
}

impl Color {
    fn prefix(&self) -> u64 {
        match self {
            Self::Pending => 0,
            Self::Flighting => 0b01 << 62,
            Self::Lost => 0b10 << 62,
            Self::Recved => 0b11 << 62,
        }
    }

}
#[derive(PartialEq, PartialOrd, Eq, Clone, Copy)]
struct State(u64);

impl State {
    const SUFFIX: u64 = u64::MAX >> 2;

    fn encode(pos: u64, color: Color) -> Self {
        Self(color.prefix() | pos)
    }

    fn offset(&self) -> u64 {
        self.0 & Self::SUFFIX
    }

    fn color(&self) -> Color {
        match self.0 >> 62 {
            0b00 => Color::Pending,
            0b01 => Color::Flighting,
            0b10 => Color::Lost,
            0b11 => Color::Recved,
            _ => unreachable!("impossible"),
        }
    }

    fn set_color(&mut self, value: Color) {
        self.0 = (self.0 & Self::SUFFIX) | value.prefix();
    }

    fn decode(&self) -> (u64, Color) {
        (self.offset(), self.color())
    }

}
struct BufMap(VecDeque<State>, u64);

impl BufMap {
    fn size(&self) -> u64 {
        self.1
    }

    fn extend_to(&mut self, pos: u64) -> u64 {
        debug_assert!(pos < (1 << 62), "pos({pos}) overflow",);
        debug_assert!(pos >= self.size(), "pos({pos}) less than {}", self.size());

        if pos > self.size() {
            let back = self.0.back();
            match back {
                Some(s) if s.color() == Color::Pending => {}
                _ => self.0.push_back(State::encode(self.size(), Color::Pending)),
            };
            self.1 = pos;
        }
        self.size()
    }

    fn sent(&self) -> u64 {
        match self.0.back() {
            Some(s) if s.color() == Color::Pending => s.offset(),
            _ => self.size(),
        }
    }

    fn ack_rcvd(&mut self, range: &Range<u64>) {
        let pos = self.0.binary_search_by(|s| s.offset().cmp(&range.start));
        let (mut drain_start, need_insert_at_start, mut drain_end, mut pre_color) = match pos {
            Ok(idx) => {
                let s = self.0.get_mut(idx).unwrap();
                let pre_color = s.color();
                debug_assert!(
                    pre_color != Color::Pending,
                    "Recved Range({:?}) covered Pending part from {}",
                    range,
                    s.offset()
                );
                s.set_color(Color::Recved);
                (
                    self.same_before(idx, Color::Recved) + 1,
                    false,
                    idx + 1,
                    pre_color,
                )
            }
            Err(idx) => {
                if idx == 0 {
                    (0, false, 0, Color::Recved)
                } else {
                    let s = self.0.get(idx - 1).unwrap();
                    let pre_color = s.color();
                    debug_assert!(
                        pre_color != Color::Pending,
                        "Recved Range({:?}) covered Pending part from {}",
                        range,
                        s.offset()
                    );
                    (idx, pre_color != Color::Recved, idx, pre_color)
                }
            }
        };

        let mut need_insert_at_end = false;
        loop {
            let entry = self.0.get(drain_end);
            match entry {
                Some(s) => match s.offset().cmp(&range.end) {
                    Ordering::Less => {
                        debug_assert!(
                            s.color() != Color::Pending,
                            "Recved Range({:?}) covered Pending parts from {}",
                            range,
                            s.offset()
                        );
                        drain_end += 1;
                        pre_color = s.color();
                    }
                    Ordering::Equal => {
                        // TODO: nightly版本, overflowing_sub 改为unchecked_sub更好
                        drain_end = self
                            .same_after(drain_end.overflowing_sub(1).0, Color::Recved)
                            .overflowing_add(1)
                            .0;
                        break;
                    }
                    Ordering::Greater => {
                        need_insert_at_end = pre_color != Color::Recved;
                        break;
                    }
                },
                None => {
                    debug_assert!(
                        range.end <= self.size(),
                        "Recved Range({:?}) over {}",
                        range,
                        self.size()
                    );
                    need_insert_at_end = range.end < self.size() && pre_color != Color::Recved;
                    break;
                }
            }
        }

        if need_insert_at_start {
            if drain_start < drain_end {
                *self.0.get_mut(drain_start).unwrap() = State::encode(range.start, Color::Recved);
            } else {
                self.0
                    .insert(drain_start, State::encode(range.start, Color::Recved));
            }
            drain_start += 1;
        }
        if need_insert_at_end {
            if drain_start < drain_end {
                *self.0.get_mut(drain_start).unwrap() = State::encode(range.end, pre_color);
            } else {
                self.0
                    .insert(drain_start, State::encode(range.end, pre_color));
            }
            drain_start += 1;
        }
        if drain_start < drain_end {
            vd_drain_range(&mut self.0, drain_start, drain_end);
        }
    }

    fn shift(&mut self) -> u64 {
        loop {
            let entry = self.0.front();
            match entry {
                Some(s) if s.color() == Color::Recved => { let _ = self.0.pop_front(); }
                Some(s) => return s.offset(),
                None => return self.size(),
            }
        }
    }

    fn may_loss(&mut self, range: &Range<u64>) {
        let pos = self.0.binary_search_by(|s| s.offset().cmp(&range.start));
        let (mut drain_start, need_insert_at_start, mut drain_end, mut pre_color) = match pos {
            Ok(idx) => {
                let s = self.0.get_mut(idx).unwrap();
                debug_assert!(
                    s.color() != Color::Pending,
                    "Lost Range({:?}) covered Pending parts from {}",
                    range,
                    s.offset()
                );
                if s.color() == Color::Recved {
                    // 如果是Recved，那就不需要在前面插入了，直接往后探索
                    self.may_lost_from(idx + 1, range.end);
                    return;
                }

                let pre_color = s.color();
                let mut drain_start = idx;
                if pre_color == Color::Flighting {
                    s.set_color(Color::Lost);
                    // 只有变化了，才会向前寻找同为Lost，寻求合并
                    // 如果已经是Lost了，那前面的肯定是无法合并的非Lost状态
                    drain_start = self.same_before(idx, Color::Lost) + 1;
                } else {
                    // 如果是lost，那这一段状态不需要改变，继续探索下一段需不需要改变
                    // 如果下一段还是Lost，那下一段可以删掉，往后合并Lost
                    drain_start += 1;
                }
                // 肯定不需要在前面插入了，从drain_start开始往后探索，pre_color是当前状态
                (drain_start, false, idx + 1, pre_color)
            }
            Err(idx) => {
                if idx == 0 {
                    // 之前的数据都是recved，前面不再需要插入
                    // 表示从0往后，要尝试变为Lost，就完事儿了
                    self.may_lost_from(idx, range.end);
                    return;
                } else {
                    let s = self.0.get(idx - 1).unwrap();
                    let pre_color = s.color();
                    debug_assert!(
                        pre_color != Color::Pending,
                        "Lost Range({:?}) covered Pending parts from {}",
                        range,
                        s.offset()
                    );
                    if pre_color == Color::Recved {
                        // 另有安排，直接调用，lost_from(idx, range.end);
                        self.may_lost_from(idx, range.end);
                        return;
                    }
                    (idx, pre_color == Color::Flighting, idx, pre_color)
                }
            }
        };

        let mut need_insert_at_end = false;
        loop {
            // 从drain_end位置的entry开始遍历，看其是否存在，存在看其是否仍在Lost的range区间里
            let entry = self.0.get(drain_end);
            match entry {
                Some(s) => match s.offset().cmp(&range.end) {
                    Ordering::Less => {
                        // 以s.offset开头的区间，仍在Lost的range区间里
                        debug_assert!(
                            s.color() != Color::Pending,
                            "Lost Range({:?}) covered Pending parts from {}",
                            range,
                            s.offset()
                        );
                        if s.color() == Color::Recved {
                            // s是recved，那就s的下一段到range.end都是丢失的，相当于独立的may_lost区间处理
                            // 接下来只需处理drain_end之前的操作即可
                            self.may_lost_from(drain_end + 1, range.end);
                            break;
                        } else {
                            // s是Lost/Flighting，那就将s染成Lost，继续往后探索
                            drain_end += 1;
                            pre_color = s.color();
                        }
                    }
                    Ordering::Equal => {
                        // s之前的是Lost，从上一个检查后续连续lost状态的有多少个
                        drain_end = self
                            .same_after(drain_end.overflowing_sub(1).0, Color::Lost)
                            .overflowing_add(1)
                            .0;
                        break;
                    }
                    Ordering::Greater => {
                        // s的offset大于range.end，说明s之后的区间都不在Lost的范围内
                        // s的前一个是Flighting，它要一分为二，前部分为Lost，后部分为Flighting
                        need_insert_at_end = pre_color == Color::Flighting;
                        break;
                    }
                },
                None => {
                    // 找不到，说明到最后一段了
                    debug_assert!(
                        range.end <= self.size(),
                        "Lost Range({:?}) over {}",
                        range,
                        self.size()
                    );
                    // 如果上一段的color是Flighting，它要一分为二，到range.end的部分为Lost，后续部分为Flighting
                    need_insert_at_end = range.end < self.size() && pre_color == Color::Flighting;
                    break;
                }
            };
        }

        if need_insert_at_start {
            if drain_start < drain_end {
                *self.0.get_mut(drain_start).unwrap() = State::encode(range.start, Color::Lost);
            } else {
                self.0
                    .insert(drain_start, State::encode(range.start, Color::Lost));
            }
            drain_start += 1;
        }
        if need_insert_at_end {
            if drain_start < drain_end {
                *self.0.get_mut(drain_start).unwrap() = State::encode(range.end, pre_color);
            } else {
                self.0
                    .insert(drain_start, State::encode(range.end, pre_color));
            }
            drain_start += 1;
        }
        if drain_start < drain_end {
            vd_drain_range(&mut self.0, drain_start, drain_end);
        }
    }

    fn same_before(&self, mut index: usize, color: Color) -> usize {
        loop {
            let pre = index.overflowing_sub(1).0;
            match self.0.get(pre) {
                Some(s) if s.color() == color => index = pre,
                _ => break,
            }
        }
        index
    }

    fn same_after(&self, mut index: usize, color: Color) -> usize {
        loop {
            let next = index.overflowing_add(1).0;
            match self.0.get(next) {
                Some(s) if s.color() == color => index = next,
                _ => break,
            }
        }
        index
    }

    fn merge_after(&mut self, index: usize, color: Color) {
        let same_after = self.same_after(index, color);
        if index < same_after {
            vd_drain_range(&mut self.0, index + 1, same_after + 1);
        }
    }

    fn may_lost_from(&mut self, mut idx_start: usize, end: u64) {
        let mut idx = idx_start;
        let mut pre_color = Color::Recved;
        let mut need_insert_at_end = false;
        loop {
            let entry = self.0.get_mut(idx);
            match entry {
                Some(s) => match s.offset().cmp(&end) {
                    Ordering::Less => {
                        debug_assert!(
                            s.color() != Color::Pending,
                            "Lost Range.end({end}) covered Pending parts from {}",
                            s.offset()
                        );
                        pre_color = s.color();
                        if s.color() == Color::Recved {
                            // 另有安排，直接调用，lost_from(idx, range.end);
                            self.may_lost_from(idx + 1, end);
                            break;
                        } else {
                            s.set_color(Color::Lost);
                            idx += 1;
                        }
                    }
                    Ordering::Equal => {
                        idx = self
                            .same_after(idx.overflowing_sub(1).0, Color::Lost)
                            .overflowing_add(1)
                            .0;
                        break;
                    }
                    Ordering::Greater => {
                        need_insert_at_end = pre_color == Color::Flighting;
                        break;
                    }
                },
                None => {
                    debug_assert!(
                        end <= self.size(),
                        "Lost Range.end({end}) over {}",
                        self.size()
                    );
                    need_insert_at_end = end < self.size() && pre_color == Color::Flighting;
                    break;
                }
            }
        }
        if need_insert_at_end {
            if idx_start + 1 < idx {
                *self.0.get_mut(idx_start + 1).unwrap() = State::encode(end, pre_color);
            } else {
                self.0.insert(idx_start + 1, State::encode(end, pre_color));
            }
            idx_start += 1;
        }
        if idx_start + 1 < idx {
            vd_drain_range(&mut self.0, idx_start + 1, idx);
        }
    }

}
}
fn main(){}
