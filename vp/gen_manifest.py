#!/usr/bin/env python3
"""writes /verif/MANIFEST.json from contracts/*/unit.json + contracts/properties_meta.json (claimed properties,
their level text and notes; not_applicable reasons)."""
import json
import os
import sys
sys.path.insert(0, os.path.dirname(os.path.abspath(__file__)))
from common import CONTRACTS, VERIF, load_units

meta = json.load(open(os.path.join(CONTRACTS, 'properties_meta.json')))
props = [json.loads(l) for l in open(os.path.join(VERIF, 'properties.jsonl'))]
units = load_units()
checks, na = [], []
for p in props:
    pid = p['id']
    m = meta.get(pid, {})
    us = [u for u in units if pid in u['properties'] and not u.get('disabled')]
    if m.get('claim') and us:
        tools = sorted({u['tool'] for u in us})
        checks.append({
            'property_id': pid,
            'quick_cmd': f'python3 vp/run.py {pid} --tier quick',
            'thorough_cmd': f'python3 vp/run.py {pid} --tier thorough',
            'evidence_file': f'/verif/evidence/{pid}.json',
            'replay_cmd_template': 'cat {path}',
            'engine': '+'.join('vp-' + t for t in tools),
            'level_claimed': {'category': 'proof', 'text': m['level_text'], 'design_ref': f'DESIGN.md §6 {pid}'},
            'level_note': m['level_note'],
            'technique': 'contract-based deductive verification of the real code: ' + ' + '.join(
                {'kani': 'Kani/CBMC contract harnesses compiled inside the real crate',
                 'verus': 'Verus contracts woven onto functions extracted from /repo on every run'}[t] for t in tools),
        })
    else:
        na.append({'property_id': pid, 'reason': m.get('na_reason', 'no contract unit lands in this round (see DESIGN.md §6)')})
man = {
    'version': 1,
    'setup_cmd': 'python3 vp/setup.py',
    'hooks': {
        'guard': 'kani',
        'enable': 'no hooks live in /repo: every check copies /repo\'s working tree to /verif/.work, splices #[cfg(kani)] '
                  'contract modules there (Kani) or extracts the functions mechanically (Verus)',
        'baseline_off_cmd': 'cd /repo && (cargo nextest run --workspace --no-fail-fast --offline || cargo test --workspace --no-fail-fast --offline)',
        'source_commits': meta.get('_fix_commits', []),
        'add_only': True,
    },
    'engines': [
        {'name': 'vp-kani', 'path': 'vp/kani_run.py', 'serves_properties': sorted({p for u in units if u['tool'] == 'kani' for p in u['properties']}),
         'kind_free_text': 'Kani 0.68 / CBMC 6.11 contract harnesses compiled inside the real crates (scratch copy of /repo, spliced on every run)'},
        {'name': 'vp-verus', 'path': 'vp/verus_run.py', 'serves_properties': sorted({p for u in units if u['tool'] == 'verus' for p in u['properties']}),
         'kind_free_text': 'Verus 0.2026.09.13 on functions extracted mechanically from /repo on every run; contracts, invariants, lemmas woven from sidecar templates'},
    ],
    'checks': checks,
    'not_applicable': na,
    'notes': 'exit 0 all obligations discharged (or only listed known findings fail); exit 1 VIOLATION; exit 2 undecided (never an alarm). See DESIGN.md.',
}
json.dump(man, open(os.path.join(VERIF, 'MANIFEST.json'), 'w'), indent=1)
print('claimed:', [c['property_id'] for c in checks], 'not_applicable:', [n['property_id'] for n in na])
