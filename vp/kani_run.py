"""Kani side: materialise a scratch copy of /repo with the #[cfg(kani)] contract modules of the
requested units spliced in, run cargo kani on the real crates, parse results, replay failures."""
import hashlib
import os
import re
import shutil
import time

from common import (KANI_REPO, KANI_TARGET, NCPU, REPO, REPLAYS, WORK, Lock, Undecided, sh)
from rsx import Lost, Src

SKIP_DIRS = {'target', '.git', 'images', 'benchmark'}

KANI_FLAGS = ['-Z', 'function-contracts', '-Z', 'stubbing', '-Z', 'unstable-options']

# descriptions of checks CBMC/Kani generate on their own (not clauses we wrote)
AUTO_PAT = re.compile(
    r'attempt to |arithmetic overflow|index out of bounds|dereference failure|pointer |'
    r'called `Option::unwrap\(\)`|called `Result::unwrap\(\)`|unwrap|expect|panicked|unreachable|'
    r'slice |range |division by zero|remainder|shift|misaligned|assertion failed|out of range|'
    r'capacity overflow|This is a placeholder|not supported|explicit panic|debug_assert|byte|memcpy|memmove|'
    r'mid > len|rotate|copy_from_slice|Sum of|add overflowed|overflow', re.I)


def _desired_tree(splice_map):
    """yield (relpath, bytes) for every file of /repo (minus build output), splices applied."""
    for root, dirs, files in os.walk(REPO):
        rel = os.path.relpath(root, REPO)
        if rel == '.':
            dirs[:] = [d for d in dirs if d not in SKIP_DIRS]
        for f in files:
            rp = os.path.normpath(os.path.join(rel, f))
            p = os.path.join(root, f)
            if os.path.islink(p):
                continue
            try:
                data = open(p, 'rb').read()
            except OSError:
                continue
            if rp in splice_map:
                data = splice_map[rp](data.decode()).encode()
            yield rp, data


def _read_with_includes(path):
    """harness text; a line `//@include <relative path>` is replaced by that file's text."""
    out = []
    for line in open(path).read().splitlines(keepends=True):
        m = re.match(r'\s*//@include\s+(\S+)', line)
        if m:
            out.append(_read_with_includes(os.path.join(os.path.dirname(path), m.group(1))))
        else:
            out.append(line)
    return ''.join(out)


def _apply_splice(unit, sp):
    def f(text):
        # 1. contract attributes in front of anchored fns (inserted bottom-up so offsets stay valid)
        ins = []
        if sp.get('contracts'):
            s = Src(sp['file'], text)
            for c in sp['contracts']:
                d = s.find(c['fn'])  # raises Lost
                line = text[d['kw']:text.index('\n', d['kw'])]
                indent = line[:len(line) - len(line.lstrip())]
                attrs = ''.join(f'{indent}#[cfg_attr(kani, {a})]\n' for a in c['attrs'])
                ins.append((d['kw'], attrs))
        for pos, t in sorted(ins, reverse=True):
            text = text[:pos] + t + text[pos:]
        if sp.get('prepend'):
            text = open(os.path.join(unit['dir'], sp['prepend'])).read() + text
        if sp.get('append'):
            text = text.rstrip('\n') + '\n\n' + _read_with_includes(os.path.join(unit['dir'], sp['append']))
        return text
    return f


def materialise(units):
    """make KANI_REPO == /repo + splices of `units`; write only what differs (keeps cargo incremental)."""
    splice_map = {}
    for u in units:
        for sp in u.get('splices', []):
            rp = os.path.normpath(sp['file'])
            prev = splice_map.get(rp)
            cur = _apply_splice(u, sp)
            splice_map[rp] = (lambda t, prev=prev, cur=cur: cur(prev(t) if prev else t))
            if not os.path.exists(os.path.join(REPO, rp)):
                raise Undecided(f"lost anchor: file {rp} no longer exists")
    os.makedirs(KANI_REPO, exist_ok=True)
    seen = set()
    try:
        for rp, data in _desired_tree(splice_map):
            seen.add(rp)
            dst = os.path.join(KANI_REPO, rp)
            try:
                if open(dst, 'rb').read() == data:
                    continue
            except OSError:
                pass
            os.makedirs(os.path.dirname(dst), exist_ok=True)
            with open(dst, 'wb') as fh:
                fh.write(data)
    except Lost as e:
        raise Undecided(f"lost anchor: {e}")
    # remove files that disappeared from /repo
    for root, dirs, files in os.walk(KANI_REPO):
        rel = os.path.relpath(root, KANI_REPO)
        if rel == '.':
            dirs[:] = [d for d in dirs if d not in SKIP_DIRS]
        for f in files:
            rp = os.path.normpath(os.path.join(rel, f))
            if rp not in seen:
                os.remove(os.path.join(root, f))


HARNESS_HDR = re.compile(r'^(?:Thread (\d+): )?Checking harness ([\w:<>]+)\.\.\.')


def _parse_block(body):
    r = dict(status='UNKNOWN', failed=[], checks=0, nfailed=0, covers=None, time=0.0, raw=body[-4000:])
    m = re.search(r'\*\* (\d+) of (\d+) failed', body)
    if m:
        r['nfailed'], r['checks'] = int(m.group(1)), int(m.group(2))
    m = re.search(r'\*\* (\d+) of (\d+) cover properties satisfied', body)
    if m:
        r['covers'] = (int(m.group(1)), int(m.group(2)))
    for fm in re.finditer(r'Failed Checks: (.*)\n(?: File: (.*)\n)?', body):
        r['failed'].append((fm.group(1).strip(), (fm.group(2) or '').strip()))
    m = re.search(r'VERIFICATION:- (\w+)', body)
    if m:
        r['status'] = m.group(1)
    m = re.search(r'Verification Time: ([\d.]+)s', body)
    if m:
        r['time'] = float(m.group(1))
    low = body.lower()
    if r['status'] == 'UNKNOWN' and 'timed out' in low:
        r['status'] = 'TIMEOUT'
    if r['status'] == 'UNKNOWN' and ('out of memory' in low or 'killed' in low):
        r['status'] = 'OOM'
    return r


def parse_terse(out):
    """terse output of `cargo kani -j N`: per thread, a 'Checking harness H...' line and later a result block
    introduced by 'Thread N: ' and closed by 'Verification Time' (or an error line).
    -> {harness: dict(status, failed:[(desc, where)], checks, nfailed, covers:(sat,total) | None, time)}"""
    res, cur, blocks, active = {}, {}, {}, None
    for line in out.splitlines():
        m = HARNESS_HDR.match(line)
        if m:
            cur[m.group(1) or '0'] = m.group(2)
            active = None
            continue
        m = re.match(r'^Thread (\d+): ?(.*)$', line)
        if m:
            active = m.group(1)
            blocks.setdefault((active, cur.get(active)), []).append(m.group(2))
            continue
        if active is None and cur and len(cur) == 1 and '0' in cur:
            active = '0'   # sequential run: no thread prefixes
        if active is not None:
            blocks.setdefault((active, cur.get(active)), []).append(line)
            if line.startswith('Verification Time:'):
                active = None if len(cur) > 1 or '0' not in cur else active
    for (t, name), lines in blocks.items():
        if name:
            res[name] = _parse_block('\n'.join(lines) + '\n')
    return res


def run_crate(crate, harnesses, jobs=None, timeout_s=900, extra=None):
    """one cargo kani call for all `harnesses` (list of harness descriptors) of a crate."""
    jobs = jobs or min(NCPU, max(1, len(harnesses)))
    cmd = ['cargo', 'kani', '-p', crate, '--target-dir', KANI_TARGET] + KANI_FLAGS + \
          ['--harness-timeout', f'{timeout_s}s', '--output-format', 'terse', '-j', str(jobs)]
    for h in harnesses:
        cmd += ['--harness', h['name']]
    cmd += (extra or [])
    rc, out, wall = sh(cmd, cwd=KANI_REPO, timeout=timeout_s * max(1, (len(harnesses) + jobs - 1) // jobs) + 1200)
    return rc, out, wall, ' '.join(cmd)


def compile_failed(out):
    return ('error: could not compile' in out or re.search(r'^error(\[E\d+\])?:', out, re.M) is not None) \
        and 'Checking harness' not in out


def replay(crate, harness, prop, label):
    """re-run one failing harness with concrete playback, then execute the generated test natively on the
    real crate. Returns (path, had_concrete_input)."""
    os.makedirs(REPLAYS, exist_ok=True)
    safe = re.sub(r'[^\w.]+', '_', label)
    path = os.path.join(REPLAYS, f'{prop}-{safe}.txt')
    cmd = ['cargo', 'kani', '-p', crate, '--target-dir', KANI_TARGET] + KANI_FLAGS + \
          ['-Z', 'concrete-playback', '--concrete-playback=inplace', '--harness', harness]
    rc, out, _ = sh(cmd, cwd=KANI_REPO, timeout=1800)
    failed = re.findall(r'Check \d+: .*\n\t - Status: FAILURE\n\t - Description: (.*)\n\t - Location: (.*)', out)
    tests = re.findall(r'^\s+- (kani_concrete_playback_\w+)', out, re.M)
    txt = [f'# replay for property {prop}, harness {harness}', f'# command: {" ".join(cmd)}', '']
    txt.append('## failed checks (verifier output)')
    for d, loc in failed:
        txt.append(f'- {d}   @ {loc}')
    summary = re.search(r'SUMMARY:(.|\n)*?VERIFICATION:- \w+', out)
    if summary:
        txt += ['', summary.group(0)]
    concrete = False
    fail_tests = []
    if tests:
        # the generated tests now live in the scratch copy's source; keep those for failed assertions
        from rsx import mask, match_brace
        for root, dirs, files in os.walk(KANI_REPO):
            dirs[:] = [d for d in dirs if d != 'target']
            for f in files:
                if not f.endswith('.rs'):
                    continue
                s = open(os.path.join(root, f), errors='replace').read()
                if 'kani_concrete_playback_' not in s:
                    continue
                m = mask(s)
                for t in tests:
                    k = m.find('fn ' + t)
                    if k < 0:
                        continue
                    a = s.rfind('/// Test generated', 0, k)
                    e = match_brace(m, m.index('{', k))
                    body = s[a:e + 1]
                    if 'Check for `cover`' in body:
                        continue
                    fail_tests.append(t)
                    txt += ['', f'## concrete test {t} (in {os.path.relpath(os.path.join(root, f), KANI_REPO)})', body]
    if fail_tests:
        pcmd = ['cargo', 'kani', 'playback', '-Z', 'concrete-playback', '-p', crate, '--'] + fail_tests[:1]
        rc2, out2, _ = sh(pcmd, cwd=KANI_REPO, timeout=3600,
                          env={'CARGO_TARGET_DIR': os.path.join(WORK, 'kani', 'target-playback'), 'RUST_BACKTRACE': '0'})
        keep = [l for l in out2.splitlines() if not l.startswith(('warning', '  ', ' -->', '   Compiling', '   |'))]
        txt += ['', '## native execution of the concrete test against the real crate', f'# command: {" ".join(pcmd)}',
                '\n'.join(keep[-60:])]
        concrete = 'test result: FAILED' in out2 or 'panicked at' in out2
        if not concrete:
            txt += ['', '# note: the concrete test did not fail natively (the verifier counterexample may depend on a stub)']
    else:
        txt += ['', '# the verifier produced no concrete input for this obligation', out[-3000:]]
    open(path, 'w').write('\n'.join(txt) + '\n')
    return path, concrete


def classify_failed(desc):
    """-> ('named', id) | ('unwind', None) | ('auto', desc) | ('clause', desc)"""
    d = desc.strip().strip('"')
    m = re.match(r'(C\d\d\.[\w.\-]+)', d)
    if m:
        return 'named', m.group(1)
    if 'unwinding assertion' in d:
        return 'unwind', None
    if AUTO_PAT.search(d) and not d.startswith('|'):
        return 'auto', d
    return 'clause', d


def harness_text_ids(unit):
    """map fn name -> (assert ids, cover ids) found in the unit's spliced harness text; ids inside helper functions of
    the same module are attributed to every function that calls the helper (transitively)."""
    from rsx import match_brace
    own, calls = {}, {}
    for sp in unit.get('splices', []):
        if not sp.get('append'):
            continue
        text = _read_with_includes(os.path.join(unit['dir'], sp['append']))
        s = Src(sp['append'], text)
        spans = []
        for mm in re.finditer(r'\bfn\s+(\w+)\s*(?:<[^>]*>)?\s*\(', s.m):
            try:
                o = s.m.index('{', mm.end())
                semi = s.m.find(';', mm.end())
                if 0 <= semi < o:
                    continue
                e = match_brace(s.m, o)
            except ValueError:
                continue
            spans.append((mm.group(1), o, e))
        names = {n for n, _, _ in spans}
        for name, o, e in spans:
            body = text[o:e]
            covers = set(re.findall(r'cover!\([^;]*?"(C\d\d\.[\w.\-]+)"', body, re.S))
            allids = set(re.findall(r'"(C\d\d\.[\w.\-]+)', body))
            a0, c0 = own.get(name, (set(), set()))
            own[name] = (a0 | (allids - covers), c0 | covers)
            called = {n for n in names if n != name and re.search(r'\b' + re.escape(n) + r'\s*(?:::<[^>]*>)?\s*\(', s.m[o:e])}
            calls[name] = calls.get(name, set()) | called
    ids = {}
    for name in own:
        seen, stack = set(), [name]
        a, c = set(), set()
        while stack:
            n = stack.pop()
            if n in seen or n not in own:
                continue
            seen.add(n)
            a |= own[n][0]
            c |= own[n][1]
            stack += list(calls.get(n, ()))
        ids[name] = (sorted(a - c), sorted(c))
    return ids


def ledger(units):
    """every kani::assume / kani::stub / stub_verified / unsafe in the spliced harness text, per unit (assumption ledger)."""
    led = []
    for u in units:
        for sp in u.get('splices', []):
            if not sp.get('append'):
                continue
            text = _read_with_includes(os.path.join(u['dir'], sp['append']))
            m = mask_text(text)
            n_assume = len(re.findall(r'kani::assume\s*\(', m))
            stubs = sorted(set(re.findall(r'kani::stub(?:_verified)?\(\s*([^,)]+)', m)))
            n_unsafe = len(re.findall(r'\bunsafe\b', m))
            led.append(dict(unit=u['unit'], file=sp['file'], kani_assume=n_assume, stubs=stubs, unsafe_blocks=n_unsafe))
    return led


def mask_text(t):
    from rsx import mask
    return mask(t)
