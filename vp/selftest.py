#!/usr/bin/env python3
"""selftest.py [<seed-id> ...]  -- apply each kept seeded change (/verif/seeded/<id>/patch.diff) to a scratch copy of
/repo and run the check of the property it breaks; expected: exit 1 with a VIOLATION line. Also `--benign` runs the
benign patches under /verif/selftest/benign/*.diff and expects exit 0 (or 2), never 1.
Nothing is applied to /repo itself; evidence of these runs goes to .work/evidence-scratch."""
import json
import os
import re
import subprocess
import sys
import shutil

VERIF = os.path.dirname(os.path.dirname(os.path.abspath(__file__)))
SCR = '/var/tmp/vp-selftest'


def fresh_copy():
    os.makedirs(SCR, exist_ok=True)
    subprocess.run(['rsync', '-a', '--delete', '--exclude', 'target', '--exclude', '.git', '/repo/', SCR + '/repo/'], check=True)


def run(prop, tier='quick'):
    env = dict(os.environ, VERIF_REPO=SCR + '/repo')
    p = subprocess.run([sys.executable, os.path.join(VERIF, 'vp', 'run.py'), prop, '--tier', tier], env=env,
                       stdout=subprocess.PIPE, stderr=subprocess.STDOUT, text=True)
    return p.returncode, p.stdout


def main():
    args = [a for a in sys.argv[1:] if not a.startswith('--')]
    benign = '--benign' in sys.argv
    base = os.path.join(VERIF, 'selftest', 'benign') if benign else os.path.join(VERIF, 'seeded')
    ids = args or sorted(os.listdir(base))
    summary = []
    for sid in ids:
        d = os.path.join(base, sid)
        patch = os.path.join(d, 'patch.diff') if not benign else d
        if benign:
            prop = re.match(r'(C\d+)', os.path.basename(sid)).group(1)
        else:
            prop = json.load(open(os.path.join(d, 'meta.json')))['property']
        fresh_copy()
        ap = subprocess.run(['patch', '-p1', '-s', '-i', patch], cwd=SCR + '/repo', stdout=subprocess.PIPE, stderr=subprocess.STDOUT, text=True)
        if ap.returncode != 0:
            summary.append((sid, prop, 'PATCH-FAILED', ap.stdout[-300:]))
            continue
        rc, out = run(prop)
        viol = [l for l in out.splitlines() if l.startswith('VIOLATION')]
        und = [l for l in out.splitlines() if l.startswith('UNDECIDED')]
        summary.append((sid, prop, rc, (viol or und or out.splitlines()[-1:])[:3]))
        print(sid, prop, 'exit', rc, (viol or und)[:2], flush=True)
        if not benign:
            mp = os.path.join(d, 'meta.json')
            mm = json.load(open(mp))
            obl = ','.join(sorted({x for l in viol for x in re.findall(r'obligation=(\S+)', l)}))[:600]
            mm['detected'] = (f"detected: exit 1, {obl}" + (' (with a concrete failing input)' if viol and not any('no-failing-input-found' in l for l in viol) else '')) if rc == 1 \
                else ('NOT detected (exit 0)' if rc == 0 else 'undecided (exit 2): ' + '; '.join(und)[:300])
            json.dump(mm, open(mp, 'w'), indent=1)
    shutil.rmtree(SCR, ignore_errors=True)
    print(json.dumps(summary, indent=1))


if __name__ == '__main__':
    main()
