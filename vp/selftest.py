#!/usr/bin/env python3
"""selftest.py [<seed-id> ...]  -- apply each kept seeded change (/verif/seeded/<id>/patch.diff) to a scratch copy of
/repo and run the check of the property it breaks; expected: exit 1 with a VIOLATION line. Also `--benign` runs the
benign patches under /verif/selftest/benign/*.diff and expects exit 0 (or 2), never 1.
Nothing is applied to /repo itself; evidence of these runs goes to .work/evidence-scratch."""
import json
import os
import re
import subprocess
import sys
import shutil

VERIF = os.path.dirname(os.path.dirname(os.path.abspath(__file__)))
SCR = os.environ.get('VERIF_SELFTEST_SCR', '/var/tmp/vp-selftest')


def fresh_copy():
    os.makedirs(SCR, exist_ok=True)
    subprocess.run(['rsync', '-a', '--delete', '--exclude', 'target', '--exclude', '.git', '/repo/', SCR + '/repo/'], check=True)


def units_touching(prop, files):
    """enabled units of `prop` whose contracts are anchored in one of the files the patch touches."""
    sys.path.insert(0, os.path.join(VERIF, 'vp'))
    from common import load_units
    hit = []
    for u in load_units():
        if prop not in u['properties']:
            continue
        anchored = {os.path.normpath(sp['file']) for sp in u.get('splices', [])}
        if u['tool'] == 'kani':
            # a harness spliced into one file exercises code of its whole crate and of the crates below it
            crates = {f.split('/')[0] for f in files}
            below = {'qbase': {'qbase'}, 'qrecovery': {'qbase', 'qrecovery'}, 'qcongestion': {'qbase', 'qcongestion'},
                     'qdatagram': {'qbase', 'qdatagram'}, 'qconnection': {'qbase', 'qrecovery', 'qcongestion', 'qdatagram', 'qinterface', 'qconnection'}}
            if crates & below.get(u['crate'], {u['crate']}):
                hit.append(u['unit'])
            continue
        if u['tool'] == 'verus':
            t = open(os.path.join(u['dir'], u['template'])).read()
            inc = re.findall(r'//@include\s+(\S+)', t)
            for i in inc:
                try:
                    t += open(os.path.join(u['dir'], i)).read()
                except OSError:
                    pass
            anchored |= {os.path.normpath(x) for x in re.findall(r'//@(?:item|fn)\s+(\S+)\s*::', t)}
        if anchored & files:
            hit.append(u['unit'])
    return hit


def run(prop, tier='quick', files=None):
    """full check of the property, or (faster, when `files` is given and VERIF_SELFTEST_FULL is unset) only the units
    anchored in the touched files -- a unit anchored elsewhere cannot notice the change anyway."""
    env = dict(os.environ, VERIF_REPO=SCR + '/repo')
    base = [sys.executable, os.path.join(VERIF, 'vp', 'run.py'), prop, '--tier', tier]
    if files is None or os.environ.get('VERIF_SELFTEST_FULL'):
        p = subprocess.run(base, env=env, stdout=subprocess.PIPE, stderr=subprocess.STDOUT, text=True)
        return p.returncode, p.stdout
    us = units_touching(prop, files)
    if not us:
        return 0, 'no enabled unit of this property is anchored in the touched files: ' + ', '.join(sorted(files))
    rcs, outs = [], []
    for un in us:
        p = subprocess.run(base + ['--unit', un], env=env, stdout=subprocess.PIPE, stderr=subprocess.STDOUT, text=True)
        o = p.stdout
        if p.returncode == 2 and 'zero obligations' in o and 'VIOLATION' not in o and o.count('UNDECIDED') == 1:
            rcs.append(0)   # a unit with only bounded / thorough harnesses, run alone
        else:
            rcs.append(p.returncode)
        outs.append(o)
    rc = 1 if 1 in rcs else (2 if 2 in rcs else 0)
    return rc, '\n'.join(outs)


def main():
    args = [a for a in sys.argv[1:] if not a.startswith('--')]
    benign = '--benign' in sys.argv
    base = os.path.join(VERIF, 'selftest', 'benign') if benign else os.path.join(VERIF, 'seeded')
    ids = args or sorted(os.listdir(base))
    summary = []
    for sid in ids:
        d = os.path.join(base, sid)
        patch = os.path.join(d, 'patch.diff') if not benign else d
        if benign:
            prop = re.match(r'(C\d+)', os.path.basename(sid)).group(1)
        else:
            prop = json.load(open(os.path.join(d, 'meta.json')))['property']
        fresh_copy()
        ap = subprocess.run(['patch', '-p1', '-s', '-i', patch], cwd=SCR + '/repo', stdout=subprocess.PIPE, stderr=subprocess.STDOUT, text=True)
        if ap.returncode != 0:
            summary.append((sid, prop, 'PATCH-FAILED', ap.stdout[-300:]))
            continue
        files = {os.path.normpath(x) for x in re.findall(r'^\+\+\+ b/(\S+)', open(patch).read(), re.M)}
        rc, out = run(prop, files=files)
        viol = [l for l in out.splitlines() if l.startswith('VIOLATION')]
        und = [l for l in out.splitlines() if l.startswith('UNDECIDED')]
        summary.append((sid, prop, rc, (viol or und or out.splitlines()[-1:])[:3]))
        print(sid, prop, 'exit', rc, (viol or und)[:2], flush=True)
        if not benign:
            mp = os.path.join(d, 'meta.json')
            mm = json.load(open(mp))
            obl = ','.join(sorted({x for l in viol for x in re.findall(r'obligation=(\S+)', l)}))[:600]
            mm['detected'] = (f"detected: exit 1, {obl}" + (' (with a concrete failing input)' if viol and not any('no-failing-input-found' in l for l in viol) else '')) if rc == 1 \
                else ('NOT detected (exit 0)' if rc == 0 else 'undecided (exit 2): ' + '; '.join(und)[:300])
            json.dump(mm, open(mp, 'w'), indent=1)
    shutil.rmtree(SCR, ignore_errors=True)
    print(json.dumps(summary, indent=1))


if __name__ == '__main__':
    main()
