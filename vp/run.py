#!/usr/bin/env python3
"""run.py <Cxx> [--tier quick|thorough] [--unit U] [--keep]

Decides one property: every unit serving it is woven from /repo's current working tree and handed to
its verifier (Kani in the real crate / Verus on mechanically extracted functions).

exit 0  every obligation discharged (or only listed known findings failed)
exit 1  a property-level obligation failed: one `VIOLATION property=<id> replay=<path>` line each
exit 2  undecided (lost anchor, tool limit, compiler crash, vacuity guard) -- never an alarm
"""
import argparse
import json
import os
import re
import sys
import time
import traceback

sys.path.insert(0, os.path.dirname(os.path.abspath(__file__)))
import common
from common import EVIDENCE, Lock, Undecided, known_findings, load_units, repo_revision
import kani_run
import verus_run


def tier_ok(h, tier):
    return tier == 'thorough' or h.get('tier', 'quick') == 'quick'


def ob_class(oid, default='property'):
    return 'support' if '.sup.' in oid or oid.endswith('.sup') else default


def run_kani_units(prop, units, tier, log):
    """-> (obligation results, meta)"""
    results, meta = [], dict(cmds=[], wall=0.0, harnesses=[])
    if not units:
        return results, meta
    crate_root = {'qbase': 'qbase/src/lib.rs', 'qrecovery': 'qrecovery/src/lib.rs', 'qcongestion': 'qcongestion/src/lib.rs',
                  'qconnection': 'qconnection/src/lib.rs', 'qdatagram': 'qdatagram/src/lib.rs', 'qinterface': 'qinterface/src/lib.rs',
                  'qevent': 'qevent/src/lib.rs'}
    crates = sorted({u['crate'] for u in units})
    canary_units = [dict(unit='_canary_' + c, dir=os.path.join(common.CONTRACTS, '_shared'), crate=c, properties=[prop],
                         splices=[dict(file=crate_root[c], append='kani_canary.rs')], harnesses=[]) for c in crates if c in crate_root]
    meta['ledger'] = kani_run.ledger(units)
    with Lock('kani'):
        kani_run.materialise(units + canary_units)
        by_crate = {}
        for u in units:
            for h in u['harnesses']:
                if prop in h.get('properties', u['properties']) and tier_ok(h, tier):
                    by_crate.setdefault(u['crate'], []).append((u, h))
        for crate, hs in by_crate.items():
            tmo = max(h.get('timeout_s', 600) for _, h in hs) * (3 if tier == 'thorough' else 1)
            canary = [dict(name='vp_canary::must_fail')] if crate in crate_root else []
            rc, out, wall, cmd = kani_run.run_crate(crate, [h for _, h in hs] + canary, timeout_s=tmo)
            meta['cmds'].append(cmd)
            meta['wall'] += wall
            parsed = kani_run.parse_terse(out)
            if canary and parsed:
                cn = [k for k in parsed if k.endswith('vp_canary::must_fail')]
                ok = cn and parsed[cn[0]]['status'] == 'FAILED' and any('VP-CANARY' in d for d, _ in parsed[cn[0]]['failed'])
                meta.setdefault('canary', {})[crate] = 'rejected' if ok else 'ACCEPTED'
                if not ok:
                    log(out[-4000:])
                    raise Undecided(f"vacuity guard: the deliberately false Kani canary harness in {crate} was not refuted")
            if tier == 'thorough' and parsed:
                # cross-solver re-run: every harness must get the same verdict from kissat as from cadical
                rc2, out2, wall2, cmd2 = kani_run.run_crate(crate, [h for _, h in hs], timeout_s=tmo, extra=['--solver', 'kissat'])
                meta['cmds'].append(cmd2)
                meta['wall'] += wall2
                p2 = kani_run.parse_terse(out2)
                for k, v in parsed.items():
                    if k in p2 and p2[k]['status'] != v['status'] and not k.endswith('vp_canary::must_fail'):
                        raise Undecided(f"solver disagreement on {k}: cadical={v['status']} kissat={p2[k]['status']}")
                meta['cross_solver'] = 'kissat agrees on %d harnesses' % len(p2)
            if not parsed:
                log(out[-6000:])
                if kani_run.compile_failed(out):
                    raise Undecided(f"cargo kani could not compile {crate} with the contract modules spliced in "
                                    f"(code changed shape under a contract, or a compile error in /repo)")
                raise Undecided(f"cargo kani produced no harness results for {crate} (rc={rc})")
            for u, h in hs:
                ids = kani_run.harness_text_ids(u)
                fn = h['name'].split('::')[-1]
                asserts, covers = ids.get(fn, ([], []))
                full = [k for k in parsed if k.endswith('::' + h['name']) or k == h['name'] or k.endswith(h['name'])]
                bounded = h.get('kind', 'complete') != 'complete'
                base = dict(unit=u['unit'], harness=h['name'], backend='kani/cbmc+cadical', bounded=bounded,
                            bound=h.get('bound'), expect_fail=h.get('expect_fail'))
                hid = h.get('id', f"{prop}.{u['unit']}.{fn}")
                named = [a for a in asserts if a.startswith(prop + '.')] or []
                if hid not in named and h.get('contract'):
                    named = [hid] + named
                safety_id = f"{hid}.safety"
                if not full:
                    raise Undecided(f"harness {h['name']} vanished from the Kani run (vacuity guard)")
                r = parsed[full[0]]
                meta['harnesses'].append(dict(name=full[0], status=r['status'], checks=r['checks'], time=r['time'],
                                              covers=r['covers']))
                if r['status'] == 'SUCCESSFUL':
                    if r['covers'] and r['covers'][0] < r['covers'][1]:
                        raise Undecided(f"vacuity guard: harness {h['name']} satisfied only {r['covers'][0]} of "
                                        f"{r['covers'][1]} reachability covers")
                    if r['checks'] == 0:
                        raise Undecided(f"vacuity guard: harness {h['name']} generated zero checks")
                    for oid in named:
                        results.append(dict(base, id=oid, cls=ob_class(oid), status='discharged', time=r['time'],
                                            checks=r['checks']))
                    results.append(dict(base, id=safety_id, cls=h.get('safety', 'support'), status='discharged',
                                        time=r['time'], checks=r['checks'],
                                        detail=f"{r['checks']} CBMC checks incl. overflow/bounds/panic reachability"))
                elif r['status'] == 'FAILED':
                    if not r['failed'] or r['checks'] == 0:
                        log(r['raw'])
                        raise Undecided(f"harness {h['name']}: verifier reported FAILED without any failed check "
                                        f"(CBMC killed / crashed / should_panic mismatch) -- no verdict")
                    failed_named, auto, clause, unwind = set(), [], [], False
                    for desc, where in r['failed']:
                        k, v = kani_run.classify_failed(desc)
                        if k == 'named':
                            failed_named.add(v)
                        elif k == 'unwind':
                            unwind = True
                        elif k == 'auto':
                            auto.append(f'{v} @ {where}')
                        else:
                            clause.append(f'{v} @ {where}')
                    if unwind and not failed_named and not auto and not clause:
                        raise Undecided(f"harness {h['name']}: unwinding bound too small (tool limit)")
                    if clause:
                        failed_named.add(hid)
                    foreign = {x for x in failed_named if not x.startswith(prop + '.')}
                    failed_named -= foreign
                    if foreign and not failed_named and not auto:
                        # a clause of another property failed first in this shared harness; Kani stops a path at the
                        # first failing assertion, so this property's clauses behind it are not established
                        results.append(dict(base, id=f"{hid}.sup.blocked_by_{sorted(foreign)[0]}", cls='support',
                                            status='failed', time=r['time'], detail='; '.join(sorted(foreign))))
                    for oid in sorted(set(named) | failed_named):
                        st = 'failed' if oid in failed_named else 'discharged'
                        results.append(dict(base, id=oid, cls=ob_class(oid), status=st, time=r['time'],
                                            detail='; '.join(clause) if oid == hid and clause else None))
                    results.append(dict(base, id=safety_id, cls=h.get('safety', 'support'),
                                        status='failed' if auto else 'discharged', time=r['time'],
                                        detail='; '.join(auto) if auto else None))
                else:
                    log(r['raw'])
                    raise Undecided(f"harness {h['name']}: verifier status {r['status']} (resource limit or crash)")
    return results, meta


def decide(prop, tier, only_unit=None, verbose=False):
    t0 = time.time()
    seed = int(os.environ.get('VERIF_SEED', '0') or 0)
    units = [u for u in load_units(all_units=only_unit is not None) if prop in u['properties'] and (only_unit in (None, u['unit']))]
    if not units:
        print(f"no unit serves {prop}")
        return 2
    logs = []

    def log(s):
        logs.append(s)
        if verbose:
            print(s)

    results, metas, undecided, pre_violations = [], {}, [], []
    kunits = [u for u in units if u['tool'] == 'kani']
    vunits = [u for u in units if u['tool'] == 'verus']
    try:
        r, m = run_kani_units(prop, kunits, tier, log)
        results += r
        metas['kani'] = m
    except Undecided as e:
        undecided.append(f'kani: {e}')
    for u in vunits:
        try:
            r, m = verus_run.run_unit(prop, u, tier, seed, log)
            results += r
            metas.setdefault('verus', []).append(m)
        except Undecided as e:
            msg = f"verus[{u['unit']}]: {e}"
            if u.get('driver') and prop in u['properties']:
                # the code left the verifier's reach (unsupported construct, lost anchor, resource limit): nothing is proved.
                # Only a refutation that replays on the real code may still be reported: run the paired native search.
                try:
                    import driver_run
                    found, dtxt = driver_run.search(u, prop)
                except Exception as ex:
                    found, dtxt = False, f'paired search failed: {ex}'
                if found:
                    os.makedirs(common.REPLAYS, exist_ok=True)
                    path = os.path.join(common.REPLAYS, f"{prop}-{u['unit']}.txt")
                    open(path, 'w').write(f"# property {prop}: Verus unit {u['unit']} could not be verified ({e})\n"
                                          f"# the paired native search found a failing input on the real crate\n\n{dtxt}\n")
                    pre_violations.append(f"VIOLATION property={prop} replay={path} obligation={prop}.{u['unit']}.unverifiable_and_refuted_natively")
                    continue
                msg += ' ; paired native search found no failing input'
            undecided.append(msg)

    # ---- classification ---------------------------------------------------------------
    known = [k for k in known_findings() if k['property'] == prop]
    open_known = {k['obligation']: k for k in known if k.get('status') == 'open'}
    lines, violations, known_hit = list(pre_violations), len(pre_violations), []
    for r in results:
        if r.get('expect_fail'):
            # confined harness pinning a recorded finding: failing is the expected outcome
            k = open_known.get(r['id'])
            if r['id'].endswith('.safety') and not k:
                continue
            if r['status'] == 'failed' and k:
                lines.append(f"KNOWN-FINDING: property={prop} {r['id']} {k['witness']}")
                known_hit.append(r['id'])
                r['status'] = 'known-finding'
            elif r['status'] == 'failed':
                pass  # handled below as an ordinary failure
            elif k:
                lines.append(f"NOTE finding-no-longer-reproduces property={prop} {r['id']}")
                r['status'] = 'known-finding-gone'
    # the auto-check obligation of a harness that is confined to a recorded finding fails together with that finding
    # (e.g. the panic that IS the finding): it belongs to the same known finding, not to a new one
    kf_harness = {(r['unit'], r['harness']) for r in results if r['status'] == 'known-finding'}
    for r in results:
        if r.get('expect_fail') and r['status'] == 'failed' and r['id'].endswith('.safety') and (r['unit'], r['harness']) in kf_harness:
            r['status'] = 'known-finding'
    groups = {}
    for r in results:
        if r['status'] == 'failed':
            groups.setdefault((r['unit'], r['harness']), []).append(r)
    for key, rs in groups.items():
        prop_failed = [r for r in rs if r['cls'] != 'support']
        u = [x for x in units if x['unit'] == key[0]][0]
        lead = (prop_failed or rs)[0]
        if not prop_failed and not (u['tool'] == 'verus' and u.get('driver')):
            for r in rs:
                undecided.append(f"support obligation {r['id']} failed ({r.get('detail') or ''}); the property clauses of "
                                 f"that unit are no longer established")
            continue
        try:
            if os.environ.get('VERIF_NO_REPLAY'):
                raise RuntimeError('replay skipped (VERIF_NO_REPLAY set)')
            if u['tool'] == 'kani':
                with Lock('kani'):
                    path, concrete = kani_run.replay(u['crate'], lead['harness'], prop, f"{lead['unit']}.{lead['harness']}")
            else:
                path, concrete = verus_run.replay(prop, lead, units)
        except Exception as e:  # replay is best effort
            path, concrete = os.path.join(common.REPLAYS, f"{prop}-{lead['unit']}.txt"), False
            os.makedirs(common.REPLAYS, exist_ok=True)
            open(path, 'w').write(f"obligation {lead['id']} failed\n{lead.get('detail')}\nreplay failed: {e}\n")
        if not prop_failed and not concrete:
            # only helper obligations failed and the paired search found no failing input: proof broken, undecided
            for r in rs:
                undecided.append(f"support obligation {r['id']} failed ({r.get('detail') or ''}); paired search found no "
                                 f"failing input (see {path})")
            continue
        violations += 1
        tail = '' if concrete else ' no-failing-input-found'
        ids = ','.join(r['id'] for r in (prop_failed or rs)[:4])
        lines.append(f"VIOLATION property={prop} replay={path} obligation={ids}{tail}")
        for r in rs:
            r['replay'] = path

    # ---- evidence -----------------------------------------------------------------------
    head, dirty = repo_revision()
    proved = [r for r in results if not r['bounded'] and not r.get('expect_fail')]
    bounded = [r for r in results if r['bounded'] and not r.get('expect_fail')]
    n_ob = len(proved)
    n_dis = len([r for r in proved if r['status'] == 'discharged'])
    trusted, functions, unverified, assumptions = [], [], [], []
    for u in units:
        trusted += u.get('trusted_base', [])
        functions += u.get('functions', [])
        unverified += u.get('unverified', [])
        assumptions += u.get('assumptions', [])
    cmds = list(metas.get('kani', {}).get('cmds', [])) + [m.get('cmd', '') for m in metas.get('verus', [])]
    ev = {
        'property_id': prop, 'tier': tier, 'seed': seed, 'level': 'proof',
        'coverage': {
            'obligations': n_ob, 'discharged': n_dis,
            'checker_cmd': ' ; '.join(cmds) or 'n/a',
            'trusted_base': sorted(set(trusted)),
            'samples': [dict(id=r['id'], status=r['status'], backend=r['backend'], solver_s=r.get('time'),
                             harness=r['harness'], unit=r['unit'], cls=r['cls']) for r in proved],
            'bounded': [dict(id=r['id'], status=r['status'], bound=r.get('bound'), backend=r['backend'],
                             harness=r['harness'], solver_s=r.get('time')) for r in bounded],
            'bounded_note': 'bounded stand-ins are listed here only; they are never counted in obligations/discharged',
            'functions_under_contract': functions,
            'unverified_functions': unverified,
            'known_findings_hit': known_hit,
            'undecided': undecided,
            'solver_time_s': round(sum((r.get('time') or 0) for r in results), 2),
            'tool_wall_s': {'kani': metas.get('kani', {}).get('wall'),
                            'verus': sum(m.get('wall', 0) for m in metas.get('verus', []))},
            'kani_harnesses': metas.get('kani', {}).get('harnesses', []),
            'kani_assumption_ledger': metas.get('kani', {}).get('ledger', []),
            'kani_vacuity_canary': metas.get('kani', {}).get('canary'),
            'kani_cross_solver': metas.get('kani', {}).get('cross_solver'),
            'verus_units': [{k: m.get(k) for k in ('unit', 'verified', 'errors', 'rewrites', 'extracted', 'ledger',
                                                  'smt_time_ms', 'vacuity_canary')}
                            for m in metas.get('verus', [])],
            'repo_head': head, 'repo_dirty': dirty,
            'tools': 'kani 0.68.0 / cbmc 6.11.0 / cadical; verus 0.2026.09.13 / z3',
        },
        'assumptions': sorted(set(assumptions)),
        'wall_s': round(time.time() - t0, 2),
        'violations': violations,
    }
    # a run restricted to one unit (--unit: development, self-tests) must not replace the property's evidence file
    ev_dir = EVIDENCE if only_unit is None else os.path.join(common.WORK, 'evidence-unit')
    os.makedirs(ev_dir, exist_ok=True)
    with open(os.path.join(ev_dir, f'{prop}.json'), 'w') as fh:
        json.dump(ev, fh, indent=1)

    for l in lines:
        print(l)
    print(f"[{prop}] tier={tier} obligations={n_ob} discharged={n_dis} bounded={len(bounded)} "
          f"violations={violations} known={len(known_hit)} undecided={len(undecided)} wall={ev['wall_s']}s")
    if violations:
        return 1
    if undecided:
        for u in undecided:
            print(f"UNDECIDED {prop}: {u}")
        if not verbose:
            for s in logs[-3:]:
                print(s[-3000:])
        return 2
    if n_ob == 0:
        print(f"UNDECIDED {prop}: vacuity guard -- zero obligations")
        return 2
    return 0


def main():
    ap = argparse.ArgumentParser()
    ap.add_argument('prop')
    ap.add_argument('--tier', default=os.environ.get('VERIF_TIER', 'quick'))
    ap.add_argument('--unit')
    ap.add_argument('-v', action='store_true')
    a = ap.parse_args()
    try:
        rc = decide(a.prop, a.tier, a.unit, a.v)
    except Exception:
        traceback.print_exc()
        rc = 2
    sys.exit(rc)


if __name__ == '__main__':
    main()
