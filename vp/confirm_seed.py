#!/usr/bin/env python3
"""confirm_seed.py <seed-id> ...  -- my own confirmation of a seeded change, in a scratch git worktree of /repo:
  1. pristine tree + demonstration  -> demonstration passes
  2. patch applied + demonstration   -> demonstration fails
  3. patch applied, no demonstration -> the pinned test-suite still passes (306 tests)
Results are written into /verif/seeded/<id>/meta.json under "confirmed". The worktree is removed afterwards; the shared
cargo target dir /var/tmp/vp-confirm-target is kept for the next seed and removed with --clean."""
import json
import os
import re
import shutil
import subprocess
import sys

VERIF = os.path.dirname(os.path.dirname(os.path.abspath(__file__)))
TARGET = os.environ.get('VERIF_CONFIRM_TARGET', '/var/tmp/vp-confirm-target')


def sh(cmd, cwd, timeout=2700):
    env = dict(os.environ, CARGO_TARGET_DIR=TARGET, CARGO_NET_OFFLINE='true')
    try:
        p = subprocess.run(cmd, cwd=cwd, env=env, shell=isinstance(cmd, str), stdout=subprocess.PIPE, stderr=subprocess.STDOUT,
                           text=True, timeout=timeout)
        return p.returncode, p.stdout
    except subprocess.TimeoutExpired:
        return 124, 'TIMEOUT after %d s' % timeout


def suite(wt):
    rc, out = sh('cargo nextest run --workspace --no-fail-fast --offline --test-threads 6 2>&1 | tail -40', wt)
    m = re.search(r'(\d+) tests? run: (\d+) passed(?: \((\d+) (?:slow|flaky)[^)]*\))?(?:, (\d+) failed)?', out)
    failed = re.findall(r'^\s+FAIL .*?\] +(\S+ \S+)', out, re.M)
    return (m.group(0) if m else out[-300:]), failed


def main():
    if '--clean' in sys.argv:
        shutil.rmtree(TARGET, ignore_errors=True)
        return
    for sid in sys.argv[1:]:
        d = os.path.join(VERIF, 'seeded', sid)
        meta = json.load(open(os.path.join(d, 'meta.json')))
        wt = f'/tmp/confirm-{sid}'
        subprocess.run(['git', '-C', '/repo', 'worktree', 'remove', '--force', wt], stdout=subprocess.DEVNULL, stderr=subprocess.DEVNULL)
        subprocess.run(['git', '-C', '/repo', 'worktree', 'add', '-q', '--detach', wt, 'HEAD'], check=True)
        res = {}
        try:
            place = meta.get('demo_placement', '')
            mfile = re.search(r'([\w/.\-]+\.rs)(?!.*[\w/.\-]+\.rs)', place.replace('demo.rs', ''))
            demo_file = mfile.group(1) if mfile else None
            demo_cmd = meta.get('demo_cmd', '')
            mc = re.search(r'((?:[A-Z_]+=\S+\s+)*cargo test .*)$', demo_cmd)
            demo_cmd = mc.group(1) if mc else demo_cmd
            demo = open(os.path.join(d, 'demo.rs')).read()
            newfile = bool(demo_file) and not os.path.exists(os.path.join(wt, demo_file)) and '/tests/' in demo_file
            if newfile:
                os.makedirs(os.path.dirname(os.path.join(wt, demo_file)), exist_ok=True)
                open(os.path.join(wt, demo_file), 'w').write('')
            if not demo_file or not os.path.exists(os.path.join(wt, demo_file)):
                res['error'] = f'cannot place demo automatically: {place}'
            else:
                orig = open(os.path.join(wt, demo_file)).read()
                # 1. pristine + demo
                open(os.path.join(wt, demo_file), 'w').write(orig.rstrip('\n') + '\n\n' + demo)
                rc, out = sh(demo_cmd + ' 2>&1 | tail -15', wt)
                res['demo_on_pristine'] = 'pass' if re.search(r'test result: ok', out) and 'FAILED' not in out else 'FAIL: ' + out[-400:]
                # 2. patched + demo
                subprocess.run(['git', '-C', wt, 'checkout', '--', '.'], check=True)
                if newfile:
                    os.remove(os.path.join(wt, demo_file))
                ap = subprocess.run(['git', '-C', wt, 'apply', os.path.join(d, 'patch.diff')], stdout=subprocess.PIPE, stderr=subprocess.STDOUT, text=True)
                if ap.returncode != 0:
                    # seeds made before the fix commits: same hunk context modulo the repaired lines
                    ap2 = subprocess.run(['patch', '-p1', '-s', '-i', os.path.join(d, 'patch.diff')], cwd=wt, stdout=subprocess.PIPE, stderr=subprocess.STDOUT, text=True)
                    if ap2.returncode == 0:
                        res['note'] = 'patch was made against the pre-fix tree; applied with `patch -p1` (fuzz) on the current tree'
                        ap = ap2
                if ap.returncode != 0:
                    res['error'] = 'patch does not apply: ' + ap.stdout[-300:]
                else:
                    patched = open(os.path.join(wt, demo_file)).read() if os.path.exists(os.path.join(wt, demo_file)) else ''
                    open(os.path.join(wt, demo_file), 'w').write((patched.rstrip('\n') + '\n\n' if patched else '') + demo)
                    rc, out = sh(demo_cmd + ' 2>&1 | tail -25', wt)
                    res['demo_with_patch'] = 'fails (as required)' if re.search(r'test result: FAILED|panicked', out) else 'DOES NOT FAIL: ' + out[-400:]
                    # 3. patched, suite
                    if newfile:
                        os.remove(os.path.join(wt, demo_file))
                    else:
                        open(os.path.join(wt, demo_file), 'w').write(patched)
                    s, failed = suite(wt)
                    if failed:
                        s2, failed2 = suite(wt)   # the suite has wall-clock dependent tests; one retry on a loaded machine
                        res['suite_first_run'] = s + ' failed=' + ','.join(failed)
                        s, failed = s2, failed2
                    res['suite_with_patch'] = s + (' failed=' + ','.join(failed) if failed else '')
        finally:
            subprocess.run(['git', '-C', '/repo', 'worktree', 'remove', '--force', wt])
        meta['confirmed'] = res
        json.dump(meta, open(os.path.join(d, 'meta.json'), 'w'), indent=1)
        print(sid, json.dumps(res))


if __name__ == '__main__':
    main()
