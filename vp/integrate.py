#!/usr/bin/env python3
"""integrate.py <unit> ... : run every property of each unit through run.py --unit (no replay), print a summary."""
import json, os, subprocess, sys
V = os.path.dirname(os.path.dirname(os.path.abspath(__file__)))
res = []
for un in sys.argv[1:]:
    u = json.load(open(os.path.join(V, 'contracts', un, 'unit.json')))
    for prop in u['properties']:
        env = dict(os.environ, VERIF_NO_REPLAY='1')
        p = subprocess.run([sys.executable, os.path.join(V, 'vp', 'run.py'), prop, '--unit', un], env=env, stdout=subprocess.PIPE, stderr=subprocess.STDOUT, text=True)
        lines = [l for l in p.stdout.splitlines() if l.startswith(('VIOLATION', 'UNDECIDED', 'KNOWN', 'NOTE', '['))]
        print(un, prop, 'exit', p.returncode, flush=True)
        for l in lines:
            print('    ' + l[:300], flush=True)
        res.append((un, prop, p.returncode))
print(json.dumps(res))
