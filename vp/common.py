"""shared paths, locking, small helpers (stdlib only)."""
import fcntl
import hashlib
import json
import os
import subprocess
import time

VERIF = os.path.dirname(os.path.dirname(os.path.abspath(__file__)))
REPO = os.environ.get('VERIF_REPO', '/repo')
WORK = os.environ.get('VERIF_WORK', os.path.join(VERIF, '.work'))
CONTRACTS = os.path.join(VERIF, 'contracts')
# evidence / replays of runs against a scratch copy (VERIF_REPO set: mutation self-tests) never touch the committed ones
_SCRATCH_RUN = os.environ.get('VERIF_REPO', '/repo') != '/repo'
EVIDENCE = os.path.join(WORK, 'evidence-scratch') if _SCRATCH_RUN else os.path.join(VERIF, 'evidence')
REPLAYS = os.path.join(WORK, 'replays-scratch') if _SCRATCH_RUN else os.path.join(VERIF, 'replays')
KNOWN = os.path.join(VERIF, 'known_findings.json')

KANI_REPO = os.path.join(WORK, 'kani', 'repo')
KANI_TARGET = os.path.join(WORK, 'kani', 'target')
VERUS_DIR = os.path.join(WORK, 'verus')

NCPU = os.cpu_count() or 4


class Undecided(Exception):
    """the check cannot decide (lost anchor, tool limit, compiler crash, vacuity guard) -> exit 2"""


class Lock:
    def __init__(self, name):
        os.makedirs(WORK, exist_ok=True)
        self.path = os.path.join(WORK, name + '.lock')

    def __enter__(self):
        self.f = open(self.path, 'w')
        fcntl.flock(self.f, fcntl.LOCK_EX)
        return self

    def __exit__(self, *a):
        fcntl.flock(self.f, fcntl.LOCK_UN)
        self.f.close()


def sh(cmd, cwd=None, env=None, timeout=None, input=None):
    e = dict(os.environ)
    e.update({'CARGO_NET_OFFLINE': 'true'})
    if env:
        e.update(env)
    t0 = time.time()
    try:
        p = subprocess.run(cmd, cwd=cwd, env=e, stdout=subprocess.PIPE, stderr=subprocess.STDOUT,
                           timeout=timeout, input=input, text=True, errors='replace')
        return p.returncode, p.stdout, time.time() - t0
    except subprocess.TimeoutExpired as ex:
        out = ex.stdout or ''
        if isinstance(out, bytes):
            out = out.decode(errors='replace')
        return 124, out + '\n[vp] TIMEOUT', time.time() - t0


def load_units(all_units=False):
    """units listed in contracts/enabled.json (integrated, green on the unchanged tree); all_units=True: every directory
    (used with --unit while a unit is being written)."""
    units = []
    enabled = None
    ep = os.path.join(CONTRACTS, 'enabled.json')
    if not all_units and os.path.exists(ep):
        enabled = set(json.load(open(ep)))
    for d in sorted(os.listdir(CONTRACTS)):
        p = os.path.join(CONTRACTS, d, 'unit.json')
        if os.path.exists(p):
            u = json.load(open(p))
            u['dir'] = os.path.join(CONTRACTS, d)
            u.setdefault('unit', d)
            if enabled is not None and u['unit'] not in enabled:
                continue
            units.append(u)
    return units


def repo_revision():
    rc, out, _ = sh(['git', '-C', REPO, 'rev-parse', 'HEAD'])
    head = out.strip() if rc == 0 else 'unknown'
    rc, out, _ = sh(['git', '-C', REPO, 'diff', 'HEAD'])
    dirty = hashlib.sha1(out.encode()).hexdigest()[:12] if rc == 0 and out.strip() else None
    return head, dirty


def known_findings():
    if os.path.exists(KNOWN):
        return json.load(open(KNOWN)).get('findings', [])
    return []
