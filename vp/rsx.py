#!/usr/bin/env python3
"""Rust-aware item locator (stdlib only).

Masks comments / strings, brace-matches, and finds items by *path* in the current
text of a source file:
    "fn name"  "struct Name"  "enum Name"  "const NAME"  "trait Name"  "type Name"
    "Type::method"              (method in an inherent `impl Type`)
    "Type::<Trait>::method"     (method in `impl Trait for Type`)
    "impl Type"  /  "impl <Trait> Type"   (whole impl block)
Nothing here interprets Rust semantics; it only finds spans so that the weaver
can copy real text (Verus) or insert attribute lines in front of it (Kani).
"""
import re


class Lost(Exception):
    """an anchor named by a sidecar is no longer present in /repo"""


def mask(src):
    """copy of src with comments / string and char literal contents blanked (same length)."""
    out = list(src)
    i = 0
    n = len(src)

    def blank(a, b):
        for k in range(a, min(b, n)):
            if out[k] != '\n':
                out[k] = ' '

    while i < n:
        c = src[i]
        if src.startswith('//', i):
            j = src.find('\n', i)
            j = n if j < 0 else j
            blank(i, j)
            i = j
        elif src.startswith('/*', i):
            depth = 1
            j = i + 2
            while j < n and depth:
                if src.startswith('/*', j):
                    depth += 1
                    j += 2
                elif src.startswith('*/', j):
                    depth -= 1
                    j += 2
                else:
                    j += 1
            blank(i, j)
            i = j
        elif c == '"' or (c in 'rb' and re.match(r'b?r#*"|b"', src[i:i + 8]) and (i == 0 or not (src[i - 1].isalnum() or src[i - 1] == '_'))):
            m = re.match(r'b?r(#*)"', src[i:])
            if m:
                hashes = m.group(1)
                end = '"' + hashes
                j = src.find(end, i + len(m.group(0)))
                j = n if j < 0 else j + len(end)
                blank(i + len(m.group(0)), j - len(end))
            else:
                s = i + (2 if c == 'b' else 1)
                j = s
                while j < n and src[j] != '"':
                    j += 2 if src[j] == '\\' else 1
                blank(s, j)
                j += 1
            i = j
        elif c == "'":
            m = re.match(r"'(\\.[^']*|[^'\\])'", src[i:])
            if m:
                blank(i + 1, i + len(m.group(0)) - 1)
                i += len(m.group(0))
            else:
                i += 1  # lifetime
        else:
            i += 1
    return ''.join(out)


def match_brace(m, i, open_='{', close='}'):
    depth = 0
    while i < len(m):
        if m[i] == open_:
            depth += 1
        elif m[i] == close:
            depth -= 1
            if depth == 0:
                return i
        i += 1
    raise ValueError("unbalanced")


def _attrs_start(src, kw_line_start):
    """walk back over attribute / doc-comment lines directly above."""
    s = kw_line_start
    while s > 0:
        prev_end = s - 1
        prev_start = src.rfind('\n', 0, prev_end) + 1
        line = src[prev_start:prev_end].strip()
        if line.startswith('#[') or line.startswith('///') or line.startswith('//!') or (line.endswith(']') and _inside_attr(src, prev_start)):
            s = prev_start
        elif line.endswith(')]') or line.endswith(',') and _inside_attr(src, prev_start):
            s = prev_start
        else:
            break
    return s


def _inside_attr(src, pos):
    # crude: multi-line attribute `#[derive(\n A,\n B\n)]` -- look back for an unclosed '#['
    k = src.rfind('#[', 0, pos)
    if k < 0:
        return False
    seg = src[k:pos]
    return seg.count('[') > seg.count(']')


def _body_span(m, start_kw):
    """from keyword start: (body_open or None, end_exclusive)."""
    i = start_kw
    par = 0
    ang = 0
    while i < len(m):
        ch = m[i]
        if ch in '([':
            par += 1
        elif ch in ')]':
            par -= 1
        elif ch == '{' and par == 0:
            return i, match_brace(m, i) + 1
        elif ch == ';' and par == 0:
            return None, i + 1
        i += 1
    raise ValueError("no body")


class Src:
    def __init__(self, path, text=None):
        self.path = path
        self.src = open(path).read() if text is None else text
        self.m = mask(self.src)

    # ---- impl blocks -------------------------------------------------
    def impl_blocks(self, type_name):
        res = []
        for mm in re.finditer(r'(?m)^[ \t]*(unsafe\s+)?impl\b', self.m):
            try:
                ob, _ = _body_span(self.m, mm.end())
            except ValueError:
                continue
            if ob is None:
                continue
            hdr = self.m[mm.end():ob]
            h = re.split(r'\bwhere\b', hdr)[0]
            # strip leading generics
            h = h.strip()
            if h.startswith('<'):
                k = match_brace(h, 0, '<', '>')
                h = h[k + 1:].strip()
            trait = None
            mf = re.search(r'\sfor\s', ' ' + h)
            if mf:
                trait = h[:mf.start()].strip()
                tgt = h[mf.end() - 1:].strip()
            else:
                tgt = h
            name = re.match(r'[&\s]*(?:mut\s+)?([\w:]+)', tgt)
            if name and name.group(1).split('::')[-1] == type_name:
                res.append((mm.start(), ob, match_brace(self.m, ob), trait))
        return res

    def find(self, spec):
        """-> dict(start (incl. attrs), kw (keyword line start), open (body '{' or None), end (exclusive))"""
        src, m = self.src, self.m
        spec = spec.strip()
        if spec.startswith('impl '):
            rest = spec[5:].strip()
            trait = None
            mt = re.match(r'<(.*)>\s+(\w+)$', rest)
            if mt:
                trait, ty = mt.group(1), mt.group(2)
            else:
                ty = rest
            for (s, ob, cb, tr) in self.impl_blocks(ty):
                if (trait is None) != (tr is None):
                    continue
                if trait and trait not in tr:
                    continue
                ls = src.rfind('\n', 0, s) + 1
                return dict(start=_attrs_start(src, ls), kw=ls, open=ob, end=cb + 1)
            raise Lost(f"{self.path}: {spec}")
        if '::' in spec:
            parts = spec.split('::')
            ty, meth = parts[0], parts[-1]
            trait = parts[1].strip('<>') if len(parts) == 3 else None
            for (_, ob, cb, tr) in self.impl_blocks(ty):
                if trait and (tr is None or trait not in tr):
                    continue
                if not trait and tr is not None:
                    continue
                for mm in re.finditer(r'\bfn\s+' + re.escape(meth) + r'\b', m[ob:cb]):
                    k = ob + mm.start()
                    depth = m[ob:k].count('{') - m[ob:k].count('}')
                    if depth != 1:
                        continue
                    ls = src.rfind('\n', 0, k) + 1
                    o, e = _body_span(m, k)
                    return dict(start=_attrs_start(src, ls), kw=ls, open=o, end=e)
            raise Lost(f"{self.path}: {spec}")
        kw, name = spec.split()
        mm = re.search(r'(?m)^[ \t]*(pub(\([^)]*\))?\s+)?((const|unsafe|async)\s+)*' + kw + r'\s+' + re.escape(name) + r'\b', m)
        if not mm:
            raise Lost(f"{self.path}: {spec}")
        ls = mm.start()
        k = mm.start() + (len(mm.group(0)) - len(mm.group(0).lstrip()))
        o, e = _body_span(m, k)
        return dict(start=_attrs_start(src, ls), kw=ls, open=o, end=e)

    def text(self, spec):
        d = self.find(spec)
        return self.src[d['start']:d['end']]

    def callers_of(self, name):
        """line numbers where `.name(` or `::name(` appears in code (not comments)."""
        return [self.m.count('\n', 0, mm.start()) + 1 for mm in re.finditer(r'(\.|::)' + re.escape(name) + r'\s*\(', self.m)]


if __name__ == '__main__':
    import sys
    s = Src(sys.argv[1])
    for spec in sys.argv[2:]:
        print(s.text(spec))
        print()
