#!/usr/bin/env python3
"""dev helper: weave a verus unit and run verus, printing diagnostics compactly."""
import sys, os, re
sys.path.insert(0, os.path.dirname(os.path.abspath(__file__)))
import verus_run, common
u = [x for x in common.load_units(True) if x['unit'] == sys.argv[1]][0]
t, m = verus_run.weave(u)
os.makedirs(common.VERUS_DIR, exist_ok=True)
p = os.path.join(common.VERUS_DIR, u['unit'] + '.rs')
open(p, 'w').write(t)
rc, out, wall, js, cmd = verus_run.run_verus(p, extra=sys.argv[2:])
import re as _re
_m = _re.search(r'(?m)^\{$', out)
k = _m.start() if _m else -1
print(out[:k if k > 0 else None][-int(os.environ.get('TAIL', '9000')):])
if js:
    print(js.get('verification-results'), f'wall={wall:.1f}s')
if js and os.environ.get('TIMES'):
    for m in js['times-ms'].get('smt', {}).get('smt-run-module-times', []):
        for f in sorted(m.get('function-breakdown', []), key=lambda x: -x['time'])[:8]:
            print(f['function'], f['time'], 'ms', 'rlimit', f['rlimit'], f['success'])
