"""Verus side.

A Verus unit (`"tool": "verus"` in unit.json) names a *template* (`"template": "x.vrs"`).  The template is Verus
text (spec functions, lemmas, `impl T {` wrappers, assumed library specs) in which directives pull the REAL items
out of /repo's current working tree on every run:

  //@include <relative path>                 textual include of another template fragment
  //@item <repo file> :: <item spec> [+Structural] [as-is]
                                             copy a struct / enum / const / type / fn verbatim (mechanical rewrites only)
  //@fn <repo file> :: <Type::method | fn name>
      //@ret <name>                          `-> T` becomes `-> (name: T)`
      //@attr <text>                         extra attribute line(s) in front of the fn
      //@spec                                following lines (requires/ensures/decreases) go between signature and body
      //@entry                               following lines are inserted at the start of the body
      //@loop <n>                            following lines (invariant/ensures/decreases) go after the n-th loop header
      //@closure "<verbatim closure>" [#k]   the next line is a closure header `|x: T| -> (r: R) ensures ...`; the
                                             closure's parameter list is replaced by it and its body, verbatim, is
                                             wrapped in braces (W11: ghost contract on a closure; Verus proves it)
      //@before "<verbatim code>" [#k]       following lines go in front of the line holding the k-th occurrence
      //@after "<verbatim code>" [#k]        following lines go after the line holding the k-th occurrence
  //@endfn
  //@id <obligation id>                      (inside spec/loop text) names the next clause line

The function body is copied from /repo; nothing in it is rewritten except the mechanical operations W0-W8 below,
each application of which is counted and reported in the evidence.  A directive whose anchor is gone raises
`Undecided` (exit 2).  Verus' diagnostics are mapped back through the line map to named obligations.
"""
import json
import os
import re
import time

from common import REPO, REPLAYS, VERUS_DIR, NCPU, Lock, Undecided, sh
from rsx import Lost, Src, mask, match_brace

VERUS_TOOLCHAIN = '1.98.1-x86_64-unknown-linux-gnu'


# ------------------------------------------------------------------------------------------------
# setup: dependency rlibs compiled with Verus' toolchain
def _bytes_src():
    base = os.path.expanduser('~/.cargo/registry/src')
    for d in sorted(os.listdir(base)):
        for c in sorted(os.listdir(os.path.join(base, d))):
            if re.match(r'bytes-1\.\d+\.\d+$', c):
                lock = open(os.path.join(REPO, 'Cargo.lock')).read()
                ver = c.split('-', 1)[1]
                if f'name = "bytes"\nversion = "{ver}"' in lock:
                    return os.path.join(base, d, c, 'src', 'lib.rs')
    raise Undecided('bytes crate source not found in the cargo registry')


def setup():
    os.makedirs(VERUS_DIR, exist_ok=True)
    out = os.path.join(VERUS_DIR, 'libbytes.rlib')
    if os.path.exists(out):
        return out
    with Lock('verus-setup'):
        if os.path.exists(out):
            return out
        rc, o, wall = sh(['rustc', '--edition', '2021', '--crate-type', 'rlib', '--crate-name', 'bytes',
                          '--cfg', 'feature="std"', '--cfg', 'feature="default"', '-A', 'warnings', '-o', out + '.tmp',
                          _bytes_src()], env={'RUSTUP_TOOLCHAIN': VERUS_TOOLCHAIN}, timeout=600)
        if rc != 0:
            raise Undecided('cannot build bytes rlib for Verus: ' + o[-2000:])
        os.replace(out + '.tmp', out)
        print(f'[setup] verus: bytes rlib built in {wall:.1f}s')
    return out


# ------------------------------------------------------------------------------------------------
# mechanical rewrites
class Rewrites:
    def __init__(self):
        self.count = {}

    def hit(self, k, n=1):
        if n:
            self.count[k] = self.count.get(k, 0) + n


def _strip_docs(text, rw):
    out = []
    n = 0
    for l in text.splitlines(keepends=True):
        if l.lstrip().startswith('///') or l.lstrip().startswith('//!'):
            n += 1
            continue
        out.append(l)
    rw.hit('W0.doc_comments_dropped', n)
    return ''.join(out)


def _rewrite_derives(text, rw, add_structural):
    def fix(m):
        names = [x.strip() for x in m.group(1).replace('\n', ' ').split(',') if x.strip()]
        keep = []
        for x in names:
            if x in ('Debug', 'Error', 'thiserror::Error', 'Deref', 'DerefMut'):
                rw.hit('W4.derive_dropped:' + x)
            else:
                keep.append(x)
        if add_structural and 'PartialEq' in keep and 'Eq' in keep and 'Structural' not in keep:
            keep.append('Structural')
            rw.hit('W10.structural_added')
        return '#[derive(' + ', '.join(keep) + ')]' if keep else ''
    text = re.sub(r'#\[derive\(([^\]]*?)\)\]', fix, text, flags=re.S)
    text, n = re.subn(r'(?m)^[ \t]*#\[(error|deref|deref_mut)(\([^\n]*\))?\]\n', '', text)
    rw.hit('W4.attr_dropped', n)
    return text


def _balanced_call_end(m, i):
    """i at '(' -> index after matching ')'"""
    return match_brace(m, i, '(', ')') + 1


def _rewrite_body(text, rw):
    # W7: drop tracing / qevent macro statements
    while True:
        m = mask(text)
        mm = re.search(r'(?m)^[ \t]*(tracing::\w+!|qevent::event!|qevent::span!)\s*\(', m)
        if not mm:
            break
        e = _balanced_call_end(m, m.index('(', mm.start()))
        while e < len(m) and m[e] in ' \t':
            e += 1
        if e < len(m) and m[e] == ';':
            e += 1
        if e < len(m) and m[e] == '\n':
            e += 1
        text = text[:mm.start()] + text[e:]
        rw.hit('W7.log_macro_statement_dropped')
    # W8: debug_assert!(c [, msg..]) -> assert(c)   (strengthens: must be provable)
    while True:
        m = mask(text)
        mm = re.search(r'\bdebug_assert!\s*\(', m)
        if not mm:
            break
        o = m.index('(', mm.start())
        e = match_brace(m, o, '(', ')')
        inner_m = m[o + 1:e]
        # split at first top-level comma
        depth = 0
        cut = None
        for k, ch in enumerate(inner_m):
            if ch in '([{':
                depth += 1
            elif ch in ')]}':
                depth -= 1
            elif ch == ',' and depth == 0:
                cut = k
                break
        cond = text[o + 1:e] if cut is None else text[o + 1:o + 1 + cut]
        text = text[:mm.start()] + 'if !(' + cond.strip() + ') { vp_debug_assert_failed(); }' + text[e + 1:]
        rw.hit('W8.debug_assert_to_proof_obligation')
    # W5: match arm `=> _ = expr,`  ->  `=> { let _ = expr; }`
    def w5(mm):
        rw.hit('W5.destructuring_assignment_arm')
        return f'=> {{ let _ = {mm.group(1)}; }}'
    text = re.sub(r'=>\s*_\s*=\s*([^,\n]+),', w5, text)
    # W5b: statement `_ = expr;` -> `let _ = expr;`
    text, n = re.subn(r'(?m)^([ \t]*)_\s*=(?![=>])\s*', r'\1let _ = ', text)
    rw.hit('W5.underscore_assignment_stmt', n)
    # W6: `X.drain(..n)` whose iterator is dropped at once -> trusted wrapper with std's documented effect
    def w6(mm):
        rw.hit('W6.drain_front_stmt')
        return f'{mm.group(1)}vd_drain_front(&mut {mm.group(2)}, {mm.group(3)});'
    text = re.sub(r'(?m)^([ \t]*)let _ = ([\w.]+)\.drain\(\.\.([^)]+)\);', w6, text)
    # W6b: statement `X.drain(a..b);` / `X.drain(a..=b);` (iterator dropped at once) -> trusted wrapper
    # `vd_drain_range(&mut X, a, b)` (defined, with std's documented effect, in the template that needs it)
    def w6r(mm):
        rw.hit('W6.drain_range_stmt')
        a, incl, b = mm.group(3).strip(), mm.group(4), mm.group(5).strip()
        return f'{mm.group(1)}vd_drain_range(&mut {mm.group(2)}, {a}, {"(" + b + ") + 1" if incl else b});'
    text = re.sub(r'(?m)^([ \t]*)([\w.]+)\.drain\(([^.()]+?)\.\.(=?)([^=.()][^.()]*)\);', w6r, text)
    return text


def _weave_fn(src, spec, body_dir, rw, idmap_sink):
    """src: Src of repo file; body_dir: dict of directive lists. returns woven text (list of (line, tag))"""
    d = src.find(spec)
    text = src.src[d['start']:d['end']]
    text = _strip_docs(text, rw)
    m = mask(text)
    # locate signature/body
    fnk = re.search(r'\bfn\s+\w+', m)
    if not fnk:
        raise Undecided(f'no fn keyword in {spec}')
    par = m.index('(', fnk.end() - 1) if '(' in m[fnk.end() - 1:] else None
    # generics may precede '(' ; find first '(' at angle depth 0
    i = fnk.end()
    ang = 0
    while i < len(m):
        if m[i] == '<':
            ang += 1
        elif m[i] == '>' and m[i - 1] != '-':
            ang -= 1
        elif m[i] == '(' and ang == 0:
            break
        i += 1
    pclose = match_brace(m, i, '(', ')')
    # body open: first '{' at depth 0 after pclose
    j = pclose + 1
    depth = 0
    while j < len(m):
        if m[j] in '([':
            depth += 1
        elif m[j] in ')]':
            depth -= 1
        elif m[j] == '{' and depth == 0:
            break
        j += 1
    bopen = j
    bclose = match_brace(m, bopen)
    sig = text[:bopen].rstrip()
    body = text[bopen:bclose + 1]
    # return name
    ret = body_dir.get('ret')
    if ret:
        sm = mask(sig)
        k = sm.find('->', pclose)
        if k >= 0:
            w = re.search(r'\bwhere\b', sm[k:])
            tend = k + w.start() if w else len(sig)
            ty = sig[k + 2:tend].strip()
            sig = sig[:k] + f'-> ({ret}: {ty})' + ((' ' + sig[tend:]) if w else '')
    sig, nvis = re.subn(r'(?m)^([ \t]*)pub(\([^)]*\))?\s+((?:const\s+|async\s+|unsafe\s+)*fn\b)', r'\1\3', sig, count=1)
    rw.hit('W12.visibility_dropped', nvis)
    # body insertions (work on body text with masks; apply bottom-up)
    bm = mask(body)
    inserts = []  # (pos, text)
    if body_dir.get('entry'):
        inserts.append((1, '\n' + ''.join(body_dir['entry'])))
    # loops
    loop_pos = []
    for lm in re.finditer(r'\b(loop|while|for)\b', bm):
        # body '{' of this loop
        k = lm.end()
        dep = 0
        while k < len(bm):
            if bm[k] in '([':
                dep += 1
            elif bm[k] in ')]':
                dep -= 1
            elif bm[k] == '{' and dep == 0:
                break
            k += 1
        loop_pos.append(k)
    for n, lines in body_dir.get('loops', {}).items():
        if n < 1 or n > len(loop_pos):
            raise Undecided(f'lost anchor: {spec} has {len(loop_pos)} loops, sidecar wants loop {n}')
        inserts.append((loop_pos[n - 1], '\n' + ''.join(lines)))
    for kind in ('before', 'after'):
        for (frag, occ, lines) in body_dir.get(kind, []):
            pos = -1
            start = 0
            for _ in range(occ):
                pos = body.find(frag, start)
                if pos < 0:
                    break
                start = pos + 1
            if pos < 0:
                raise Undecided(f'lost anchor: {spec}: `{frag}` #{occ} not found')
            if kind == 'before':
                ls = body.rfind('\n', 0, pos) + 1
                inserts.append((ls, ''.join(lines)))
            else:
                le = body.find('\n', pos)
                le = len(body) if le < 0 else le + 1
                inserts.append((le, ''.join(lines)))
    # closures: replace `|params| expr` by `<header> { expr }`  (positions computed on the un-inserted body)
    repl = []
    for (frag, occ, lines) in body_dir.get('closure', []):
        pos, start = -1, 0
        for _ in range(occ):
            pos = body.find(frag, start)
            if pos < 0:
                break
            start = pos + 1
        if pos < 0:
            raise Undecided(f'lost anchor: {spec}: closure `{frag}` #{occ} not found')
        mc = re.match(r'\|([^|]*)\|\s*(.*)$', frag, re.S)
        hdr = ' '.join(x.strip() for x in lines if x.strip())
        mh = re.match(r'\|([^|]*)\|', hdr)
        if not mc or not mh:
            raise Undecided(f'bad closure directive for {spec}')
        names = lambda ps: [re.split(r'\s*:', x.strip())[0] for x in ps.split(',') if x.strip()]
        if names(mc.group(1)) != names(mh.group(1)):
            raise Undecided(f'closure header renames parameters in {spec}')
        repl.append((pos, pos + len(frag), hdr + ' { ' + mc.group(2) + ' }'))
        rw.hit('W11.closure_contract')
    edits = [(p, p, t) for p, t in inserts] + repl
    for a, b, t in sorted(edits, key=lambda x: (-x[0], -x[1])):
        body = body[:a] + t + body[b:]
    body = _rewrite_body(body, rw)
    attr = ''.join(body_dir.get('attr', []))
    spec_txt = ''.join(body_dir.get('spec', []))
    return attr + sig + '\n' + spec_txt + body + '\n'


def weave(unit):
    """-> (text, meta) ; meta: idlines {lineno: id}, fnlines [(start,end,name)], rewrites, extracted"""
    rw = Rewrites()
    tpath = os.path.join(unit['dir'], unit['template'])
    srcs = {}
    extracted = []

    def get_src(rel):
        if rel not in srcs:
            p = os.path.join(REPO, rel)
            if not os.path.exists(p):
                raise Undecided(f'lost anchor: {rel} no longer exists')
            srcs[rel] = Src(p)
        return srcs[rel]

    def read_lines(path):
        out = []
        for line in open(path).read().splitlines(keepends=True):
            mm = re.match(r'\s*//@include\s+(\S+)', line)
            if mm:
                out += read_lines(os.path.join(os.path.dirname(path), mm.group(1)))
            else:
                out.append(line)
        return out

    lines = read_lines(tpath)
    out = []
    i = 0
    try:
        while i < len(lines):
            line = lines[i]
            s = line.strip()
            mi = re.match(r'//@item\s+(\S+)\s*::\s*(.+?)(\s+\+Structural)?\s*$', s)
            mf = re.match(r'//@fn\s+(\S+)\s*::\s*(.+?)\s*$', s)
            if mi:
                src = get_src(mi.group(1))
                t = src.text(mi.group(2))
                t = _strip_docs(t, rw)
                t = _rewrite_derives(t, rw, bool(mi.group(3)))
                t, nvis = re.subn(r'(?m)^([ \t]*)pub(\([^)]*\))?\s+(struct|enum|const|type|fn|static)\b', r'\1\3', t, count=1)
                rw.hit('W12.visibility_dropped', nvis)
                t = _rewrite_body(t, rw)
                extracted.append(f'{mi.group(1)}::{mi.group(2)}')
                out.append(t + '\n')
                i += 1
            elif mf:
                rel, spec = mf.group(1), mf.group(2)
                bd = {'loops': {}, 'before': [], 'after': [], 'closure': []}
                cur = None
                i += 1
                while i < len(lines) and lines[i].strip() != '//@endfn':
                    l = lines[i]
                    ls = l.strip()
                    md = re.match(r'//@(\w+)\s*(.*)$', ls)
                    if md and md.group(1) != 'id':
                        k, arg = md.group(1), md.group(2).strip()
                        if k == 'ret':
                            bd['ret'] = arg
                            cur = None
                        elif k in ('spec', 'entry', 'attr'):
                            cur = bd.setdefault(k, [])
                        elif k == 'loop':
                            cur = bd['loops'].setdefault(int(arg), [])
                        elif k in ('before', 'after', 'closure'):
                            ma = re.match(r'"(.*)"\s*(?:#(\d+))?$', arg)
                            if not ma:
                                raise Undecided(f'bad directive: {ls}')
                            cur = []
                            bd[k].append((ma.group(1), int(ma.group(2) or 1), cur))
                        else:
                            raise Undecided(f'unknown directive {ls}')
                    elif cur is not None:
                        cur.append(l)
                    i += 1
                if i >= len(lines):
                    raise Undecided(f'unterminated //@fn {spec}')
                i += 1
                woven = _weave_fn(get_src(rel), spec, bd, rw, None)
                extracted.append(f'{rel}::{spec}')
                out.append(f'//@@fn-begin {rel}::{spec}\n')
                out.append(woven)
                out.append(f'//@@fn-end\n')
            else:
                out.append(line)
                i += 1
    except Lost as e:
        raise Undecided(f'lost anchor: {e}')
    text = ''.join(out)
    # ids / function line map
    idlines, fnlines, cur_fn, pending = {}, [], None, None
    final = []
    for l in text.splitlines():
        s = l.strip()
        if s.startswith('//@@fn-begin'):
            cur_fn = [len(final) + 1, None, s.split(' ', 1)[1]]
            continue
        if s == '//@@fn-end':
            cur_fn[1] = len(final)
            fnlines.append(tuple(cur_fn))
            cur_fn = None
            continue
        mid = re.match(r'//@id\s+(\S+)', s)
        if mid:
            pending = mid.group(1)
            continue
        final.append(l)
        if pending and s and not s.startswith('//'):
            idlines[len(final)] = pending
            pending = None
    return '\n'.join(final) + '\n', dict(idlines=idlines, fnlines=fnlines, rewrites=rw.count, extracted=extracted)


LEDGER_PAT = re.compile(r'\b(assume\s*\(|admit\s*\(|external_body|assume_specification|external_type_specification|'
                        r'#\[verifier::external\]|axiom)')


def ledger(text):
    """every trusted construct in the woven file, by kind and name."""
    led = []
    for n, l in enumerate(text.splitlines(), 1):
        s = l.strip()
        if s.startswith('//'):
            continue
        for m in LEDGER_PAT.finditer(l):
            name = ''
            mm = re.search(r'assume_specification\s*(?:<[^\[]*>)?\s*\[\s*([^\]]+?)\s*\]', l)
            if mm:
                name = mm.group(1)
            led.append(f"{m.group(1).strip('( ')}:{name or s[:70]}")
    return sorted(set(led))


def parse_errors(out, path):
    """Verus human-readable diagnostics -> list of dict(msg, line (primary), notes:[(line,label)])"""
    errs = []
    cur = None
    base = os.path.basename(path)
    for l in out.splitlines():
        m = re.match(r'^error(?:\[\w+\])?: (.*)$', l)
        if m:
            cur = dict(msg=m.group(1), line=None, notes=[], raw=[l])
            errs.append(cur)
            continue
        if cur is not None:
            cur['raw'].append(l)
            m = re.match(r'^\s*(?:-->|:::)\s+(.*?):(\d+):(\d+)', l)
            if m and os.path.basename(m.group(1)) == base:
                if cur['line'] is None:
                    cur['line'] = int(m.group(2))
                else:
                    cur['notes'].append(int(m.group(2)))
            m = re.match(r'^\s*(\d+)\s*\|', l)
            if m:
                cur.setdefault('shown', []).append(int(m.group(1)))
    return [e for e in errs if not e['msg'].startswith('aborting due to') and 'previous error' not in e['msg']]


def run_verus(path, extra=None, timeout=1800, rlimit=None, seed=None):
    cmd = ['verus', path, '--crate-type', 'lib', '--extern', f'bytes={setup()}', '--multiple-errors', '20',
           '--output-json', '--time', '--triggers-mode', 'silent', '--num-threads', str(min(NCPU, 8))]
    if rlimit:
        cmd += ['--rlimit', str(rlimit)]
    if seed:
        cmd += ['--smt-option', f'smt.random_seed={seed}', '--smt-option', f'sat.random_seed={seed}']
    cmd += extra or []
    rc, out, wall = sh(cmd, cwd=os.path.dirname(path), timeout=timeout)
    js = None
    k = out.find('{\n')
    # the JSON blob is printed on stdout; stderr diagnostics are interleaved -- take the last balanced object
    for mm in re.finditer(r'(?m)^\{$', out):
        try:
            js = json.loads(out[mm.start():out.index('\n}\n', mm.start()) + 2])
        except Exception:
            pass
    return rc, out, wall, js, ' '.join(cmd)


def run_unit(prop, unit, tier, seed, log):
    os.makedirs(VERUS_DIR, exist_ok=True)
    t0 = time.time()
    text, meta = weave(unit)
    path = os.path.join(VERUS_DIR, f"{unit['unit']}.rs")
    open(path, 'w').write(text)
    rc, out, wall, js, cmd = run_verus(path, rlimit=unit.get('rlimit'), seed=seed if tier == 'thorough' else None)
    vr = (js or {}).get('verification-results', {})
    verified, nerr = vr.get('verified'), vr.get('errors')
    errs = parse_errors(out, path)
    m = dict(unit=unit['unit'], cmd=cmd, wall=wall, verified=verified, errors=nerr, rewrites=meta['rewrites'],
             extracted=meta['extracted'], ledger=ledger(text),
             smt_time_ms=((js or {}).get('times-ms') or {}).get('smt', {}).get('total') if js else None)
    if js is None or verified is None or not vr.get('encountered-vir-error') is False and vr.get('encountered-vir-error'):
        log(out[-6000:])
        raise Undecided(f"verus could not process unit {unit['unit']} (the extracted code left Verus' subset, or a "
                        f"type error in a contract): see log")
    if rc != 0 and not errs and nerr == 0:
        log(out[-6000:])
        raise Undecided(f"verus failed without verification diagnostics on {unit['unit']}")
    # ---- obligations --------------------------------------------------------------------------
    ids = meta['idlines']           # line -> id
    fnl = meta['fnlines']
    results = []
    failed_ids, failed_fns, other = set(), {}, []
    rl_hit = False
    for e in errs:
        if 'rlimit' in e['msg'] or 'resource limit' in e['msg'].lower() or 'timed out' in e['msg'].lower():
            rl_hit = True
        lines = [x for x in [e['line']] + e['notes'] + e.get('shown', []) if x]
        hit = [ids[x] for x in lines if x in ids]
        fn = None
        for (a, b, name) in fnl:
            if any(a <= x <= b for x in lines):
                fn = name
        if hit:
            failed_ids.update(hit)
        if fn:
            failed_fns.setdefault(fn, []).append(e['msg'])
        if not hit and not fn:
            other.append(e['msg'])
    if rl_hit:
        log(out[-4000:])
        raise Undecided(f"verus hit its resource limit on {unit['unit']} (tool limit, not a verdict)")
    base = dict(unit=unit['unit'], harness=unit['unit'], backend='verus/z3', bounded=False, bound=None,
                time=round((m['smt_time_ms'] or 0) / 1000.0, 3))
    my_ids = sorted({v for v in ids.values() if v.startswith(prop + '.')})
    if not my_ids:
        raise Undecided(f"vacuity guard: unit {unit['unit']} carries no obligation id of {prop}")
    detail = {}
    for e in errs:
        for x in [e['line']] + e['notes'] + e.get('shown', []):
            if x in ids:
                detail.setdefault(ids[x], []).append(e['msg'])
    for oid in my_ids:
        st = 'failed' if oid in failed_ids else 'discharged'
        results.append(dict(base, id=oid, cls='support' if '.sup.' in oid else 'property', status=st,
                            detail='; '.join(detail.get(oid, [])) or None,
                            expect_fail=oid in unit.get('expect_fail_ids', [])))
    # a named clause of ANOTHER property that this unit also serves fails: the contract of a function this property
    # depends on is broken -- report it under its own id (property class), do not hide it in a `.body` obligation
    for oid in sorted(failed_ids):
        if not oid.startswith(prop + '.') and '.sup.' not in oid and oid not in unit.get('expect_fail_ids', []):
            results.append(dict(base, id=oid, cls='property', status='failed',
                                detail='(clause of another property served by the same unit) ' + '; '.join(detail.get(oid, []))))
    # one body obligation per extracted function: everything Verus checks in it that has no id of its own
    # (call preconditions, overflow, unlabelled invariants, termination)
    for (a, b, name) in fnl:
        short = name.split('::', 1)[1] if '::' in name else name
        oid = f"{prop}.{unit['unit']}.{short.replace('::', '.')}.body"
        msgs = failed_fns.get(name, [])
        # a function whose only failures are labelled clauses still has its body obligation open: the labelled
        # failure already reports it
        unl = [x for x in msgs]
        named_in_fn = any(a <= ln <= b for ln in ids if ids[ln] in failed_ids and ids[ln].startswith(prop + '.'))
        st = 'failed' if (unl and not named_in_fn) else ('discharged' if not unl else 'failed-with-named')
        if st == 'failed-with-named':
            st = 'discharged-modulo-named'
        # `body_property`: functions whose panic/overflow freedom is itself a clause of the property (arithmetic on
        # peer-controlled numbers): their body obligation is property-class
        bcls = 'property' if short in unit.get('body_property', []) else 'support'
        results.append(dict(base, id=oid, cls=bcls, status='failed' if st == 'failed' else 'discharged',
                            detail='; '.join(unl) or None))
    if other:
        results.append(dict(base, id=f"{prop}.{unit['unit']}.lemmas", cls='support', status='failed',
                            detail='; '.join(other)))
    # (only meaningful for a run without errors: it guards against a vacuous *pass*)
    # vacuity canary: a deliberately false lemma in the unit must be rejected
    if unit.get('canary') and not errs and nerr == 0:
        c_rc, c_out, _, c_js, _ = run_verus(_canary_file(path, text, unit['canary']))
        ok = c_js and c_js.get('verification-results', {}).get('errors', 0) >= 1
        m['vacuity_canary'] = 'rejected' if ok else 'ACCEPTED'
        if not ok:
            raise Undecided(f"vacuity guard: the false canary lemma of {unit['unit']} was not rejected")
    m['errors_text'] = ['\n'.join(e['raw'][:25]) for e in errs][:10]
    m['path'] = path
    m['obligation_lines'] = len(ids)
    if verified == 0:
        raise Undecided(f"vacuity guard: verus verified zero functions in {unit['unit']}")
    return results, m


def _canary_file(path, text, canary):
    p = path[:-3] + '_canary.rs'
    k = text.rstrip().rfind('}')  # closing of verus!{ }
    t = text.rstrip()
    # insert the false lemma just before the final `} // verus!`
    idx = t.rfind('} // verus!')
    if idx < 0:
        idx = k
    open(p, 'w').write(t[:idx] + '\n' + canary + '\n' + t[idx:] + '\n')
    return p


def replay(prop, r, units):
    """no model from Verus: the replay file names the failed obligation and carries the verifier's output.
    A unit may name a paired native driver (`"driver"`) that searches a concrete failing input on the real crate."""
    os.makedirs(REPLAYS, exist_ok=True)
    u = [x for x in units if x['unit'] == r['unit']][0]
    path = os.path.join(REPLAYS, f"{prop}-{r['unit']}.txt")
    vpath = os.path.join(VERUS_DIR, f"{u['unit']}.rs")
    rc, out, wall, js, cmd = run_verus(vpath)
    mj = re.search(r'(?m)^\{$', out)
    diag = out[:mj.start()] if mj else out
    txt = [f"# property {prop}: obligation {r['id']} of Verus unit {u['unit']} is no longer discharged",
           f"# command: {cmd}", f"# detail: {r.get('detail')}", '', "## verifier diagnostics", diag[-12000:]]
    concrete = False
    if u.get('driver'):
        import driver_run
        found, dtxt = driver_run.search(u, prop)
        txt += ['', '## paired native search for a failing input on the real crate', dtxt]
        concrete = found
    open(path, 'w').write('\n'.join(txt) + '\n')
    return path, concrete
