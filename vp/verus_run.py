"""Verus side (placeholder until the weaver lands)."""
from common import Undecided


def run_unit(prop, unit, tier, seed, log):
    raise Undecided("verus runner not built yet")


def replay(prop, r, units):
    raise Undecided("n/a")
