#!/usr/bin/env python3
"""setup_cmd: offline warm-up. Builds nothing that the checks depend on for *correctness* -- every check
re-materialises its scratch copy from /repo -- it only pre-compiles the dependency graph with Kani's and
Verus' toolchains so that the per-change checks are incremental."""
import os
import sys
sys.path.insert(0, os.path.dirname(os.path.abspath(__file__)))
from common import KANI_REPO, KANI_TARGET, Lock, load_units, sh
import kani_run
import verus_run


def main():
    units = load_units()
    crates = sorted({u['crate'] for u in units if u['tool'] == 'kani'})
    with Lock('kani'):
        kani_run.materialise([])
        for c in crates:
            rc, out, wall = sh(['cargo', 'kani', '-p', c, '--target-dir', KANI_TARGET] + kani_run.KANI_FLAGS +
                               ['--only-codegen'], cwd=KANI_REPO, timeout=3600)
            print(f'[setup] kani warm-up {c}: rc={rc} {wall:.0f}s')
            if rc != 0:
                print(out[-3000:])
    if hasattr(verus_run, 'setup'):
        verus_run.setup()
    return 0


if __name__ == '__main__':
    sys.exit(main())
