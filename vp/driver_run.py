"""paired native search (design §3.3): after a Verus obligation has failed, look for a concrete failing input by
running an exhaustive small-scope test against the REAL crate (scratch copy, normal toolchain). Never counts
as a pass."""
import os
import re

from common import REPO, WORK, Lock, sh
import kani_run

NATIVE_REPO = os.path.join(WORK, 'native', 'repo')
NATIVE_TARGET = os.path.join(WORK, 'native', 'target')


def search(unit, prop):
    d = unit['driver']
    with Lock('native'):
        # materialise /repo + the driver module (same writer as the Kani side, different destination)
        saved = kani_run.KANI_REPO
        kani_run.KANI_REPO = NATIVE_REPO
        try:
            kani_run.materialise([dict(dir=unit['dir'], splices=[dict(file=d['file'], append=d['append'])])])
        finally:
            kani_run.KANI_REPO = saved
        cmd = ['cargo', 'test', '--offline', '-p', d['crate'], '--lib', d['test'], '--', '--nocapture', '--test-threads', '1']
        rc, out, wall = sh(cmd, cwd=NATIVE_REPO, env={'CARGO_TARGET_DIR': NATIVE_TARGET, 'RUST_BACKTRACE': '0'}, timeout=1500)
    wit = re.findall(r'VERIF-WITNESS.*', out)
    done = re.findall(r'VERIF-SEARCH-DONE.*', out)
    txt = [f'# command: {" ".join(cmd)}  (in a scratch copy of /repo with {d["append"]} appended to {d["file"]}; {wall:.0f}s)']
    if wit:
        txt += ['# the real code fails on this input:', wit[0]]
        return True, '\n'.join(txt)
    if done:
        txt += ['# ' + done[0], '# bound: ' + d.get('bound', '')]
        return False, '\n'.join(txt)
    txt += ['# the search did not run to completion:', out[-3000:]]
    return False, '\n'.join(txt)
